#!/usr/bin/env python3
"""Regenerates /verif/MANIFEST.json from sa/claims.json (one entry per property)."""
import json, os
V = os.path.dirname(os.path.dirname(os.path.abspath(__file__)))
claims = json.load(open(os.path.join(V, "sa/claims.json")))
props = [json.loads(l) for l in open(os.path.join(V, "properties.jsonl")) if l.strip()]
checks, na = [], []
for p in props:
    c = claims.get(p["id"])
    if c is None or c.get("not_applicable"):
        na.append({"property_id": p["id"], "reason": (c or {}).get("not_applicable", "no check built yet for this property")})
        continue
    checks.append({
        "property_id": p["id"],
        "quick_cmd": "./check %s --tier quick" % p["id"],
        "thorough_cmd": "./check %s --tier thorough" % p["id"],
        "evidence_file": "/verif/evidence/%s.json" % p["id"],
        "replay_cmd_template": "./check %s --explain {path}" % p["id"],
        "engine": "sa",
        "level_claimed": {"category": "other", "text": c["text"], "design_ref": c.get("design_ref", "DESIGN.md §5 " + p["id"])},
        "level_note": c["note"],
        "technique": c["technique"],
    })
m = {
    "version": 1,
    "setup_cmd": "./setup.sh",
    "hooks": {
        "guard": "john_yu_sm9_core_verif",
        "enable": "none needed: the static analysis reads private items through the compiler; no cfg-guarded source change exists",
        "baseline_off_cmd": "cd /repo && cargo test --workspace --no-fail-fast --offline",
        "source_commits": [],
        "add_only": True,
    },
    "engines": [{
        "name": "sa", "path": "sa/",
        "serves_properties": [c["property_id"] for c in checks],
        "kind_free_text": "static analysis: rustc_private MIR facts extractor (sa/driver) + repository-specific dataflow / typestate / finite-domain rules in Python (sa/core, sa/rules); compile-fail witnesses (sa/witness)",
    }],
    "checks": checks,
    "not_applicable": na,
    "notes": "Every check decides structural clauses of its property for all inputs/paths by static analysis of /repo's current MIR (dev and release profiles); numerical clauses are declined and listed in level_note and in evidence.coverage.not_decided. See DESIGN.md.",
}
json.dump(m, open(os.path.join(V, "MANIFEST.json"), "w"), indent=1)
print("MANIFEST: %d checks, %d not_applicable" % (len(checks), len(na)))
