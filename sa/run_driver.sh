#!/bin/bash
# usage: run_driver.sh <dev|rel> <out.json> [repo_dir]
# Compiles <repo_dir> (default /repo) lib target under cargo +nightly check with the facts driver
# as RUSTC_WORKSPACE_WRAPPER and writes the facts file. Fails closed when no fresh facts appear.
set -euo pipefail
CFG="$1"; OUT="$(realpath -m "$2")"; REPO="$(realpath "${3:-/repo}")"
HERE="$(cd "$(dirname "$0")" && pwd)"
DRV="$HERE/driver/target/release/sm9-facts"
[ -x "$DRV" ] || { echo "driver not built: run setup" >&2; exit 2; }
CACHE="${SM9_SA_CACHE:-$HERE/../.cache}"
TGT="${SM9_SA_TARGET:-$CACHE/target-$CFG}"
mkdir -p "$TGT"
SYSROOT="$(rustc +nightly --print sysroot)"
FLAGS=""
[ "$CFG" = "rel" ] && FLAGS="--release"
rm -f "$OUT"
# force re-analysis of the crate itself; dependencies stay cached
find "$TGT" -path '*/.fingerprint/sm9_core-*' -prune -exec rm -rf {} + 2>/dev/null || true
cd "$REPO"
CARGO_NET_OFFLINE=true \
LD_LIBRARY_PATH="$SYSROOT/lib" \
RUSTFLAGS="-Zmir-opt-level=0 -Awarnings" \
RUSTC_WORKSPACE_WRAPPER="$DRV" \
CARGO_TARGET_DIR="$TGT" \
SM9_FACTS_OUT="$OUT" \
SM9_FACTS_EXTERN="${SM9_FACTS_EXTERN:-0}" \
cargo +nightly check --lib $FLAGS --offline -q 2> "$OUT.stderr" || { cat "$OUT.stderr" >&2; echo "cargo check failed" >&2; exit 2; }
[ -s "$OUT" ] || { cat "$OUT.stderr" >&2; echo "facts file not produced" >&2; exit 2; }
rm -f "$OUT.stderr"
