"""Provenance terms: a structural reconstruction of *where a value comes from* inside one MIR body.

A term records calls, aggregates, projections and merges; it is never evaluated on values.
Heads:
  ('param', l)                       argument local l (1-based)
  ('const', constdict)
  ('call', fn, args, bb)             result of the call terminating block bb
  ('mutcall', fn, args, argpos, bb)  a place after it was handed by `&mut` (argument argpos) to that call
  ('ref', t, mut) ('deref', t) ('field', t, i) ('down', t, variant, name) ('index', t, i_term) ('cindex', t, n)
  ('agg', what, variant_name, ops)   what = adt path | 'tuple' | 'array' | ('closure', path)
  ('binop', op, a, b) ('unop', op, a) ('cast', kind, a, ty) ('discr', a) ('repeat', a, n)
  ('update', prev, proj, value)      prev with the sub-place proj overwritten by value
  ('phi', (t1, t2, ...))             merge of several reaching definitions
  ('init', root)                     initial contents of memory behind a pointer parameter
  ('cycle',) ('unknown', why)
"""
import sys

sys.setrecursionlimit(20000)


def root_of(body, place):
    """(root, remaining projection). A root is a local index or ('deref', param_local)."""
    p = place["p"]
    l = place["l"]
    if p[:1] == ["deref"] and 1 <= l <= body.arg_count:
        return ("deref", l), p[1:]
    return l, p


class TermBuilder:
    def __init__(self, body):
        self.body = body
        self.memo = {}
        self.stack = set()
        self._prep()

    # reaching definitions over roots (locals and *param), every def kills and chains the previous value
    def _prep(self):
        body = self.body
        body.definitions()  # populates mutref_temp
        events = {}  # bb -> list of (idx, root, rec)
        def add(bb, idx, root, rec):
            events.setdefault(bb, []).append((idx, root, rec))
        mutref = getattr(body, "mutref_temp", {})
        # map: temp holding &mut  ->  (root, proj)
        self.mut_temps = {}
        for tmp, (place, bi, si) in mutref.items():
            root, proj = root_of(body, place)
            if isinstance(root, tuple) or place["p"][:1] != ["deref"]:
                self.mut_temps[tmp] = (root, proj)
        # propagate through moves / reborrows of the temp
        changed = True
        while changed:
            changed = False
            for bi, blk in enumerate(body.blocks):
                for si, st in enumerate(blk["stmts"]):
                    if st["k"] != "assign" or st["place"]["p"]:
                        continue
                    rv = st["rv"]
                    src = None
                    if rv["k"] == "use" and rv["op"].get("k") in ("copy", "move") and not rv["op"]["place"]["p"]:
                        src = rv["op"]["place"]["l"]
                        extra = []
                    elif rv["k"] == "ref" and rv["mut"] and rv["place"]["p"][:1] == ["deref"] and not (1 <= rv["place"]["l"] <= body.arg_count):
                        src = rv["place"]["l"]
                        extra = rv["place"]["p"][1:]
                    if src is not None and src in self.mut_temps and st["place"]["l"] not in self.mut_temps:
                        r, pj = self.mut_temps[src]
                        self.mut_temps[st["place"]["l"]] = (r, pj + extra)
                        changed = True
        for bi, blk in enumerate(body.blocks):
            for si, st in enumerate(blk["stmts"]):
                if st["k"] == "assign":
                    pl = st["place"]
                    if pl["p"][:1] == ["deref"] and pl["l"] in self.mut_temps and not (1 <= pl["l"] <= body.arg_count):
                        r, pj = self.mut_temps[pl["l"]]
                        add(bi, si, r, {"kind": "partial", "proj": pj + pl["p"][1:], "stmt": st})
                        continue
                    root, proj = root_of(body, pl)
                    if proj:
                        add(bi, si, root, {"kind": "partial", "proj": proj, "stmt": st})
                    else:
                        add(bi, si, root, {"kind": "assign", "stmt": st})
                elif st["k"] == "set_discr":
                    root, proj = root_of(body, st["place"])
                    add(bi, si, root, {"kind": "opaque", "why": "set_discr"})
            t = blk["term"]
            n = len(blk["stmts"])
            if t["k"] == "call":
                # &mut arguments first (they are read by the call), then the destination
                for ai, a in enumerate(t["args"]):
                    if a.get("k") in ("copy", "move") and not a["place"]["p"] and a["place"]["l"] in self.mut_temps:
                        r, pj = self.mut_temps[a["place"]["l"]]
                        add(bi, n, r, {"kind": "mutcall", "term": t, "argpos": ai, "proj": pj, "bb": bi})
                root, proj = root_of(body, t["dest"])
                if proj:
                    add(bi, n + 0.5, root, {"kind": "partial_call", "proj": proj, "term": t, "bb": bi})
                else:
                    add(bi, n + 0.5, root, {"kind": "call", "term": t, "bb": bi})
        for b in events:
            events[b].sort(key=lambda e: e[0])
        self.events = events
        # dataflow: state = {root: frozenset of event ids}; every event kills
        self.evrec = {}
        nb = len(body.blocks)
        IN = [dict() for _ in range(nb)]
        OUT = [None] * nb
        succ = body.succ()
        work = [0]
        inq = {0}
        while work:
            b = work.pop()
            inq.discard(b)
            st = dict(IN[b])
            for idx, root, rec in events.get(b, []):
                eid = (b, idx, id(rec))
                self.evrec[eid] = (root, rec, b, idx)
                st[root] = frozenset([eid])
            if OUT[b] == st:
                continue
            OUT[b] = st
            for s in succ[b]:
                merged = dict(IN[s])
                ch = False
                for r, v in st.items():
                    nv = merged.get(r, frozenset()) | v
                    if nv != merged.get(r):
                        merged[r] = nv
                        ch = True
                # roots defined on one path only: remember "entry" as a possible source
                if ch or OUT[s] is None:
                    IN[s] = merged
                    if s not in inq:
                        work.append(s)
                        inq.add(s)
        self.IN = IN
        # which roots may also carry their entry value at block b (not defined on every path)?
        # computed lazily by must-defined analysis
        self._must = None

    def _must_defined(self):
        if self._must is not None:
            return self._must
        body = self.body
        nb = len(body.blocks)
        allroots = set()
        for b, evs in self.events.items():
            for idx, root, rec in evs:
                allroots.add(root)
        TOP = frozenset(allroots)
        MIN = [TOP] * nb
        MIN[0] = frozenset()
        gen = {}
        for b in range(nb):
            gen[b] = frozenset(r for _, r, _ in self.events.get(b, []))
        changed = True
        reach = body.reachable()
        pred = body.pred()
        while changed:
            changed = False
            for b in sorted(reach):
                if b == 0:
                    continue
                ps = [p for p in pred[b] if p in reach]
                cur = TOP
                for p in ps:
                    cur = cur & (MIN[p] | gen[p])
                if cur != MIN[b]:
                    MIN[b] = cur
                    changed = True
        self._must = MIN
        return MIN

    # ------------------------------------------------------------------ values
    def root_value(self, root, bb, idx):
        """Value of a root just before program point (bb, idx)."""
        key = (root, bb, idx)
        if key in self.memo:
            return self.memo[key]
        if key in self.stack:
            return ("cycle",)
        self.stack.add(key)
        try:
            cur = None
            for i, r, rec in self.events.get(bb, []):
                if i >= idx:
                    break
                if r == root:
                    cur = (bb, i, id(rec))
            if cur is not None:
                val = self._event_value(cur)
            else:
                ids = self.IN[bb].get(root, frozenset())
                vals = [self._event_value(e) for e in sorted(ids, key=lambda e: (e[0], e[1]))]
                must = self._must_defined()[bb]
                if root not in must or not vals:
                    vals.append(self._entry_value(root))
                # dedupe
                uniq = []
                for v in vals:
                    if v not in uniq:
                        uniq.append(v)
                val = uniq[0] if len(uniq) == 1 else ("phi", tuple(uniq))
        finally:
            self.stack.discard(key)
        if not _has_cycle(val):
            self.memo[key] = val
        return val

    def _entry_value(self, root):
        if isinstance(root, tuple):
            return ("init", root)
        if 1 <= root <= self.body.arg_count:
            return ("param", root)
        return ("unknown", "uninit _%s" % root)

    def _event_value(self, eid):
        root, rec, bb, idx = self.evrec[eid]
        k = rec["kind"]
        if k == "assign":
            return self.rvalue(rec["stmt"]["rv"], bb, idx)
        if k == "partial":
            prev = self.root_value(root, bb, idx)
            val = self.rvalue(rec["stmt"]["rv"], bb, idx)
            return ("update", prev, self._projkey(rec["proj"], bb, idx), val)
        if k == "call":
            t = rec["term"]
            return self._call_term(t, bb)
        if k == "partial_call":
            prev = self.root_value(root, bb, idx)
            return ("update", prev, self._projkey(rec["proj"], bb, idx), self._call_term(rec["term"], bb))
        if k == "mutcall":
            t = rec["term"]
            n = len(self.body.blocks[bb]["stmts"])
            args = tuple(self.operand(a, bb, n) for a in t["args"])
            fn = t.get("fn")
            v = ("mutcall", _fnkey(fn, t), args, rec["argpos"], bb)
            if rec["proj"]:
                prev = self.root_value(root, bb, idx)
                return ("update", prev, self._projkey(rec["proj"], bb, idx), v)
            return v
        return ("unknown", rec.get("why", k))

    def _call_term(self, t, bb):
        n = len(self.body.blocks[bb]["stmts"])
        args = tuple(self.operand(a, bb, n) for a in t["args"])
        return ("call", _fnkey(t.get("fn"), t), args, bb)

    def _projkey(self, proj, bb, idx):
        out = []
        for e in proj:
            if e == "deref":
                out.append("deref")
            elif "f" in e:
                out.append(("f", e["f"]))
            elif "idx" in e:
                out.append(("idx", self.root_value(e["idx"], bb, idx)))
            elif "cidx" in e:
                out.append(("cidx", e["cidx"], e["from_end"]))
            elif "down" in e:
                out.append(("down", e["down"]))
            else:
                out.append(("other", str(e)))
        return tuple(out)

    def place_value(self, place, bb, idx):
        root, proj = root_of(self.body, place)
        t = self.root_value(root, bb, idx)
        return self._apply_proj(t, proj, bb, idx)

    def _apply_proj(self, t, proj, bb, idx):
        for e in proj:
            if e == "deref":
                t = deref(t)
            elif "f" in e:
                t = field(t, e["f"])
            elif "idx" in e:
                t = ("index", t, self.root_value(e["idx"], bb, idx))
            elif "cidx" in e:
                t = ("cindex", t, e["cidx"], e["from_end"])
            elif "down" in e:
                t = ("down", t, e["down"], e.get("name"))
            else:
                t = ("unknown", "proj %s" % e)
        return t

    def operand(self, op, bb, idx):
        k = op.get("k")
        if k in ("copy", "move"):
            return self.place_value(op["place"], bb, idx)
        if k == "const":
            return ("const", _constkey(op))
        return ("unknown", "operand")

    def rvalue(self, rv, bb, idx):
        k = rv["k"]
        if k == "use":
            return self.operand(rv["op"], bb, idx)
        if k == "ref":
            return ("ref", self.place_value(rv["place"], bb, idx), rv["mut"])
        if k == "rawptr":
            return ("ref", self.place_value(rv["place"], bb, idx), True)
        if k == "cast":
            return ("cast", rv["kind"], self.operand(rv["op"], bb, idx), rv["ty"])
        if k == "binop":
            return ("binop", rv["op"], self.operand(rv["a"], bb, idx), self.operand(rv["b"], bb, idx))
        if k == "unop":
            return ("unop", rv["op"], self.operand(rv["a"], bb, idx))
        if k == "discr":
            return ("discr", self.place_value(rv["place"], bb, idx))
        if k == "repeat":
            return ("repeat", self.operand(rv["op"], bb, idx), rv["n"])
        if k == "aggregate":
            ops = tuple(self.operand(o, bb, idx) for o in rv["ops"])
            if rv["agg"] == "adt":
                return ("agg", rv["adt"], rv["variant_name"], ops)
            if rv["agg"] == "closure":
                return ("agg", ("closure", rv["closure"]), None, ops)
            return ("agg", rv["agg"], None, ops)
        return ("unknown", "rvalue %s" % k)

    # convenience -------------------------------------------------------------
    def call_args(self, bb):
        t = self.body.blocks[bb]["term"]
        n = len(self.body.blocks[bb]["stmts"])
        return [self.operand(a, bb, n) for a in t["args"]]

    def return_value(self):
        """Term of _0 over all return blocks (phi if several)."""
        vals = []
        for rb in sorted(self.body.return_blocks()):
            v = self.root_value(0, rb, len(self.body.blocks[rb]["stmts"]))
            if v not in vals:
                vals.append(v)
        if not vals:
            return ("unknown", "no return")
        return vals[0] if len(vals) == 1 else ("phi", tuple(vals))

    def final_value(self, root):
        vals = []
        for rb in sorted(self.body.return_blocks()):
            v = self.root_value(root, rb, len(self.body.blocks[rb]["stmts"]))
            if v not in vals:
                vals.append(v)
        if not vals:
            return ("unknown", "no return")
        return vals[0] if len(vals) == 1 else ("phi", tuple(vals))


class FnKey(dict):
    """Hashable view of a callee record (keyed by resolved instance string)."""
    def __hash__(self):
        return hash(self.get("res_inst") or self.get("inst") or self.get("indirect"))

    def __eq__(self, other):
        return isinstance(other, dict) and (self.get("res_inst") or self.get("inst")) == (other.get("res_inst") or other.get("inst"))

    @property
    def d(self):
        return self.get("res_def") or self.get("def") or ""

    @property
    def i(self):
        return self.get("res_inst") or self.get("inst") or ""

    @property
    def name(self):
        return self.get("name") or ""

    def __repr__(self):
        return "Fn(%s)" % self.i


def _fnkey(fn, term):
    if fn is None:
        return FnKey({"indirect": term.get("fn_ty"), "name": "<indirect>"})
    return FnKey(fn)


class ConstKey(dict):
    def __hash__(self):
        return hash((self.get("ty"), str(self.get("int")), self.get("static"), self.get("text"), self.get("uneval_def"), self.get("promoted"),
                     (self.get("fn") or {}).get("inst")))

    def __eq__(self, other):
        return isinstance(other, dict) and dict.__eq__(self, other)


def _constkey(op):
    return ConstKey({k: v for k, v in op.items() if k != "k"})


def deref(t):
    if t[0] == "ref":
        return t[1]
    if t[0] == "phi":
        return _phi(tuple(deref(x) for x in t[1]))
    return ("deref", t)


def field(t, i):
    if t[0] == "agg" and t[1] in ("tuple",) and i < len(t[3]):
        return t[3][i]
    if t[0] == "agg" and isinstance(t[1], str) and t[1] not in ("array",) and i < len(t[3]):
        return t[3][i]
    if t[0] == "update":
        prev, proj, val = t[1], t[2], t[3]
        if proj and proj[0] == ("f", i):
            if len(proj) == 1:
                return val
            # deeper update below this field
            return ("update", field(prev, i), proj[1:], val)
        if proj and proj[0][0] == "f" and proj[0][1] != i:
            return field(prev, i)
    if t[0] == "phi":
        return _phi(tuple(field(x, i) for x in t[1]))
    return ("field", t, i)


def _phi(ts):
    uniq = []
    for x in ts:
        if x not in uniq:
            uniq.append(x)
    return uniq[0] if len(uniq) == 1 else ("phi", tuple(uniq))


def _has_cycle(t):
    st = [t]
    n = 0
    while st:
        x = st.pop()
        n += 1
        if n > 200000:
            return False
        if isinstance(x, tuple):
            if x and x[0] == "cycle":
                return True
            for y in x:
                if isinstance(y, tuple):
                    st.append(y)
    return False


# ---------------------------------------------------------------------- term walkers
def walk(t, seen=None):
    """Yield every sub-term (pre-order)."""
    st = [t]
    while st:
        x = st.pop()
        if not isinstance(x, tuple) or not x or not isinstance(x[0], str):
            continue
        yield x
        for y in x[1:]:
            if isinstance(y, tuple):
                if y and isinstance(y[0], str):
                    st.append(y)
                else:
                    for z in y:
                        if isinstance(z, tuple):
                            st.append(z)


def strip(t):
    """Peel references, derefs, copies and no-op casts: the value a pointer chain designates."""
    while True:
        if t[0] in ("ref", "deref"):
            t = t[1]
        elif t[0] == "cast" and ("Unsize" in t[1] or "PtrToPtr" in t[1] or "Transmute" in t[1] or "Pointer" in t[1]):
            t = t[2]
        else:
            return t


def alts(t):
    """Alternatives of a (possibly nested) phi."""
    if t[0] == "phi":
        out = []
        for x in t[1]:
            for y in alts(x):
                if y not in out:
                    out.append(y)
        return out
    return [t]


def show(t, depth=0, maxdepth=7):
    if not isinstance(t, tuple):
        return str(t)
    if depth > maxdepth:
        return "…"
    h = t[0]
    if h == "param":
        return "arg%d" % t[1]
    if h == "const":
        c = t[1]
        if "int" in c:
            return "%s" % c["int"]
        if "static" in c:
            return "static(%s)" % c["static"]
        if "fn" in c:
            return "fn(%s)" % (c["fn"].get("res_inst") or c["fn"].get("inst"))
        return "const(%s)" % (c.get("text") or c.get("ty"))
    if h == "call":
        return "%s(%s)" % (t[1].i, ", ".join(show(a, depth + 1, maxdepth) for a in t[2]))
    if h == "mutcall":
        return "after[%s@%d](%s)" % (t[1].i, t[3], ", ".join(show(a, depth + 1, maxdepth) for a in t[2]))
    if h == "ref":
        return "&" + show(t[1], depth, maxdepth)
    if h == "deref":
        return "*" + show(t[1], depth, maxdepth)
    if h == "field":
        return "%s.%d" % (show(t[1], depth, maxdepth), t[2])
    if h == "agg":
        return "%s::%s{%s}" % (t[1], t[2], ", ".join(show(a, depth + 1, maxdepth) for a in t[3]))
    if h == "phi":
        return "phi(%s)" % " | ".join(show(a, depth + 1, maxdepth) for a in t[1])
    if h == "update":
        return "%s with %s := %s" % (show(t[1], depth + 1, maxdepth), t[2], show(t[3], depth + 1, maxdepth))
    if h == "binop":
        return "(%s %s %s)" % (show(t[2], depth + 1, maxdepth), t[1], show(t[3], depth + 1, maxdepth))
    if h == "unop":
        return "%s(%s)" % (t[1], show(t[2], depth + 1, maxdepth))
    if h == "cast":
        return "(%s as %s)" % (show(t[2], depth + 1, maxdepth), t[3])
    if h == "init":
        return "*arg%d@entry" % t[1][1]
    return "%s" % (t,)


# ---------------------------------------------------------------------- inlining of helper calls at the term level
def subst(t, args):
    """Instantiate the return term of a callee with the argument terms of one call (params and the memory behind
    pointer params). Block numbers inside the result refer to the callee's body."""
    if not isinstance(t, tuple) or not t:
        return t
    h = t[0]
    if not isinstance(h, str):
        return tuple(subst(x, args) for x in t)
    if h == "param":
        return args[t[1] - 1] if 1 <= t[1] <= len(args) else ("unknown", "param")
    if h == "init" and isinstance(t[1], tuple) and t[1] and t[1][0] == "deref":
        return deref(args[t[1][1] - 1]) if 1 <= t[1][1] <= len(args) else ("unknown", "init")
    if h == "deref":
        return deref(subst(t[1], args))
    if h == "field":
        return field(subst(t[1], args), t[2])
    if h == "phi":
        return _phi(tuple(subst(x, args) for x in t[1]))
    if h == "const":
        return t
    out = [h]
    for x in t[1:]:
        if isinstance(x, tuple):
            out.append(subst(x, args))
        else:
            out.append(x)
    return tuple(out)


def expand_call(repo, t, allow):
    """`t` is a ('call', fn, args, bb) to a crate-local function accepted by `allow(body)` that hands out no `&mut`:
    the callee's return term with the arguments substituted; None when it is not such a call."""
    if t[0] != "call":
        return None
    cb = repo.F.bodies.get(t[1].d)
    if cb is None or not allow(cb):
        return None
    if any(str(ty).startswith("&mut") for ty in (cb.rec.get("inputs") or [])):
        return None
    if cb.rec.get("requires_mono") and False:
        return None
    rv = repo.tb(cb).return_value()
    if any(x[0] in ("cycle", "unknown") for x in walk(rv)):
        return None
    return subst(rv, list(t[2]))


def same_file(repo, body):
    f = (body.rec.get("span") or {}).get("file")
    return lambda cb: f is not None and (cb.rec.get("span") or {}).get("file") == f and cb.rec["path"] != body.rec["path"]
