"""Finite-domain evaluation of loop-free bodies (DESIGN §4.C).

A body is simulated over *abstract assignments*: every comparison of two opaque values gets an
ordering in {L,E,G}; every other boolean-valued call / parameter is an opaque boolean; bytes
may range over an explicit value set. No arithmetic of the analysed program is performed on
program values — only branch conditions built from these atoms are evaluated.
"""
import itertools
from .terms import TermBuilder, strip, show, walk

CMP_NAMES = {"sub_with_borrow": lambda o: o == "L", "lt": lambda o: o == "L", "le": lambda o: o in "LE", "gt": lambda o: o == "G",
             "ge": lambda o: o in "GE", "eq": lambda o: o == "E", "ne": lambda o: o != "E"}
CMP_TRAITS = ("core::cmp::PartialOrd", "core::cmp::PartialEq", "core::cmp::Ord")


class Unknown(Exception):
    pass


def is_cmp_call(t):
    if t[0] == "call" and t[1].name == "sub_with_borrow" and len(t[2]) == 2 and "ark_ff" in (t[1].d or ""):
        return True          # ark-ff BigInteger::sub_with_borrow(a, b) answers whether it borrowed, i.e. a < b (a: the value before the call)
    return t[0] == "call" and t[1].get("trait") in CMP_TRAITS and t[1].name in CMP_NAMES and len(t[2]) == 2


def atom_of(t):
    """Canonical atom for a boolean term, or None. ('ord', a, b) / ('bool', term) / ('cmpcall', a, b)."""
    if is_cmp_call(t):
        a, b = strip(t[2][0]), strip(t[2][1])
        return ("ord", a, b)
    if t[0] == "call" and t[1].get("trait") == "core::cmp::Ord" and t[1].name == "cmp":
        return ("ord", strip(t[2][0]), strip(t[2][1]))
    if t[0] == "call":
        return ("bool", ("call", t[1], tuple(strip(x) for x in t[2])))
    if t[0] in ("param", "field", "deref", "init", "index", "down", "mutcall"):
        return ("bool", t)
    return None


class Evaluator:
    def __init__(self, assign, intvals=None):
        self.assign = assign          # atom -> value
        self.intvals = intvals or {}  # term -> int (explicit small-domain integers, e.g. a prefix byte)

    def ev(self, t):
        if t in self.intvals:
            return self.intvals[t]
        h = t[0]
        if h == "const":
            c = t[1]
            if "int" in c:
                return int(c["int"])
            raise Unknown(show(t))
        if is_cmp_call(t):
            a = atom_of(t)
            if a in self.assign:
                return 1 if CMP_NAMES[t[1].name](self.assign[a]) else 0
            rev = ("ord", a[2], a[1])
            if rev in self.assign:
                o = {"L": "G", "G": "L", "E": "E"}[self.assign[rev]]
                return 1 if CMP_NAMES[t[1].name](o) else 0
            # comparing integers we know
            try:
                x, y = self.ev(strip(t[2][0])), self.ev(strip(t[2][1]))
                o = "L" if x < y else ("E" if x == y else "G")
                return 1 if CMP_NAMES[t[1].name](o) else 0
            except Unknown:
                raise Unknown(show(t, maxdepth=3))
        if h == "discr":
            # discriminant of `a.cmp(&b)`: core::cmp::Ordering is Less = -1 (255 as the i8 switch value), Equal = 0, Greater = 1
            inner = strip(t[1])
            if inner[0] == "call" and inner[1].name == "cmp" and inner[1].get("trait") in CMP_TRAITS and len(inner[2]) == 2:
                a = ("ord", strip(inner[2][0]), strip(inner[2][1]))
                o = self.assign.get(a)
                if o is None and ("ord", a[2], a[1]) in self.assign:
                    o = {"L": "G", "G": "L", "E": "E"}[self.assign[("ord", a[2], a[1])]]
                if o is not None:
                    return {"L": 255, "E": 0, "G": 1}[o]
            a = atom_of(t)
            if a is not None and a in self.assign:
                return self.assign[a]
            if ("discr", t[1]) in self.assign:
                return self.assign[("discr", t[1])]
            raise Unknown(show(t, maxdepth=3))
        if h == "binop":
            op = t[1]
            a, b = self.ev(t[2]), self.ev(t[3])
            if op == "Eq":
                return int(a == b)
            if op == "Ne":
                return int(a != b)
            if op == "Lt":
                return int(a < b)
            if op == "Le":
                return int(a <= b)
            if op == "Gt":
                return int(a > b)
            if op == "Ge":
                return int(a >= b)
            if op == "BitAnd":
                return a & b
            if op == "BitOr":
                return a | b
            if op == "BitXor":
                return a ^ b
            raise Unknown("binop %s" % op)
        if h == "unop":
            a = self.ev(t[2])
            if t[1] == "Not":
                return 1 - a if a in (0, 1) else (~a)
            raise Unknown("unop %s" % t[1])
        if h == "cast":
            return self.ev(t[2])
        if h in ("ref", "deref"):
            return self.ev(t[1])
        a = atom_of(t)
        if a is not None and a in self.assign:
            return self.assign[a]
        if h == "phi":
            vals = set()
            for x in t[1]:
                vals.add(self.ev(x))
            if len(vals) == 1:
                return vals.pop()
        raise Unknown(show(t, maxdepth=3))


def collect_atoms(body, tb=None, blocks=None):
    """Atoms occurring in switch discriminants of the (reachable) body."""
    tb = tb or TermBuilder(body)
    atoms = []
    for bi in sorted(body.reachable() if blocks is None else blocks):
        blk = body.blocks[bi]
        t = blk["term"]
        if t["k"] != "switch":
            continue
        d = tb.operand(t["discr"], bi, len(blk["stmts"]))
        for a in _atoms_in(d):
            if a not in atoms:
                atoms.append(a)
    return atoms


def _atoms_in(d):
    h = d[0]
    if h == "const":
        return []
    if is_cmp_call(d):
        return [atom_of(d)]
    if h in ("binop",):
        return _atoms_in(d[2]) + _atoms_in(d[3])
    if h in ("unop",):
        return _atoms_in(d[2])
    if h == "cast":
        return _atoms_in(d[2])
    if h == "phi":
        out = []
        for x in d[1]:
            out += _atoms_in(x)
        return out
    if h == "discr":
        inner = strip(d[1])
        if inner[0] == "call" and inner[1].name == "cmp" and inner[1].get("trait") in CMP_TRAITS and len(inner[2]) == 2:
            return [("ord", strip(inner[2][0]), strip(inner[2][1]))]
        return [("discr", d[1])]
    a = atom_of(d)
    return [a] if a is not None else []


class PathResult:
    def __init__(self):
        self.blocks = []
        self.calls = []        # (bb, FnKey)
        self.end = None        # 'return' | 'diverge' | 'loop' | 'unknown:<why>'
        self.end_bb = None

    def called(self, pred):
        return [c for c in self.calls if pred(c[1])]


def simulate(body, tb, ev, start=0, max_steps=400, discr_choice=None):
    """Follow the CFG from `start` under evaluator `ev`. discr_choice: {('discr', term): variant} for enum matches."""
    res = PathResult()
    bb = start
    seen = set()
    steps = 0
    while True:
        steps += 1
        if bb in seen or steps > max_steps:
            res.end = "loop"
            res.end_bb = bb
            return res
        seen.add(bb)
        res.blocks.append(bb)
        blk = body.blocks[bb]
        t = blk["term"]
        k = t["k"]
        if k == "return":
            res.end, res.end_bb = "return", bb
            return res
        if k == "goto":
            bb = t["target"]
        elif k == "call":
            fn = t.get("fn")
            from .terms import _fnkey
            res.calls.append((bb, _fnkey(fn, t)))
            if t["target"] is None:
                res.end, res.end_bb = "diverge", bb
                return res
            bb = t["target"]
        elif k in ("assert", "drop"):
            bb = t["target"]
        elif k == "switch":
            d = tb.operand(t["discr"], bb, len(blk["stmts"]))
            try:
                if d[0] == "discr" and discr_choice is not None and ("discr", d[1]) in discr_choice:
                    v = discr_choice[("discr", d[1])]
                else:
                    try:
                        v = ev.ev(d)
                    except Unknown:
                        # a flag local assigned on several branches (`let r = match c { A => true, B => x >= y }; if r {…}`): on
                        # this path it holds what the last assignment on the path gave it
                        pl = t["discr"].get("place") if isinstance(t["discr"], dict) else None
                        if d[0] != "phi" or not pl or pl.get("p"):
                            raise
                        v = ev.ev(strip(_path_flag_value(body, tb, res.blocks, pl["l"])))
            except Unknown as e:
                res.end, res.end_bb = "unknown:%s" % e, bb
                return res
            nxt = t["otherwise"]
            for val, tgt in t["arms"]:
                if int(val) == int(v):
                    nxt = tgt
                    break
            bb = nxt
        else:
            res.end, res.end_bb = "diverge" if k in ("unreachable", "resume", "terminate") else "unknown:%s" % k, bb
            return res


def _path_flag_value(body, tb, path_blocks, l, depth=0):
    """value of a whole local at the end of a block path, plain copies (`_8 = copy _4`) followed back along the same path"""
    for pos in range(len(path_blocks) - 1, -1, -1):
        blk = body.blocks[path_blocks[pos]]
        for st in reversed(blk["stmts"]):
            if st["k"] == "assign" and st["place"]["l"] == l and not st["place"]["p"]:
                rv = st["rv"]
                if rv["k"] == "use" and rv["op"].get("k") in ("copy", "move") and not rv["op"]["place"]["p"] and depth < 6:
                    # (the source is read where the copy stands: anything later on the path is not seen by it)
                    return _path_flag_value(body, tb, path_blocks[:pos + 1], rv["op"]["place"]["l"], depth + 1) \
                        if not any(s2["k"] == "assign" and s2["place"]["l"] == rv["op"]["place"]["l"] for s2 in blk["stmts"]) else path_value(body, tb, path_blocks[:pos + 1], l)
                return path_value(body, tb, path_blocks[:pos + 1], l)
        t = blk["term"]
        if t["k"] == "call" and t["dest"]["l"] == l and not t["dest"]["p"] and pos < len(path_blocks) - 1:
            return path_value(body, tb, path_blocks[:pos + 2], l)
    return path_value(body, tb, path_blocks, l)


def path_value(body, tb, path_blocks, root):
    """Value of `root` at the end of a concrete block path: the last event on the path that defines it."""
    for pos in range(len(path_blocks) - 1, -1, -1):
        bb = path_blocks[pos]
        evs = [e for e in tb.events.get(bb, []) if e[1] == root]
        if evs:
            idx, r, rec = evs[-1]
            val = tb._event_value((bb, idx, id(rec)))
            return _resolve_phis(body, tb, val, path_blocks[:pos + 1])
    return tb._entry_value(root)


def _resolve_phis(body, tb, val, prefix):
    # phis inside are left as they are: callers that need path precision query path_value per root
    return val


def enumerate_assignments(atoms, extra_domains=None):
    doms = []
    for a in atoms:
        if extra_domains and a in extra_domains:
            doms.append(extra_domains[a])
        elif a[0] == "ord":
            doms.append(["L", "E", "G"])
        else:
            doms.append([0, 1])
    for combo in itertools.product(*doms):
        yield dict(zip(atoms, combo))
