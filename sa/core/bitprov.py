"""Bit-level provenance of machine terms over opaque 64-bit limbs.

A value is a vector of 64 entries, each `0`, `1`, `("L", j, i, neg)` — bit i of the opaque limb j, possibly negated — or
`None` (unknown).  Bitwise operators, shifts by literals, literal masks and conversions act position-wise; nothing is ever
computed on a limb's value.  This is the byte-provenance idea of core/bytex.py at bit granularity: it answers "which input
bit does this output bit copy", which is all that set_bit / get_bit / is_even style helpers do.
"""
from .bytex import T, Tup, Adt

W = 64
OPCALLS = {"shr": "Shr", "shl": "Shl", "bitand": "BitAnd", "bitor": "BitOr", "bitxor": "BitXor"}


def const_bits(c):
    c %= (1 << W)
    return [(c >> i) & 1 for i in range(W)]


def _neg(p):
    if p is None:
        return None
    if p in (0, 1):
        return 1 - p
    return ("L", p[1], p[2], not p[3])


def _and(a, b):
    if a == 0 or b == 0:
        return 0
    if a == 1:
        return b
    if b == 1:
        return a
    if a is None or b is None:
        return None
    if a == b:
        return a
    if a == _neg(b):
        return 0
    return None


def _or(a, b):
    return _neg(_and(_neg(a), _neg(b)))


def _xor(a, b):
    if a is None or b is None:
        return None
    if a in (0, 1):
        return b if a == 0 else _neg(b)
    if b in (0, 1):
        return a if b == 0 else _neg(a)
    if a == b:
        return 0
    if a == _neg(b):
        return 1
    return None


def limb_index(t, limbs=None):
    """j when the term designates the whole opaque limb j"""
    if isinstance(t, T) and t[0] == "limb":
        return t[1]
    return None


def bits(t):
    """provenance vector of an integer-valued term, or None"""
    if isinstance(t, bool):
        return [int(t)] + [0] * (W - 1)
    if isinstance(t, int):
        return const_bits(t)
    if not isinstance(t, T):
        return None
    h = t[0]
    if h == "limb":
        return [("L", t[1], i, False) for i in range(W)]
    if h == "cast":
        x = bits(t[1])
        if x is None:
            p = boolprov(t[1])
            return None if p is None else [p] + [0] * (W - 1)
        wd = {"u8": 8, "u16": 16, "u32": 32}.get(t[2])
        return x if wd is None else x[:wd] + [0] * (W - wd)
    if h == "conv" and len(t) == 4:
        if t[1] == "bool":
            p = int(t[3]) if isinstance(t[3], bool) else boolprov(t[3])
            return None if p is None else [p] + [0] * (W - 1)
        return bits(t[3]) if t[1] in ("u8", "u16", "u32", "u64", "usize") else None
    if h == "not":
        x = bits(t[1])
        if x is not None:
            return [_neg(p) for p in x]
        p = boolprov(t[1])
        return None if p is None else [_neg(p)] + [0] * (W - 1)
    if h == "call" and isinstance(t[1], str) and len(t[3]) == 2 and t[1].split("::")[-1] in OPCALLS:
        # operator traits on references (`&limb >> k`) reach the machine as calls
        return bits(T("binop", OPCALLS[t[1].split("::")[-1]], t[3][0], t[3][1]))
    if h == "call" and isinstance(t[1], str) and len(t[3]) == 1 and t[1].split("::")[-1] == "not":
        return bits(T("not", t[3][0]))
    if h == "binop":
        o, a, b = t[1], t[2], t[3]
        if o in ("Shl", "Shr", "ShlUnchecked", "ShrUnchecked"):
            x = bits(a)
            if x is None or not isinstance(b, int) or isinstance(b, bool) or not (0 <= b < W):
                return None
            return ([0] * b + x[:W - b]) if o.startswith("Shl") else (x[b:] + [0] * b)
        if o in ("BitAnd", "BitOr", "BitXor"):
            x, y = bits(a), bits(b)
            if x is None or y is None:
                return None
            f = {"BitAnd": _and, "BitOr": _or, "BitXor": _xor}[o]
            return [f(p, q) for p, q in zip(x, y)]
        if o in ("Rem", "Div") and isinstance(b, int) and b > 0 and b & (b - 1) == 0:
            x = bits(a)
            if x is None:
                return None
            k = b.bit_length() - 1
            return (x[:k] + [0] * (W - k)) if o == "Rem" else (x[k:] + [0] * k)
        if o in ("Eq", "Ne", "Lt", "Le", "Gt", "Ge"):
            p = boolprov(t)
            return None if p is None else [p] + [0] * (W - 1)
    return None


def flat_limbs(v):
    """the limb terms of a (nested) structured integer value, or None"""
    if isinstance(v, Adt):
        out = []
        for f in v.fields:
            x = flat_limbs(f)
            if x is None:
                return None
            out += x
        return out
    if isinstance(v, Tup):
        out = []
        for f in v:
            x = flat_limbs(f)
            if x is None:
                return None
            out += x
        return out
    if isinstance(v, (int, T)) and not isinstance(v, bool):
        return [v]
    return None


def boolprov(t):
    """provenance of a boolean-valued term: 0 / 1 / ("L", j, i, neg) / None"""
    if isinstance(t, bool):
        return int(t)
    if not isinstance(t, T):
        return None
    h = t[0]
    if h == "not":
        return _neg(boolprov(t[1]))
    if h == "call":
        nm = t[1].split("::")[-1] if isinstance(t[1], str) else ""
        args = t[3]
        if nm == "get_bit" and len(args) == 2 and isinstance(args[1], int):
            ls = flat_limbs(args[0])
            n = args[1]
            if ls and 0 <= n < W * len(ls):
                x = bits(ls[n // W])
                return x[n % W] if x is not None else None
            if ls and n >= W * len(ls):
                return 0            # ark-ff BigInt::get_bit answers false beyond the width
        if nm in ("is_odd", "is_even") and len(args) == 1:
            ls = flat_limbs(args[0])
            x = bits(ls[0]) if ls else None
            if x is not None:
                return x[0] if nm == "is_odd" else _neg(x[0])
        return None
    if h == "binop" and t[1] in ("Eq", "Ne"):
        a, b = t[2], t[3]
        x, y = bits(a), bits(b)
        if x is None or y is None:
            pa, pb = boolprov(a), boolprov(b)
            if pa is None or pb is None:
                return None
            r = _neg(_xor(pa, pb))
            return r if t[1] == "Eq" else _neg(r)
        # equal iff every position agrees: decidable here when at most one position is not a constant agreement
        open_pos = []
        for i, (p, q) in enumerate(zip(x, y)):
            d = _xor(p, q)
            if d == 0:
                continue
            if d == 1:
                return 0 if t[1] == "Eq" else 1
            open_pos.append(d)
        if not open_pos:
            return 1 if t[1] == "Eq" else 0
        if len(open_pos) == 1 and open_pos[0] is not None:
            r = _neg(open_pos[0])
            return r if t[1] == "Eq" else _neg(r)
        return None
    if h == "cast":
        return boolprov(t[1])
    return None
