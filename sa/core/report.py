"""Rule / obligation bookkeeping and the evidence + VIOLATION / KNOWN-FINDING output contract."""
import json
import os
import time

VERIF = os.path.dirname(os.path.dirname(os.path.dirname(os.path.abspath(__file__))))


class Rule:
    def __init__(self, rid, desc, floor=0, exhaustive=False):
        self.rid = rid
        self.desc = desc
        self.floor = floor          # minimum number of instances counted by hand on the pinned tree
        self.instances = 0
        self.obligations = 0
        self.discharged = 0
        self.violations = []        # dicts: key, msg, loc, fn, detail
        self.samples = []
        self.assumed = []           # reasoned table entries used
        self.notes = []
        self.exhaustive = exhaustive

    def instance(self, n=1):
        self.instances += n

    def ok(self, what=None, sample=None):
        self.obligations += 1
        self.discharged += 1
        if sample is not None and len(self.samples) < 12:
            self.samples.append(sample)

    def violation(self, key, msg, loc=None, fn=None, detail=None):
        self.obligations += 1
        self.violations.append({"key": key, "rule": self.rid, "msg": msg, "loc": loc, "fn": fn, "detail": detail})

    def check(self, cond, key, msg, loc=None, fn=None, detail=None, sample=None):
        if cond:
            self.ok(sample=sample)
        else:
            self.violation(key, msg, loc, fn, detail)
        return cond

    def assume(self, site, reason):
        self.assumed.append({"site": site, "reason": reason})

    def note(self, s):
        self.notes.append(s)

    def fail_closed(self, key, msg, loc=None):
        """An anchor / idiom / count the rule depends on is missing: reported as a violation of the rule's premise."""
        self.violation(key, "fail-closed: " + msg, loc)

    def finish(self):
        if self.instances < self.floor:
            self.violation("%s:floor" % self.rid,
                           "fail-closed: rule matched %d instance(s), below the floor %d counted on the pinned tree "
                           "(an anchor moved or an idiom is no longer recognised)" % (self.instances, self.floor))
        return self

    def to_json(self):
        return {
            "rule": self.rid, "description": self.desc, "instances": self.instances, "floor": self.floor,
            "obligations": self.obligations, "discharged": self.discharged,
            "violations": self.violations, "samples": self.samples, "assumed_sites": self.assumed,
            "notes": self.notes, "exhaustive": self.exhaustive,
        }


def load_known():
    p = os.path.join(VERIF, "known_findings.json")
    if not os.path.exists(p):
        return {"known": [], "fixed": []}
    with open(p) as f:
        return json.load(f)


PRE_EMIT = None     # thorough tier: callable(prop) -> extra rules (controls, witnesses, dependency frontier)


def emit(prop, tier, seed, rules, started, explanation, assumptions, not_decided, extra=None, configs=("dev", "rel")):
    """Write evidence, print the contract lines, return the exit code."""
    control_run = bool(os.environ.get("SM9_CONTROL_RUN"))
    if PRE_EMIT is not None and not control_run and not any(r.violations for r in rules):
        rules = list(rules) + list(PRE_EMIT(prop))
    known = load_known()
    known_keys = {(k["property"], k["key"]): k for k in known.get("known", [])}
    all_viol = []
    for r in rules:
        for v in r.violations:
            all_viol.append(v)
    new_viol = []
    known_hit = []
    seen = set()
    for v in all_viol:
        k = (prop, v["key"])
        if k in seen:
            continue
        seen.add(k)
        if k in known_keys:
            known_hit.append((v, known_keys[k]))
        else:
            new_viol.append(v)
    obligations = sum(r.obligations for r in rules)
    discharged = sum(r.discharged for r in rules)
    samples = []
    for r in rules:
        for smp in r.samples[:4]:
            samples.append({"rule": r.rid, "case": smp})
    if not samples:
        samples.append({"rule": "none", "case": "no instances"})
    coverage = {
        "explanation": explanation,
        "obligations": obligations,
        "discharged": discharged,
        "checker_cmd": "./check %s --tier %s" % (prop, tier),
        "trusted_base": assumptions,
        "rule_instances": {r.rid: {"instances": r.instances, "floor": r.floor, "obligations": r.obligations,
                                   "discharged": r.discharged} for r in rules},
        "rules": [r.to_json() for r in rules],
        "samples": samples,
        "configs_analysed": list(configs),
        "not_decided": not_decided,
        "exhaustive": all(r.exhaustive for r in rules) if rules else False,
    }
    if extra:
        coverage.update(extra)
    ev = {
        "property_id": prop,
        "tier": tier,
        "seed": seed,
        "level": "other",
        "coverage": coverage,
        "assumptions": assumptions,
        "wall_s": round(time.time() - started, 3),
        "violations": len(new_viol),
        "known_findings_reported": len(known_hit),
    }
    evdir = os.path.join(VERIF, "evidence")
    if not control_run:
        os.makedirs(evdir, exist_ok=True)
        tmp = os.path.join(evdir, "%s.json.tmp%d" % (prop, os.getpid()))
        with open(tmp, "w") as f:
            json.dump(ev, f, indent=1, default=str)
        os.replace(tmp, os.path.join(evdir, "%s.json" % prop))

    for r in rules:
        print("  rule %-18s instances=%-4d floor=%-3d obligations=%-4d discharged=%-4d violations=%d" %
              (r.rid, r.instances, r.floor, r.obligations, r.discharged, len(r.violations)))
    for v, k in known_hit:
        print("KNOWN-FINDING: property=%s %s [%s]" % (prop, k.get("what", v["msg"]), v["key"]))
    code = 0
    if new_viol:
        rdir = os.path.join(evdir, "replay") if not control_run else os.path.join(os.environ.get("TMPDIR", "/tmp"), "sm9ctl-replay")
        os.makedirs(rdir, exist_ok=True)
        for v in new_viol:
            safe = "".join(c if c.isalnum() or c in "-_." else "_" for c in v["key"])[:150]
            rp = os.path.join(rdir, "%s-%s.json" % (prop, safe))
            with open(rp, "w") as f:
                json.dump({"property": prop, "violation": v, "tier": tier,
                           "explain_cmd": "./check %s --explain %s" % (prop, rp)}, f, indent=1, default=str)
            print("  %s: %s%s%s" % (v["key"], v["msg"], (" at %s" % v["loc"]) if v.get("loc") else "",
                                     (" in %s" % v["fn"]) if v.get("fn") else ""))
            print("VIOLATION property=%s replay=%s" % (prop, rp))
        code = 1
    else:
        print("PASS property=%s tier=%s obligations=%d discharged=%d known_findings=%d wall=%.1fs" %
              (prop, tier, obligations, discharged, len(known_hit), time.time() - started))
    return code
