"""Loader for the JSON facts written by sa/driver, plus per-body CFG utilities.

Nothing here interprets /repo's code on values: these are graph queries (CFG, dominators,
reaching definitions) and structural term reconstruction (provenance) over the MIR dump.
"""
import json
from collections import defaultdict


class FactsError(Exception):
    """Fail-closed condition: an anchor, idiom or count the analysis relies on is missing."""


def callee_def(fn):
    """Resolved definition path of a call's callee (falls back to the declared one)."""
    return fn.get("res_def") or fn.get("def")


def callee_inst(fn):
    return fn.get("res_inst") or fn.get("inst")


class Site:
    """A program point (statement or terminator) in a body."""
    __slots__ = ("body", "bb", "idx")

    def __init__(self, body, bb, idx):
        self.body, self.bb, self.idx = body, bb, idx

    def span(self):
        blk = self.body.blocks[self.bb]
        if self.idx < len(blk["stmts"]):
            return blk["stmts"][self.idx]["span"]
        return blk["term"]["span"]

    def loc(self):
        sp = self.span()
        return "%s:%s" % (sp.get("file"), sp.get("line"))

    def __repr__(self):
        return "<%s bb%d[%d] %s>" % (self.body.path, self.bb, self.idx, self.loc())


class Body:
    def __init__(self, rec, facts, mir=None, tag=None):
        self.rec = rec
        self.facts = facts
        self.path = rec["path"] if tag is None else "%s#%s" % (rec["path"], tag)
        self.mir = mir if mir is not None else rec["mir"]
        self.blocks = self.mir["blocks"]
        self.locals = self.mir["locals"]
        self.arg_count = self.mir["arg_count"]
        self.name = rec.get("name")
        self.impl_self = rec.get("impl_self")
        self.impl_trait = rec.get("impl_trait")
        self.vis = rec.get("vis")
        self._succ = None
        self._pred = None
        self._dom = None
        self._rd = None
        self._defs = None
        self._reach = None

    # ------------------------------------------------------------------ basics
    def file_line(self):
        sp = self.rec["span"]
        return "%s:%s" % (sp.get("file"), sp.get("line"))

    def debug_names(self):
        out = {}
        for d in self.mir["debug"]:
            if not d["place"]["p"]:
                out.setdefault(d["name"], []).append(d["place"]["l"])
        return out

    def local_name(self, l):
        for d in self.mir["debug"]:
            if d["place"]["l"] == l and not d["place"]["p"]:
                return d["name"]
        return "_%d" % l

    def term(self, bb):
        return self.blocks[bb]["term"]

    def succ(self):
        if self._succ is None:
            s = []
            for blk in self.blocks:
                t = blk["term"]
                k = t["k"]
                if k == "goto":
                    s.append([t["target"]])
                elif k == "switch":
                    tg = [a[1] for a in t["arms"]] + [t["otherwise"]]
                    s.append(list(dict.fromkeys(tg)))
                elif k in ("call",):
                    s.append([t["target"]] if t["target"] is not None else [])
                elif k in ("assert", "drop"):
                    s.append([t["target"]])
                else:
                    s.append([])
            self._succ = s
        return self._succ

    def pred(self):
        if self._pred is None:
            p = [[] for _ in self.blocks]
            for i, ss in enumerate(self.succ()):
                for j in ss:
                    p[j].append(i)
            self._pred = p
        return self._pred

    def reachable(self):
        if self._reach is None:
            seen = {0}
            st = [0]
            while st:
                b = st.pop()
                for s in self.succ()[b]:
                    if s not in seen:
                        seen.add(s)
                        st.append(s)
            self._reach = seen
        return self._reach

    def dominators(self):
        """dom[b] = set of blocks dominating b (reachable blocks only)."""
        if self._dom is None:
            reach = sorted(self.reachable())
            allb = set(reach)
            dom = {b: set(allb) for b in reach}
            dom[0] = {0}
            changed = True
            pred = self.pred()
            while changed:
                changed = False
                for b in reach:
                    if b == 0:
                        continue
                    ps = [p for p in pred[b] if p in allb]
                    new = set(allb)
                    for p in ps:
                        new &= dom[p]
                    new.add(b)
                    if new != dom[b]:
                        dom[b] = new
                        changed = True
            self._dom = dom
        return self._dom

    def dominates(self, a, b):
        d = self.dominators()
        return b in d and a in d[b]

    def reach_from(self, start, avoid=()):
        """Blocks reachable from `start` (inclusive) without passing through `avoid`."""
        avoid = set(avoid)
        seen = set()
        st = [start]
        while st:
            b = st.pop()
            if b in seen or b in avoid:
                continue
            seen.add(b)
            st.extend(self.succ()[b])
        return seen

    def return_blocks(self):
        return [i for i in self.reachable() if self.blocks[i]["term"]["k"] == "return"]

    def calls(self):
        """Yield (bb, term) for every reachable call terminator."""
        for i in sorted(self.reachable()):
            t = self.blocks[i]["term"]
            if t["k"] == "call":
                yield i, t

    def call_sites(self, pred):
        return [(bb, t) for bb, t in self.calls() if "fn" in t and pred(t["fn"])]

    # ------------------------------------------------------------------ definitions
    def definitions(self):
        """local -> list of definition records.

        kinds: 'param', 'assign' (full), 'partial' (projection write), 'call' (call destination),
        'mutcall' (a `&mut local[.proj]` handed to a call), 'mutref' (a `&mut` whose use we cannot
        attribute to one call: the local escapes).
        """
        if self._defs is not None:
            return self._defs
        defs = defaultdict(list)
        for l in range(1, self.arg_count + 1):
            defs[l].append({"kind": "param", "bb": -1, "idx": -1, "param": l})
        # first pass: direct writes, and &mut temporaries
        mutref_temp = {}  # temp local -> (base local, proj, site)
        for bi, blk in enumerate(self.blocks):
            for si, st in enumerate(blk["stmts"]):
                if st["k"] != "assign":
                    if st["k"] == "set_discr":
                        defs[st["place"]["l"]].append({"kind": "partial", "bb": bi, "idx": si, "stmt": st})
                    continue
                pl = st["place"]
                rv = st["rv"]
                if pl["p"]:
                    if pl["p"][0] == "deref":
                        # write through a pointer held in pl.l — attributed below if pl.l is a known &mut temp
                        defs[("deref", pl["l"])].append({"kind": "partial", "bb": bi, "idx": si, "stmt": st})
                    else:
                        defs[pl["l"]].append({"kind": "partial", "bb": bi, "idx": si, "stmt": st})
                else:
                    defs[pl["l"]].append({"kind": "assign", "bb": bi, "idx": si, "stmt": st})
                if rv["k"] == "ref" and rv["mut"] and not pl["p"]:
                    mutref_temp[pl["l"]] = (rv["place"], bi, si)
            t = blk["term"]
            if t["k"] == "call":
                d = t["dest"]
                if d["p"]:
                    defs[d["l"]].append({"kind": "partial", "bb": bi, "idx": len(blk["stmts"]), "term": t})
                else:
                    defs[d["l"]].append({"kind": "call", "bb": bi, "idx": len(blk["stmts"]), "term": t})
        # second pass: where do &mut temporaries go?
        uses = defaultdict(list)
        for bi, blk in enumerate(self.blocks):
            for si, st in enumerate(blk["stmts"]):
                if st["k"] == "assign":
                    for op in rvalue_operands(st["rv"]):
                        if op.get("k") in ("copy", "move") and not op["place"]["p"]:
                            uses[op["place"]["l"]].append(("stmt", bi, si, st))
                    if st["rv"]["k"] == "ref" and st["rv"]["place"]["p"][:1] == ["deref"]:
                        uses[st["rv"]["place"]["l"]].append(("reborrow", bi, si, st))
                    pl = st["place"]
                    if pl["p"][:1] == ["deref"]:
                        uses[pl["l"]].append(("write_through", bi, si, st))
            t = blk["term"]
            if t["k"] == "call":
                for ai, a in enumerate(t["args"]):
                    if a.get("k") in ("copy", "move") and not a["place"]["p"]:
                        uses[a["place"]["l"]].append(("arg", bi, ai, t))
        self.mutref_temp = mutref_temp
        for tmp, (place, bi, si) in mutref_temp.items():
            base = place["l"]
            if place["p"][:1] == ["deref"]:
                # reborrow of a pointer: the pointee is not a local of this body
                continue
            seen_tmp = set()
            work = [tmp]
            while work:
                cur = work.pop()
                if cur in seen_tmp:
                    continue
                seen_tmp.add(cur)
                for u in uses.get(cur, []):
                    if u[0] == "arg":
                        blk = self.blocks[u[1]]
                        defs[base].append({"kind": "mutcall", "bb": u[1], "idx": len(blk["stmts"]), "term": u[3],
                                           "argpos": u[2], "proj": place["p"]})
                    elif u[0] == "reborrow":
                        # `_t2 = &mut *_t1` (two-phase / reborrow): follow the new temp
                        st = u[3]
                        if not st["place"]["p"]:
                            work.append(st["place"]["l"])
                    elif u[0] == "write_through":
                        defs[base].append({"kind": "partial", "bb": u[1], "idx": u[2], "stmt": u[3], "via": "deref"})
                    elif u[0] == "stmt":
                        st = u[3]
                        rv = st["rv"]
                        if rv["k"] in ("use", "cast") and not st["place"]["p"]:
                            work.append(st["place"]["l"])  # moved into another temp
                        else:
                            defs[base].append({"kind": "mutref", "bb": u[1], "idx": u[2], "stmt": st})
        self._defs = defs
        return defs

    def reaching(self):
        """Reaching definitions: IN[bb] = {local: frozenset(def ids)}; def id = (bb, idx, kind)."""
        if self._rd is not None:
            return self._rd
        defs = self.definitions()
        # per block: ordered list of (idx, local, defid, full?)
        per_block = defaultdict(list)
        for l, ds in defs.items():
            if isinstance(l, tuple):
                continue
            for d in ds:
                if d["kind"] == "param":
                    continue
                full = d["kind"] in ("assign", "call")
                per_block[d["bb"]].append((d["idx"], l, id(d), full, d))
        for b in per_block:
            per_block[b].sort(key=lambda x: x[0])
        self._defrec = {}
        for l, ds in defs.items():
            for d in ds:
                self._defrec[id(d)] = d
        nb = len(self.blocks)
        IN = [dict() for _ in range(nb)]
        OUT = [None] * nb
        entry = {}
        for l in range(1, self.arg_count + 1):
            entry[l] = frozenset([id(defs[l][0])])
        IN[0] = entry

        def transfer(b, state):
            st = dict(state)
            for idx, l, did, full, d in per_block.get(b, []):
                if full:
                    st[l] = frozenset([did])
                else:
                    st[l] = st.get(l, frozenset()) | frozenset([did])
            return st

        work = [0]
        inq = {0}
        succ = self.succ()
        while work:
            b = work.pop()
            inq.discard(b)
            out = transfer(b, IN[b])
            if OUT[b] == out:
                continue
            OUT[b] = out
            for s in succ[b]:
                merged = dict(IN[s])
                ch = False
                for l, v in out.items():
                    nv = merged.get(l, frozenset()) | v
                    if nv != merged.get(l):
                        merged[l] = nv
                        ch = True
                if ch or OUT[s] is None:
                    IN[s] = merged
                    if s not in inq:
                        work.append(s)
                        inq.add(s)
        self._rd = (IN, per_block)
        return self._rd

    def defs_reaching(self, local, bb, idx):
        """Definition records of `local` that reach the point just before (bb, idx)."""
        IN, per_block = self.reaching()
        cur = IN[bb].get(local, frozenset())
        for i, l, did, full, d in per_block.get(bb, []):
            if i >= idx:
                break
            if l == local:
                cur = frozenset([did]) if full else (cur | frozenset([did]))
        return [self._defrec[x] for x in cur]


def rvalue_operands(rv):
    k = rv["k"]
    if k in ("use", "repeat", "cast"):
        return [rv["op"]]
    if k == "binop":
        return [rv["a"], rv["b"]]
    if k == "unop":
        return [rv["a"]]
    if k == "aggregate":
        return rv["ops"]
    return []


BASELINE = None


def baseline_paths():
    """Definition paths of the pinned tree (sa/baseline_defs.json): the names the rules are written against."""
    global BASELINE
    if BASELINE is None:
        import os
        p = os.path.join(os.path.dirname(os.path.dirname(os.path.abspath(__file__))), "baseline_defs.json")
        try:
            with open(p) as f:
                d = json.load(f)
            BASELINE = set(d["paths"]) if isinstance(d, dict) else set(d)
            baseline_paths.adts = d.get("adts", {}) if isinstance(d, dict) else {}
            baseline_paths.mods = d.get("mods", {}) if isinstance(d, dict) else {}
            baseline_paths.sigs = d.get("sigs", {}) if isinstance(d, dict) else {}
            baseline_paths.bodies = d.get("bodies", {}) if isinstance(d, dict) else {}
        except OSError:
            BASELINE = set()
            baseline_paths.adts, baseline_paths.mods, baseline_paths.sigs, baseline_paths.bodies = {}, {}, {}, {}
    return BASELINE


def adt_key(a):
    """shape of an ADT that survives renaming the type: per variant the field count and the field types with every crate path
    reduced to its last segment"""
    import re
    def t(x):
        return re.sub(r"crate::(?:[A-Za-z0-9_]+::)*", "", x or "")
    return [[t(f.get("ty")) for f in v.get("fields", [])] for v in a.get("variants", [])]


def body_shape(b):
    """A fingerprint of a MIR body that does not mention any crate-local name: block count, statement / terminator kinds,
    projections, literal integers, arity of calls and whether each callee is crate-local."""
    import hashlib
    h = hashlib.sha256()
    mir = b.get("mir") or {}
    h.update(("%d|%d|" % (mir.get("arg_count", 0), len(mir.get("blocks", [])))).encode())
    for blk in mir.get("blocks", []):
        for st in blk.get("stmts", []):
            rv = st.get("rv") or {}
            h.update(("s:%s:%s:%s;" % (st.get("k"), rv.get("k"), rv.get("op") if isinstance(rv.get("op"), str) else "")).encode())
            for o in (rv.get("ops") or []) + [x for x in (rv.get("a"), rv.get("b"), rv.get("op")) if isinstance(x, dict)]:
                if o.get("k") == "const" and "int" in o:
                    h.update(("c%s;" % o["int"]).encode())
            h.update(("p%d;" % len((st.get("place") or {}).get("p", []))).encode())
        t = blk.get("term") or {}
        h.update(("t:%s:" % t.get("k")).encode())
        if t.get("k") == "call":
            fn = t.get("fn") or {}
            d = fn.get("res_def") or fn.get("def") or ""
            h.update(("%d:%s;" % (len(t.get("args", [])), "L" if d.startswith("crate::") or d.startswith("<crate::") else d)).encode())
        elif t.get("k") == "switch":
            h.update((",".join(str(a[0]) for a in t.get("arms", [])) + ";").encode())
    return h.hexdigest()[:16]


def container_of(path):
    """`<T as Tr>::f` → `<T as Tr>` ; `a::b::f` → `a::b`"""
    return path.rsplit("::", 1)[0] if "::" in path else ""


def body_key(b):
    import re
    def t(x):
        return re.sub(r"crate::(?:[A-Za-z0-9_]+::)*", "", x or "")
    return [[t(x) for x in (b.get("inputs") or [])], t(b.get("output")), body_shape(b)]


def baseline_record(raw):
    mods = {}
    paths = sorted(def_paths(raw))
    modset = {m["path"] for m in raw.get("mods", [])}
    for m in modset:
        kids = set()
        for p in paths:
            if p.startswith(m + "::") and "::" not in p[len(m) + 2:] and not p[len(m) + 2:].startswith("<"):
                kids.add(p[len(m) + 2:])
        mods[m] = sorted(kids)
    sigs = {b["path"]: [len(b.get("inputs") or []), b.get("output")] for b in raw.get("bodies", []) if b.get("impl_trait")}
    bodies = {b["path"]: body_key(b) for b in raw.get("bodies", []) if b.get("kind") in ("Fn", "AssocFn") and b.get("inputs") is not None}
    return {"paths": paths, "sigs": sigs, "bodies": bodies, "adts": {a["path"]: {"key": adt_key(a), "fields": [[f["name"] for f in v.get("fields", [])] for v in a.get("variants", [])],
                                                 "variants": [v.get("name") for v in a.get("variants", [])]} for a in raw.get("adts", [])}, "mods": mods}


def def_paths(raw):
    out = set()
    for k in ("adts", "consts", "statics", "mods"):
        for x in raw.get(k, []):
            out.add(x["path"])
    for b in raw.get("bodies", []):
        out.add(b["path"])
    for i in raw.get("impls", []):
        if i.get("trait"):
            out.add(i["trait"])
    return out


def canonical_rewrites(raw):
    """Items that were moved to another module (and re-exported / re-imported under their old name) or whose inherent impl
    block now lives in another module keep the path the rules know them by: [(current path, baseline path)]."""
    import re
    base = baseline_paths()
    if not base:
        return []
    cur = def_paths(raw)
    rw = {}
    # (0) a private module that was renamed: same children under another name
    bmods = getattr(baseline_paths, "mods", {})
    cmods = {}
    for m in {m["path"] for m in raw.get("mods", [])}:
        cmods[m] = {p[len(m) + 2:] for p in cur if p.startswith(m + "::") and "::" not in p[len(m) + 2:] and not p[len(m) + 2:].startswith("<")}
    for m2, kids2 in cmods.items():
        if m2 in bmods or not kids2:
            continue
        best = None
        for m1, kids1 in bmods.items():
            if m1 in cmods or not kids1:
                continue
            k1 = set(kids1)
            j = len(k1 & kids2) / float(len(k1 | kids2))
            if j >= 0.8 and m1.rsplit("::", 1)[0] == m2.rsplit("::", 1)[0] and (best is None or j > best[0]):
                best = (j, m1)
        if best:
            rw[m2] = best[1]
    # (0b) a private type that was renamed: same module (after the rewrites so far), same shape, old name gone
    badts = getattr(baseline_paths, "adts", {})
    cadts = {a["path"]: a for a in raw.get("adts", [])}

    def canon(p):
        for o, n in sorted(rw.items(), key=lambda kv: -len(kv[0])):
            if p == o or p.startswith(o + "::"):
                return n + p[len(o):]
        return p
    present = {canon(p) for p in cadts}
    for p2, a2 in cadts.items():
        c2 = canon(p2)
        if c2 in badts:
            continue
        cands = [p1 for p1, rec in badts.items() if p1 not in present and p1.rsplit("::", 1)[0] == c2.rsplit("::", 1)[0] and rec["key"] == adt_key(a2) and rec["key"]]
        if len(cands) == 1:
            rw[p2] = cands[0]
    # (0c) a crate-private trait that was renamed (and possibly some of its methods): same module, mostly the same methods
    rxm = re.compile(r"^<(.+) as ((?:crate::)[A-Za-z0-9_:]+)(?:<.*>)?>::([A-Za-z0-9_]+)$")

    def trait_methods(paths):
        out = {}
        for p0 in paths:
            m0 = rxm.match(p0)
            if m0:
                out.setdefault(m0.group(2), {}).setdefault(m0.group(3), []).append(p0)
        return out
    btm = trait_methods(base)
    ctm = {}
    for tpath, meths in trait_methods(cur).items():
        ctm[canon(tpath)] = (tpath, meths)
    for ct, (tcur, meths) in ctm.items():
        if ct in btm:
            continue
        best = None
        for bt, bm in btm.items():
            if bt in ctm or bt.rsplit("::", 1)[0] != ct.rsplit("::", 1)[0]:
                continue
            j = len(set(bm) & set(meths)) / float(len(set(bm) | set(meths)))
            if j >= 0.5 and (best is None or j > best[0]):
                best = (j, bt)
        if not best:
            continue
        bt = best[1]
        rw[tcur] = bt
        # methods of that trait that changed their name: pair the leftovers by arity / result type
        left_c = [m0 for m0 in meths if m0 not in btm[bt]]
        left_b = [m0 for m0 in btm[bt] if m0 not in meths]
        bsig = getattr(baseline_paths, "sigs", {})
        csig = {b["path"]: [len(b.get("inputs") or []), b.get("output")] for b in raw.get("bodies", []) if b.get("impl_trait")}
        for mc in left_c:
            sc = {tuple(csig.get(p0, [None, None])[:1]) for p0 in meths[mc]}
            cands = [mb for mb in left_b if {tuple(bsig.get(p0, [None, None])[:1]) for p0 in btm[bt][mb]} == sc]
            if len(cands) == 1:
                rw["%s>::%s" % (tcur, mc)] = "%s>::%s" % (bt, cands[0])
                rw["%s::%s" % (tcur, mc)] = "%s::%s" % (bt, cands[0])
                left_b.remove(cands[0])
    for r in raw.get("reexports", []):
        a, t = r["alias"], r["target"]
        if t not in base and a in base and t in cur and a not in cur:
            rw[t] = a
    # second pass: after renaming types, methods of inherent impls placed in another module
    rx = re.compile(r"^crate::(?:[a-z_][a-z0-9_]*::)*<impl ([A-Za-z0-9_:<>, ]+)>::([A-Za-z0-9_]+)$")
    for b in raw.get("bodies", []):
        p = b["path"]
        if p in base:
            continue
        m = rx.match(p)
        if m:
            ty = m.group(1)
            for t, a in rw.items():
                ty = re.sub(re.escape(t) + r"(?![A-Za-z0-9_])", a, ty)
            q = "%s::%s" % (ty, m.group(2))
            if q in base and q not in cur:
                rw[p] = q
    # third pass: trait impls that moved with their type: `crate::m::<impl Tr for Ty>::f` is printed `<Ty as Tr>::f` or
    # `crate::<impl Tr for Ty>::f` depending on where the impl sits
    rx2 = re.compile(r"^crate::((?:[a-z_][a-z0-9_]*::)*)<impl (.+) for (.+)>::([A-Za-z0-9_]+)$")
    for b in raw.get("bodies", []):
        p = b["path"]
        if p in base or p in rw:
            continue
        m = rx2.match(p)
        if not m:
            continue
        mods, tr, ty, nm = m.groups()
        for t, a in rw.items():
            tr = re.sub(re.escape(t) + r"(?![A-Za-z0-9_])", a, tr)
            ty = re.sub(re.escape(t) + r"(?![A-Za-z0-9_])", a, ty)
        segs = [x for x in mods.split("::") if x]
        cands = ["<%s as %s>::%s" % (ty, tr, nm)]
        for k in range(len(segs) - 1, -1, -1):
            cands.append("crate::%s<impl %s for %s>::%s" % ("".join(x + "::" for x in segs[:k]), tr, ty, nm))
        for q in cands:
            if q in base and q not in cur and q != p:
                rw[p] = q
                break
    # (4) a private function or method that was only renamed: same container (after the rewrites so far), same signature and
    # the same body fingerprint, old name gone, new name not in the pinned tree
    bbod = getattr(baseline_paths, "bodies", {})
    if bbod:
        def canon2(p0):
            for o, n in sorted(rw.items(), key=lambda kv: -len(kv[0])):
                p0 = re.sub(re.escape(o) + r"(?![A-Za-z0-9_])", lambda m_, n=n: n, p0)
            return p0
        curb = {}
        for b in raw.get("bodies", []):
            if b.get("kind") in ("Fn", "AssocFn") and b.get("inputs") is not None:
                curb[b["path"]] = b
        cur_canon = {canon2(p0): p0 for p0 in curb}
        missing = [p0 for p0 in bbod if p0 not in cur_canon]
        new = [(c, p0) for c, p0 in cur_canon.items() if c not in bbod and c not in base]
        by_cont = {}
        for c, p0 in new:
            by_cont.setdefault(container_of(c), []).append((c, p0))
        trait_votes = {}
        for pm in missing:
            cands = []
            for c, p0 in by_cont.get(container_of(pm), []):
                k = body_key(curb[p0])
                kb = bbod[pm]
                if k[2] == kb[2] and len(k[0]) == len(kb[0]):
                    cands.append((c, p0))
            if len(cands) == 1:
                c, p0 = cands[0]
                old_name, new_name = pm.rsplit("::", 1)[-1], c.rsplit("::", 1)[-1]
                rw[p0] = pm
                by_cont[container_of(pm)].remove(cands[0])
                m0 = rxm.match(c)
                if m0:
                    trait_votes.setdefault((m0.group(2), new_name, old_name), 0)
                    trait_votes[(m0.group(2), new_name, old_name)] += 1
        # a trait method renamed in every impl: the declaration (and generic call sites `<T as Tr>::m`) follow
        for (tr, new_name, old_name), n in trait_votes.items():
            if n >= 1 and not any(t2 == tr and nn == new_name and oo != old_name for (t2, nn, oo) in trait_votes):
                rw["%s>::%s" % (tr, new_name)] = "%s>::%s" % (tr, old_name)
                rw["%s::%s" % (tr, new_name)] = "%s::%s" % (tr, old_name)
                # current spelling of the trait path, if the trait itself was moved / renamed
                for o, nn in list(rw.items()):
                    if nn == tr:
                        rw["%s>::%s" % (o, new_name)] = "%s>::%s" % (tr, old_name)
                        rw["%s::%s" % (o, new_name)] = "%s::%s" % (tr, old_name)
    return sorted(rw.items(), key=lambda kv: -len(kv[0]))


def _fix_names(x):
    """after paths were canonicalised: the short name of every callee / body record follows its definition path"""
    if isinstance(x, dict):
        d = x.get("res_def") or x.get("def") or (x.get("path") if "mir" in x else None)
        if isinstance(d, str) and isinstance(x.get("name"), str) and "::" in d and not d.endswith(">"):
            last = d.rsplit("::", 1)[-1]
            if last and last[0] != "{" and last != x["name"] and not last.startswith("<"):
                x["name"] = last
        for v in x.values():
            _fix_names(v)
    elif isinstance(x, list):
        for v in x:
            _fix_names(v)


def _parse_value(t, adts):
    """recursive-descent reader of rustc's user-facing rendering of a constant; → (value, rest of the text)"""
    import re as _re
    t = t.lstrip()
    if t.startswith("&"):
        return _parse_value(t[1:], adts)
    m = _re.match(r"-?\d+(?:_[iu](?:8|16|32|64|128|size))?", t)
    if m and not _re.match(r"[A-Za-z]", t[m.end():m.end() + 1] or " "):
        return int(m.group(0).split("_")[0]), t[m.end():]
    if t.startswith("true") and not _re.match(r"\w", t[4:5] or " "):
        return True, t[4:]
    if t.startswith("false") and not _re.match(r"\w", t[5:6] or " "):
        return False, t[5:]
    if t[0] in "[(":
        close = "]" if t[0] == "[" else ")"
        items, t = _parse_list(t[1:], close, adts)
        return ("list", items), t
    m = _re.match(r"[A-Za-z_][A-Za-z0-9_]*(?:::[A-Za-z_][A-Za-z0-9_]*)*", t)
    if not m:
        raise ValueError(t[:40])
    path, t = m.group(0), t[m.end():]
    fields = []
    if t.startswith("("):
        fields, t = _parse_list(t[1:], ")", adts)
    elif t.lstrip().startswith("{"):
        t = t.lstrip()[1:]
        while True:
            t = t.lstrip()
            if t.startswith("}"):
                t = t[1:]
                break
            m2 = _re.match(r"([A-Za-z_][A-Za-z0-9_]*|\d+)\s*:", t)
            if not m2:
                raise ValueError(t[:40])
            v, t = _parse_value(t[m2.end():], adts)
            fields.append(v)
            t = t.lstrip()
            if t.startswith(","):
                t = t[1:]
    if path in adts:
        vs = adts[path].get("variants") or []
        return ("adt", path, vs[0]["name"] if len(vs) == 1 else None, fields), t
    if "::" in path and path.rsplit("::", 1)[0] in adts:
        return ("adt", path.rsplit("::", 1)[0], path.rsplit("::", 1)[1], fields), t
    raise ValueError("unknown path %s" % path)


def _parse_list(t, close, adts):
    items = []
    while True:
        t = t.lstrip()
        if t.startswith(close):
            return items, t[1:]
        v, t = _parse_value(t, adts)
        items.append(v)
        t = t.lstrip()
        if t.startswith(","):
            t = t[1:]
        elif not t.startswith(close):
            raise ValueError(t[:40])


class Facts:
    def __init__(self, path):
        with open(path) as f:
            text = f.read()
        self.raw = json.loads(text)
        rws = canonical_rewrites(self.raw)
        if rws:
            import re
            for old, new in rws:
                text = re.sub(re.escape(json.dumps(old)[1:-1]) + r"(?![A-Za-z0-9_])", lambda m, n=json.dumps(new)[1:-1]: n, text)
            self.raw = json.loads(text)
            _fix_names(self.raw)
        self.rewrites = rws
        from . import mirprep
        self.inlined_accessors = mirprep.inline_transparent(self.raw)      # newtype accessors / constructors become the `.0` / `T(x)` they stand for
        badts = getattr(baseline_paths, "adts", {}) if baseline_paths() else {}
        for a in self.raw.get("adts", []):
            rec = badts.get(a["path"])
            if rec and len(rec["fields"]) == len(a.get("variants", [])):
                for v, names, vname in zip(a["variants"], rec["fields"], rec["variants"]):
                    if len(names) == len(v.get("fields", [])):
                        for f, nm in zip(v["fields"], names):
                            f["name"] = nm              # private fields are known to the rules by their pinned names (by position)
        self.path = path
        self.config = self.raw["config"]
        self.bodies = {}
        self.promoted = {}
        for rec in self.raw["bodies"]:
            b = Body(rec, self)
            self.bodies[rec["path"]] = b
            for i, pm in enumerate(rec.get("promoted", [])):
                self.promoted[(rec["path"], i)] = Body(rec, self, mir=pm, tag="promoted%d" % i)
        self.extern = {}
        for rec in self.raw.get("extern_bodies", []):
            self.extern[rec["path"]] = Body(rec, self)
        self.adts = {a["path"]: a for a in self.raw["adts"]}
        self.consts = {c["path"]: c for c in self.raw["consts"]}
        self.statics = {s["path"]: s for s in self.raw["statics"]}
        self.impls = self.raw["impls"]
        self.reachable_items = set(self.raw["reachable"])
        self.exported_items = set(self.raw.get("exported") or self.raw["reachable"])
        self.instances = {i["inst"]: i for i in self.raw["instances"]}
        self.inst_by_def = defaultdict(list)
        for i in self.raw["instances"]:
            self.inst_by_def[i["def"]].append(i)

    def body(self, path):
        b = self.bodies.get(path)
        if b is None:
            raise FactsError("anchor missing: no MIR body for %s" % path)
        return b

    def find_bodies(self, pred):
        return [b for b in self.bodies.values() if pred(b)]

    def fn_bodies(self):
        return [b for b in self.bodies.values() if b.rec["kind"] in ("Fn", "AssocFn", "Closure")]

    def is_public_api(self, path):
        return path in self.reachable_items

    def trait_const_in_instance(self, const_def, inst_name):
        """value of a trait's associated const (`<P as Trait>::NAME` in a generic body) inside one monomorphic instance: the literal
        of the implementing type's own item, else of the trait's default — resolved only when exactly one implementor of the trait
        is named among the instance's type arguments. → int | None"""
        if not const_def or not inst_name or const_def.startswith("<") or "::" not in const_def:
            return None
        trait, name = const_def.rsplit("::", 1)
        impl_tys = [i.get("self_ty") for i in self.impls if i.get("trait") == trait and i.get("self_ty")]
        import re as _re
        named = [t for t in impl_tys if _re.search(r"(?<![A-Za-z0-9_:])%s(?![A-Za-z0-9_])" % _re.escape(t), inst_name)]
        if len(named) != 1:
            return None
        for path in ("<%s as %s>::%s" % (named[0], trait, name), const_def):
            c = self.consts.get(path)
            if c and "int" in c:
                return int(c["int"])
            for rec in self.raw["bodies"]:
                if rec["path"] == path and rec["kind"] == "AssocConst":
                    blocks = (rec.get("mir") or {}).get("blocks") or []
                    if len(blocks) == 1 and blocks[0]["term"]["k"] == "return" and len(blocks[0]["stmts"]) == 1:
                        rv = blocks[0]["stmts"][0].get("rv") or {}
                        if rv.get("k") == "use" and rv["op"].get("k") == "const" and "int" in rv["op"]:
                            return int(rv["op"]["int"])
                    return None
        return None

    def const_tree(self, path):
        """structured value of a `const` item as rustc prints it (`value_text` of the fact file): nested
        ('adt', adt path, variant name, [fields]) / ('list', [items]) / int / bool — or None when it cannot be read"""
        cache = self.__dict__.setdefault("_const_tree", {})
        if path in cache:
            return cache[path]
        c = self.consts.get(path) or {}
        out = None
        txt = c.get("value_text")
        if txt:
            try:
                out, rest = _parse_value(txt.strip(), self.adts)
                if rest.strip():
                    out = None
            except (ValueError, IndexError):
                out = None
        cache[path] = out
        return out

    def is_exported(self, path):
        """can code outside the crate name (and therefore call) this item?"""
        if path in self.exported_items:
            return True
        # methods of an exported type / impls of an exported trait for an exported type are callable through the type
        b = self.bodies.get(path)
        if b is not None and b.rec.get("impl_self_adt"):
            tr = b.impl_trait
            if tr and tr.startswith("crate::") and tr not in self.exported_items:
                return False          # a method of a crate-private trait cannot be named from outside, whatever type implements it
            return b.rec["impl_self_adt"] in self.exported_items and (b.vis == "Public" or bool(tr))
        return False

    # ------------------------------------------------------------------ call graph (monomorphic)
    def callees_of_instance(self, inst_name):
        i = self.instances.get(inst_name)
        if i is None or not i.get("expanded"):
            return []
        out = [c for c in i["calls"] if "inst" in c]
        return out

    def reach_instances(self, root_inst, stop=lambda i: False):
        """All instances reachable from root over call + mention edges. Returns {inst: parent}."""
        parent = {root_inst: None}
        st = [root_inst]
        while st:
            cur = st.pop()
            rec = self.instances.get(cur)
            if rec is None or not rec.get("expanded") or stop(rec):
                continue
            for c in rec["calls"]:
                n = c.get("inst")
                if n and n not in parent:
                    parent[n] = cur
                    st.append(n)
            for c in rec.get("refs", []):
                n = c.get("inst")
                if n and n not in parent:
                    parent[n] = cur
                    st.append(n)
        return parent

    def path_to(self, parent, inst):
        out = []
        cur = inst
        while cur is not None:
            out.append(cur)
            cur = parent.get(cur)
        return list(reversed(out))
