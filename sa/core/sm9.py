"""Repository-specific role discovery shared by the rules (DESIGN §4.0) and the analyser-side
arithmetic on literals read from the source (§4.E). Python integers only; none of the
repository's code is involved."""
import json
import os
from .facts import FactsError
from .terms import TermBuilder, strip, alts, walk, show

HERE = os.path.dirname(os.path.abspath(__file__))

U256 = "crate::u256::U256"


def h2i(s):
    return int(s.replace(" ", ""), 16)


class Params:
    def __init__(self):
        with open(os.path.join(HERE, "..", "tables", "sm9_params.json")) as f:
            self.raw = json.load(f)
        self.t = h2i(self.raw["t"])
        self.q = h2i(self.raw["q"])
        self.r = h2i(self.raw["r"])
        t = self.t
        if self.q != 36 * t ** 4 + 36 * t ** 3 + 24 * t ** 2 + 6 * t + 1 or self.r != 36 * t ** 4 + 36 * t ** 3 + 18 * t ** 2 + 6 * t + 1:
            raise FactsError("parameter table inconsistent with the BN polynomials")
        self.b = self.raw["b"]
        self.layouts = self.raw["layouts"]


# ---------------------------------------------------------------------- types along a place
def pointee(ty):
    ty = ty.strip()
    if ty.startswith("&"):
        ty = ty[1:].lstrip()
        if ty.startswith("'"):
            ty = ty.split(" ", 1)[1] if " " in ty else ty
        if ty.startswith("mut "):
            ty = ty[4:]
        return ty.strip()
    if ty.startswith("*mut ") or ty.startswith("*const "):
        return ty.split(" ", 1)[1]
    return ty


def place_types(body, place):
    """[type of local, type after proj[0], ...]"""
    out = [body.locals[place["l"]]["ty"]]
    cur = out[0]
    for e in place["p"]:
        if e == "deref":
            cur = pointee(cur)
        elif isinstance(e, dict) and "f" in e:
            cur = e["ty"]
        elif isinstance(e, dict) and ("idx" in e or "cidx" in e):
            cur = "elem(%s)" % cur
        elif isinstance(e, dict) and "down" in e:
            cur = cur
        else:
            cur = "?"
        out.append(cur)
    return out


class Repo:
    def __init__(self, F):
        self.F = F
        self.P = Params()
        self._statics = None
        self._fp = None
        self._tb = {}

    def tb(self, body):
        k = body.path
        if k not in self._tb:
            self._tb[k] = TermBuilder(body)
        return self._tb[k]

    # ------------------------------------------------------------------ statics / literals
    def static_values(self):
        """lazy_static path -> {'int': value} | {'term': initialiser term} ; read from the initialiser's MIR."""
        if self._statics is not None:
            return self._statics
        out = {}
        for path, b in self.F.bodies.items():
            if not path.endswith("::deref::__static_ref_initialize"):
                continue
            name = path[len("<"):path.index(" as core::ops::Deref>")]
            tb = self.tb(b)
            rv = tb.return_value()
            val = literal_u256(rv)
            out[name] = {"int": val, "term": rv, "body": b}
        self._statics = out
        # a static defined as a copy of another one (`static ref A: U256 = *B;`) has that one's value
        for _ in range(3):
            for name, sv in out.items():
                if sv["int"] is None:
                    other = self.static_of(sv["term"])
                    if other in out and out[other]["int"] is not None:
                        sv["int"] = out[other]["int"]
        return out

    def static_int(self, name):
        sv = self.static_values().get(name)
        if sv is None:
            raise FactsError("static %s has no recognisable lazy_static initialiser" % name)
        if sv["int"] is None:
            raise FactsError("static %s: initialiser is not a literal the extractor knows (%s)" % (name, show(sv["term"], maxdepth=3)[:120]))
        return sv["int"]

    def static_of(self, t):
        """Name of the lazy_static / static a term dereferences, else None."""
        t = strip(t)
        if t[0] == "call" and t[1].get("trait") == "core::ops::Deref" and t[1].name == "deref" and len(t[2]) == 1:
            inner = strip(t[2][0])
            if inner[0] == "const" and "static" in inner[1]:
                return inner[1]["static"]
        if t[0] == "const" and "static" in t[1]:
            return t[1]["static"]
        return None

    # ------------------------------------------------------------------ prime-field types
    def fp_types(self):
        """{adt path: {'modulus': static, 'rsq': static, 'inv': static, 'new': body}} discovered by role:
        a one-field struct over U256 with an inherent constructor `U256 -> Option<Self>` whose Some-arm is
        guarded by `a < *MODULUS`."""
        if self._fp is not None:
            return self._fp
        out = {}
        for ap, adt in self.F.adts.items():
            vs = adt["variants"]
            if adt["kind"] != "Struct" or len(vs) != 1 or len(vs[0]["fields"]) != 1 or vs[0]["fields"][0]["ty"] != U256:
                continue
            if ap == "crate::u512::U512":
                continue
            cands = [b for b in self.F.fn_bodies()
                     if b.rec.get("impl_self_adt") == ap and not b.impl_trait and b.rec.get("inputs") == [U256]
                     and b.rec.get("output") == "core::option::Option<%s>" % ap]
            info = None
            for b in cands:
                tb = self.tb(b)
                for bi in sorted(b.reachable()):
                    t = b.blocks[bi]["term"]
                    if t["k"] != "switch":
                        continue
                    d = tb.operand(t["discr"], bi, len(b.blocks[bi]["stmts"]))
                    if d[0] == "call" and d[1].name in ("lt", "le", "gt", "ge") and len(d[2]) == 2:
                        # any ordering test of the raw input against a static: the polarity is R-GUARD's business
                        for x, y in ((d[2][0], d[2][1]), (d[2][1], d[2][0])):
                            st = self.static_of(y)
                            if st and strip(x) == ("param", 1):
                                info = {"modulus": st, "new": b, "guard_bb": bi}
                if info:
                    break
            if info:
                out[ap] = info
        if len(out) < 2:
            raise FactsError("expected two prime-field types (scalar field and base field); found %s" % sorted(out))
        self._fp = out
        return out

    def fp_modulus_static(self, adt_path):
        return self.fp_types()[adt_path]["modulus"]


def literal_u256(t):
    """Integer denoted by `U256::from([l0,l1,l2,l3])`, `U256::from(u64)` or a plain integer literal; else None."""
    t = strip(t)
    if t[0] == "const" and "int" in t[1]:
        return int(t[1]["int"])
    if t[0] == "call" and t[1].name in ("from", "into") and len(t[2]) == 1:
        a = strip(t[2][0])
        if a[0] == "agg" and a[1] == "array":
            limbs = []
            for x in a[3]:
                x = strip(x)
                if x[0] == "const" and "int" in x[1]:
                    limbs.append(int(x[1]["int"]))
                else:
                    return None
            v = 0
            for i, l in enumerate(limbs):
                v |= l << (64 * i)
            return v
        if a[0] == "const" and "int" in a[1]:
            return int(a[1]["int"])
    return None


# ---------------------------------------------------------------------- small finite-field helpers (analyser side)
def inv_mod(a, p):
    return pow(a, -1, p)


class Fq2:
    """Fq[u]/(u^2+2) over Python ints — used only on literals read from the source."""
    def __init__(self, p):
        self.p = p

    def add(self, a, b):
        return ((a[0] + b[0]) % self.p, (a[1] + b[1]) % self.p)

    def sub(self, a, b):
        return ((a[0] - b[0]) % self.p, (a[1] - b[1]) % self.p)

    def mul(self, a, b):
        p = self.p
        return ((a[0] * b[0] - 2 * a[1] * b[1]) % p, (a[0] * b[1] + a[1] * b[0]) % p)

    def inv(self, a):
        p = self.p
        n = inv_mod((a[0] * a[0] + 2 * a[1] * a[1]) % p, p)
        return (a[0] * n % p, (-a[1]) * n % p)

    def smul(self, k, a):
        return (k * a[0] % self.p, k * a[1] % self.p)


def ec_mul(k, P, add, dbl):
    R = None
    for bit in bin(k)[2:]:
        if R is not None:
            R = dbl(R)
        if bit == "1":
            R = P if R is None else add(R, P)
    return R


def make_curve_fq(p):
    def dbl(P):
        if P is None:
            return None
        x, y = P
        if y == 0:
            return None
        l = 3 * x * x * inv_mod(2 * y, p) % p
        x3 = (l * l - 2 * x) % p
        return (x3, (l * (x - x3) - y) % p)

    def add(P, Q):
        if P is None:
            return Q
        if Q is None:
            return P
        if P[0] == Q[0]:
            if (P[1] + Q[1]) % p == 0:
                return None
            return dbl(P)
        l = (Q[1] - P[1]) * inv_mod(Q[0] - P[0], p) % p
        x3 = (l * l - P[0] - Q[0]) % p
        return (x3, (l * (P[0] - x3) - P[1]) % p)
    return add, dbl


def make_curve_fq2(p):
    K = Fq2(p)
    zero = (0, 0)

    def dbl(P):
        if P is None:
            return None
        x, y = P
        if y == zero:
            return None
        l = K.mul(K.smul(3, K.mul(x, x)), K.inv(K.smul(2, y)))
        x3 = K.sub(K.mul(l, l), K.smul(2, x))
        return (x3, K.sub(K.mul(l, K.sub(x, x3)), y))

    def add(P, Q):
        if P is None:
            return Q
        if Q is None:
            return P
        if P[0] == Q[0]:
            if K.add(P[1], Q[1]) == zero:
                return None
            return dbl(P)
        l = K.mul(K.sub(Q[1], P[1]), K.inv(K.sub(Q[0], P[0])))
        x3 = K.sub(K.sub(K.mul(l, l), P[0]), Q[0])
        return (x3, K.sub(K.mul(l, K.sub(P[0], x3)), P[1]))
    return add, dbl
