"""A small abstract interpreter over the MIR dump (DESIGN §4.G/H/I).

Integers and booleans are propagated as constants (they come from literals: loop counters, exponents, digit
arrays); every other value lives in a caller-supplied abstract domain (exponent effect, Jacobian weight,
polynomial degree …) and is transformed only by the domain's transfer function for each resolved callee.
Branches on unknown conditions fork. No field arithmetic of the analysed program is ever performed.
"""
import copy
from .facts import FactsError

TOP = ("top",)
import time as _time
WALL_DEADLINE = None      # set by a rule around one abstract run (covers nested executors); None = no wall-clock limit


class Ref:
    __slots__ = ("frame", "local", "proj")

    def __init__(self, frame, local, proj=()):
        self.frame, self.local, self.proj = frame, local, tuple(proj)

    def __repr__(self):
        return "&_%s%s" % (self.local, list(self.proj) or "")


class Tup:
    def __init__(self, items):
        self.items = list(items)

    def __repr__(self):
        return "(%s)" % ", ".join(map(repr, self.items))


class Adt:
    def __init__(self, name, variant, fields):
        self.name, self.variant, self.fields = name, variant, list(fields)

    def __repr__(self):
        return "%s::%s%s" % (self.name.split("::")[-1], self.variant, self.fields)


class Stop(Exception):
    pass


class Retry(Exception):
    def __init__(self, heads):
        self.heads = heads


def natural_loops(body):
    """{head: set(blocks)} of natural loops (back edge u→h with h dominating u)."""
    cache = getattr(body, "_loops", None)
    if cache is not None:
        return cache
    loops = {}
    succ, pred = body.succ(), body.pred()
    for u in sorted(body.reachable()):
        for h in succ[u]:
            if body.dominates(h, u):
                nodes = loops.setdefault(h, {h})
                st = [u]
                while st:
                    x = st.pop()
                    if x in nodes:
                        continue
                    nodes.add(x)
                    st.extend(p for p in pred[x] if p in body.reachable())
    body._loops = loops
    return loops


def loop_written_locals(body, nodes):
    out = set()
    mutref = {}
    for bi in nodes:
        blk = body.blocks[bi]
        for st in blk["stmts"]:
            if st["k"] == "assign":
                out.add(st["place"]["l"])
                rv = st["rv"]
                if rv["k"] in ("ref", "rawptr") and rv.get("mut", True) and rv["place"]["p"][:1] != ["deref"]:
                    out.add(rv["place"]["l"])
        t = blk["term"]
        if t["k"] == "call":
            out.add(t["dest"]["l"])
    return out


class Frame:
    def __init__(self, body, args):
        self.body = body
        self.env = {}
        for i, a in enumerate(args):
            self.env[i + 1] = a


class AbsExec:
    """domain: object with
         call(ex, fnkey, args, term) -> value | NotImplemented   (args are values; Ref for references)
         unknown_branch(ex, term) -> list of successor blocks to explore, or None for "all"
    """
    def __init__(self, facts, domain, max_steps=200000, max_paths=4096, inline=None):
        self.F = facts
        self.domain = domain
        self.max_steps = max_steps
        self.max_paths = max_paths
        self.steps = 0
        self.inline = inline or (lambda d: False)
        self.trace = []

    def _freeze_idx(self, fr, proj):
        """`&a[k]` designates the element k names *now*: an index known as an integer is kept as that integer (the index local may
        change afterwards, and the reference may be followed from another frame)"""
        out = []
        for e in proj:
            if isinstance(e, dict) and "idx" in e and not isinstance(fr.env.get(e["idx"], TOP), bool) and isinstance(fr.env.get(e["idx"], TOP), int):
                out.append({"cidx": fr.env[e["idx"]], "from_end": False})
            else:
                out.append(e)
        return out

    # ---------------------------------------------------------------- places
    def read_place(self, fr, pl):
        v = fr.env.get(pl["l"], TOP)
        return self._project(fr, v, pl["p"])

    def _project(self, fr, v, proj):
        for e in proj:
            if e == "deref":
                if isinstance(v, Ref):
                    v = self._project(v.frame, v.frame.env.get(v.local, TOP), v.proj)
                else:
                    # a reference to an abstract value is represented by the value itself
                    v = self.domain.deref(self, v) if hasattr(self.domain, "deref") else v
            elif isinstance(e, dict) and "f" in e:
                v = self._field(v, e["f"])
            elif isinstance(e, dict) and "idx" in e:
                i = fr.env.get(e["idx"], TOP)
                if isinstance(v, Tup) and isinstance(i, int) and 0 <= i < len(v.items):
                    v = v.items[i]
                else:
                    v = self.domain.index(self, v, i) if hasattr(self.domain, "index") else TOP
            elif isinstance(e, dict) and "cidx" in e:
                if isinstance(v, Tup) and e["cidx"] < len(v.items):
                    v = v.items[e["cidx"]]
                elif hasattr(self.domain, "index") and not e.get("from_end") and not isinstance(v, Tup):
                    v = self.domain.index(self, v, e["cidx"])
                else:
                    v = TOP
            elif isinstance(e, dict) and "down" in e:
                pass
            else:
                v = TOP
        return v

    def _field(self, v, i):
        if isinstance(v, Tup) and i < len(v.items):
            return v.items[i]
        if isinstance(v, Adt) and i < len(v.fields):
            return v.fields[i]
        if hasattr(self.domain, "field"):
            return self.domain.field(self, v, i)
        return TOP

    def write_place(self, fr, pl, val):
        if pl["p"] and hasattr(self.domain, "on_write"):
            self.domain.on_write(self, fr, pl, val)
        if not pl["p"]:
            fr.env[pl["l"]] = val
            return
        if pl["p"][0] == "deref":
            base = fr.env.get(pl["l"], TOP)
            if isinstance(base, Ref):
                self._write_into(base.frame, base.local, list(base.proj) + list(pl["p"][1:]), val)
            return
        self._write_into(fr, pl["l"], list(pl["p"]), val)

    def _write_into(self, fr, local, proj, val):
        if not proj:
            fr.env[local] = val
            return
        cur = fr.env.get(local, TOP)
        fr.env[local] = self._updated(fr, cur, proj, val)

    def _updated(self, fr, cur, proj, val):
        if not proj:
            return val
        e = proj[0]
        if isinstance(e, dict) and "f" in e:
            i = e["f"]
            if isinstance(cur, Tup):
                items = list(cur.items)
                while len(items) <= i:
                    items.append(TOP)
                items[i] = self._updated(fr, items[i], proj[1:], val)
                return Tup(items)
            if isinstance(cur, Adt):
                fs = list(cur.fields)
                while len(fs) <= i:
                    fs.append(self.domain.pad(self, cur) if hasattr(self.domain, "pad") else TOP)
                fs[i] = self._updated(fr, fs[i], proj[1:], val)
                return Adt(cur.name, cur.variant, fs)
            if hasattr(self.domain, "set_field"):
                return self.domain.set_field(self, cur, i, self._updated(fr, self._field(cur, i), proj[1:], val))
            if cur is TOP or cur == TOP:
                # an otherwise unknown aggregate of which one field becomes known
                fs = [TOP] * (i + 1)
                fs[i] = self._updated(fr, TOP, proj[1:], val)
                return Adt("opaque", None, fs)
            return TOP
        if isinstance(e, dict) and "idx" in e:
            i = fr.env.get(e["idx"], TOP)
            if isinstance(cur, Tup) and isinstance(i, int) and 0 <= i < len(cur.items):
                items = list(cur.items)
                items[i] = self._updated(fr, items[i], proj[1:], val)
                return Tup(items)
            return TOP
        if isinstance(e, dict) and "cidx" in e and not e.get("from_end"):
            i = e["cidx"]
            if isinstance(cur, Tup) and 0 <= i < len(cur.items):
                items = list(cur.items)
                items[i] = self._updated(fr, items[i], proj[1:], val)
                return Tup(items)
            return TOP
        if isinstance(e, dict) and "down" in e:
            return self._updated(fr, cur, proj[1:], val)
        return TOP

    # ---------------------------------------------------------------- operands / rvalues
    def operand(self, fr, op):
        k = op.get("k")
        if k in ("copy", "move"):
            return self.read_place(fr, op["place"])
        if k == "const":
            if "int" in op:
                v = int(op["int"])
                return bool(v) if op.get("ty") == "bool" else v
            if "tyconst" in op and len(getattr(self, "generic_ints", [])) == 1:
                return self.generic_ints[0]
            if "fn" in op:
                from .terms import FnKey
                return ("fnref", FnKey(op["fn"]))
            v = self.domain.const(self, op) if hasattr(self.domain, "const") else TOP
            if v is TOP or v == TOP or v is NotImplemented:
                v = self.default_const(op)
            return v
        return TOP

    def default_const(self, op):
        """what every domain can say about a constant: an integer `const` item, a table of a crate-local enum / struct as rustc
        evaluated it (variants with their payloads), a promoted constant through its own little body"""
        if "promoted" in op:
            pb = self.F.promoted.get((op.get("uneval_def"), op["promoted"]))
            if pb is not None and getattr(self, "depth", 0) < 12:
                sub = AbsExec(self.F, self.domain, self.max_steps, self.max_paths, self.inline)
                sub.depth = getattr(self, "depth", 0) + 1
                rs = sub.run(pb, [])
                if len(rs) == 1:
                    return rs[0][0]
            return TOP
        d = op.get("uneval_def")
        c = self.F.consts.get(d) if d else None
        if c:
            if "int" in c:
                return int(c["int"])
            tree = self.F.const_tree(d)
            if tree is not None:
                return _tree_value(tree)
        return TOP

    def rvalue(self, fr, rv):
        k = rv["k"]
        if k == "use":
            return self.operand(fr, rv["op"])
        if k in ("ref", "rawptr"):
            pl = rv["place"]
            if pl["p"][:1] == ["deref"]:
                base = fr.env.get(pl["l"], TOP)
                if isinstance(base, Ref):
                    return Ref(base.frame, base.local, list(base.proj) + self._freeze_idx(fr, pl["p"][1:]))
                # `&*v` where v already stands for the referent
                return self._project(fr, base, pl["p"][1:])
            return Ref(fr, pl["l"], self._freeze_idx(fr, pl["p"]))
        if k == "cast":
            v = self.operand(fr, rv["op"])
            if isinstance(v, tuple) and len(v) == 2 and v[0] == "fnref":
                return v          # fn item → fn pointer
            if isinstance(v, bool):
                return int(v)
            if isinstance(v, int):
                return _wrap(v, rv["ty"])
            if hasattr(self.domain, "cast"):
                return self.domain.cast(self, fr, rv, v)
            return v
        if k == "binop":
            a, b = self.operand(fr, rv["a"]), self.operand(fr, rv["b"])
            if hasattr(self.domain, "binop_ex"):
                r = self.domain.binop_ex(self, fr, rv, a, b)
                if r is not NotImplemented:
                    return r
            return self.binop(rv["op"], a, b, rv)
        if k == "unop":
            a = self.operand(fr, rv["a"])
            if rv["op"] == "Not":
                if isinstance(a, bool):
                    return not a
                if isinstance(a, int):
                    return ~a
                if isinstance(a, tuple) and len(a) == 4 and a[0] == "cond":
                    return (a[0], a[1], a[2], not a[3])
            if rv["op"] == "Neg" and isinstance(a, int):
                return -a
            if rv["op"] == "PtrMetadata":
                if isinstance(a, Ref):
                    t = self._project(a.frame, a.frame.env.get(a.local, TOP), a.proj)
                    if isinstance(t, Tup):
                        return len(t.items)
                if isinstance(a, Tup):
                    return len(a.items)      # a slice the domain holds by value
                return self.domain.unknown_len(self) if hasattr(self.domain, "unknown_len") else TOP
            return TOP
        if k == "aggregate":
            ops = [self.operand(fr, o) for o in rv["ops"]]
            if rv["agg"] in ("tuple", "array"):
                return Tup(ops)
            if rv["agg"] == "adt":
                if hasattr(self.domain, "aggregate"):
                    r = self.domain.aggregate(self, rv["adt"], rv["variant_name"], ops)
                    if r is not NotImplemented:
                        return r
                return Adt(rv["adt"], rv["variant_name"], ops)
            if rv["agg"] == "closure":
                if hasattr(self.domain, "on_closure"):
                    self.domain.on_closure(self, fr, rv["closure"], ops)
                return Adt("closure:" + rv["closure"], None, ops)
            return TOP
        if k == "discr":
            v = self.read_place(fr, rv["place"])
            if isinstance(v, Adt):
                return ("variant", v.variant, v.name)
            return TOP
        if k == "repeat":
            v = self.operand(fr, rv["op"])
            try:
                n = int(rv["n"])
            except ValueError:
                return TOP
            return Tup([v] * n) if n <= 1024 else TOP
        return TOP

    def binop(self, op, a, b, rv=None):
        if isinstance(a, bool):
            a = int(a)
        if isinstance(b, bool):
            b = int(b)
        if isinstance(a, int) and isinstance(b, int):
            wo = op.endswith("WithOverflow")
            o = op.replace("WithOverflow", "").replace("Unchecked", "")
            tbl = {"Add": lambda: a + b, "Sub": lambda: a - b, "Mul": lambda: a * b, "BitAnd": lambda: a & b, "BitOr": lambda: a | b,
                   "BitXor": lambda: a ^ b, "Shl": lambda: a << b, "Shr": lambda: a >> b, "Eq": lambda: a == b, "Ne": lambda: a != b,
                   "Lt": lambda: a < b, "Le": lambda: a <= b, "Gt": lambda: a > b, "Ge": lambda: a >= b,
                   "Div": lambda: a // b if b else TOP, "Rem": lambda: a % b if b else TOP}
            if o in tbl:
                v = tbl[o]()
                if wo:
                    return Tup([v, False])
                return v
        if hasattr(self.domain, "binop"):
            return self.domain.binop(self, op, a, b)
        return TOP

    # ---------------------------------------------------------------- execution
    def run(self, body, args):
        """Explore all paths; returns list of (return value, frame). Loops whose continuation cannot be decided from
        constants are re-run with every local written in the loop forgotten at the loop head (sound over-approximation)."""
        heads = self.abstract_heads()
        if getattr(self, "root_path", None) is None and getattr(self, "depth", 0) == 0:
            self.root_path = body.rec["path"]
        for _ in range(64):
            results = []
            fr = Frame(body, [_clone_val(a, None, None) for a in args])
            try:
                self._explore(fr, 0, results, set())
                return results
            except Retry as r:
                if getattr(self, "depth", 0) > 0:
                    raise
                if not (set(r.heads) - heads):
                    raise FactsError("loop abstraction did not converge in %s" % body.path)
                heads |= set(r.heads)
        raise FactsError("too many loop abstractions in %s" % body.path)

    def abstract_heads(self):
        if not hasattr(self.domain, "_abstract_heads"):
            self.domain._abstract_heads = set()
        return self.domain._abstract_heads

    def _explore(self, fr, bb, results, visiting, depth=0):
        while True:
            self.steps += 1
            if self.steps > self.max_steps or len(results) > self.max_paths:
                raise FactsError("abstract execution budget exceeded in %s" % fr.body.path)
            if WALL_DEADLINE is not None and (self.steps & 255) == 0 and _time.time() > WALL_DEADLINE:
                raise FactsError("abstract execution wall-clock budget exceeded in %s" % fr.body.path)
            blk = fr.body.blocks[bb]
            if (fr.body.path, bb) in self.abstract_heads():
                if hasattr(self.domain, "at_head"):
                    self.domain.at_head(self, fr, bb, loop_written_locals(fr.body, natural_loops(fr.body)[bb]))
                for l in loop_written_locals(fr.body, natural_loops(fr.body)[bb]):
                    fr.env[l] = self.domain.havoc(self, fr, l) if hasattr(self.domain, "havoc") else TOP
            for st in blk["stmts"]:
                if st["k"] == "assign":
                    self.write_place(fr, st["place"], self.rvalue(fr, st["rv"]))
            t = blk["term"]
            k = t["k"]
            if k == "return":
                results.append((fr.env.get(0, TOP), fr))
                return
            if k in ("goto", "drop"):
                bb = t["target"]
                continue
            if k == "assert":
                if hasattr(self.domain, "on_assert"):
                    go = self.domain.on_assert(self, fr, bb, t, self.operand(fr, t["cond"]))
                    if go is False:
                        return
                bb = t["target"]
                continue
            if k == "call":
                from .terms import _fnkey
                fk = _fnkey(t.get("fn"), t)
                if t.get("fn") is None and "fn_operand" in t:
                    # a call through a function pointer: when the pointer provably holds one fn item, it is that call
                    fv = self.operand(fr, t["fn_operand"])
                    if isinstance(fv, tuple) and len(fv) == 2 and fv[0] == "fnref":
                        fk = fv[1]
                args = [self.operand(fr, a) for a in t["args"]]
                val = self.domain.call(self, fk, args, t, fr)
                if val is NotImplemented:
                    val = int_builtin(self, fk, args)
                if val is NotImplemented:
                    val = closure_builtin(self, fk, args, t, fr)
                if val is NotImplemented:
                    cb = self.F.bodies.get(fk.d)
                    stack = getattr(self, "inline_stack", ())
                    if cb is not None and cb.rec["kind"] == "Closure" and t.get("fn") and (t["fn"].get("def") or "").startswith(("core::ops::function::Fn", "core::ops::Fn")) and len(args) == 2:
                        # `closure(a, b)` resolved to the closure body: the Fn* traits pass the arguments packed in one tuple
                        packed = deref_value(self, args[1])
                        if isinstance(packed, Tup) and cb.arg_count == 1 + len(packed.items):
                            args = [args[0]] + list(packed.items)
                    if cb is not None and (self.inline(fk.d) or cb.rec["kind"] == "Closure") and fk.d not in stack and fk.d != getattr(self, "root_path", None):
                        sub = AbsExec(self.F, self.domain, self.max_steps, self.max_paths, self.inline)
                        sub.steps = self.steps
                        sub.depth = getattr(self, "depth", 0) + 1
                        import re as _re
                        gi = [int(x) for x in _re.findall(r"<(\d+)(?:_usize)?>", fk.i)] or [int(x) for x in (fk.get("args") or []) if isinstance(x, str) and x.isdigit()]
                        sub.generic_ints = gi or getattr(self, "generic_ints", [])
                        sub.inline_stack = stack + (fk.d,)
                        sub.root_path = getattr(self, "root_path", None)
                        if sub.depth > 12:
                            raise FactsError("inlining depth exceeded at %s" % fk.d)
                        rs = sub.run_shared(cb, args)
                        self.steps = sub.steps
                        if hasattr(self.domain, "select_inline_results"):
                            rs = self.domain.select_inline_results(self, rs)
                        vals = [r[0] for r in rs]
                        if len(rs) > 1:
                            # several callee paths: what they wrote through `&mut` arguments is not path-separated here
                            for aop, av in zip(t["args"], args):
                                if isinstance(av, Ref) and aop.get("k") in ("copy", "move") and not aop["place"]["p"] \
                                        and fr.body.locals[aop["place"]["l"]]["ty"].startswith("&mut"):
                                    self._write_into(av.frame, av.local, list(av.proj), self.domain.havoc_value(self, fr.body.locals[aop["place"]["l"]]["ty"]) if hasattr(self.domain, "havoc_value") else TOP)
                        if len(rs) > 1 and getattr(self.domain, "fork_on_inline", False) and t["target"] is not None:
                            # path-sensitive domains: the caller goes on once per callee path, with that path's assumptions
                            for v, cfr in rs:
                                fr2 = Frame(fr.body, [])
                                fr2.env = _clone_env(fr.env, fr, fr2)
                                self.domain.merge_callee(self, fr2, cfr)
                                if fr2.env.get("__dead"):
                                    continue
                                self.write_place(fr2, t["dest"], _clone_val(v, fr, fr2))
                                self._explore(fr2, t["target"], results, visiting, depth + 1)
                            return
                        val = vals[0] if vals and all(_same(v, vals[0]) for v in vals) else (self.domain.join(self, vals) if hasattr(self.domain, "join") and vals else TOP)
                    elif cb is not None and (fk.d in stack or fk.d == getattr(self, "root_path", None)) and hasattr(self.domain, "recursive_call"):
                        val = self.domain.recursive_call(self, fk, args, t, fr)
                    else:
                        val = TOP
                        # an unmodelled callee may write through every `&mut` it receives
                        for aop, av in zip(t["args"], args):
                            if isinstance(av, Ref) and aop.get("k") in ("copy", "move"):
                                aty = fr.body.locals[aop["place"]["l"]]["ty"] if not aop["place"]["p"] else ""
                                if aty.startswith("&mut"):
                                    self._write_into(av.frame, av.local, list(av.proj), self.domain.havoc_value(self, aty) if hasattr(self.domain, "havoc_value") else TOP)
                if t["target"] is None:
                    return
                self.write_place(fr, t["dest"], val)
                bb = t["target"]
                continue
            if k == "switch":
                d = self.operand(fr, t["discr"])
                if isinstance(d, bool):
                    d = int(d)
                if isinstance(d, tuple) and d and d[0] == "variant":
                    if isinstance(d[1], tuple) and d[1] and d[1][0] == "?":
                        # an enum whose variant depends on an abstract predicate: ('?', payload, {index: meaning})
                        d = ("cond", "variant?", d[1], False)
                    else:
                        idx = self.domain.variant_index(self, d[1]) if hasattr(self.domain, "variant_index") else None
                        if idx is None and len(d) == 3 and isinstance(d[1], str):
                            # a crate-local fieldless / data enum: its declaration order (explicit discriminants where given)
                            adt = self.F.adts.get(d[2]) if isinstance(d[2], str) else None
                            if adt and adt.get("kind") == "Enum":
                                for i_, v_ in enumerate(adt.get("variants") or []):
                                    if v_.get("name") == d[1]:
                                        idx = v_.get("discr", i_) if isinstance(v_.get("discr", i_), int) else i_
                        d = idx if idx is not None else TOP
                if isinstance(d, int):
                    nxt = t["otherwise"]
                    for val, tg in t["arms"]:
                        if int(val) == d:
                            nxt = tg
                    bb = nxt
                    continue
                # unknown condition: fork. Inside a loop that is still treated concretely → restart with that loop abstracted.
                if getattr(self.domain, "sound_loops", False):
                    need = [(fr.body.path, h) for h, nodes in natural_loops(fr.body).items() if bb in nodes and (fr.body.path, h) not in self.abstract_heads()]
                    if need:
                        raise Retry(need)
                succ = []
                armvals = [int(a[0]) for a in t["arms"]]
                for val, tg in t["arms"]:
                    succ.append((tg, int(val)))
                succ.append((t["otherwise"], None))
                done = set()
                for s, sval in succ:
                    if s in done:
                        continue
                    done.add(s)
                    key = (id(fr.body), bb, s)
                    if key in visiting:
                        continue          # do not unroll unknown-condition loops
                    fr2 = Frame(fr.body, [])
                    fr2.env = _clone_env(fr.env, fr, fr2)
                    if isinstance(d, tuple) and d and d[0] == "cond" and hasattr(self.domain, "refine"):
                        if d[1] == "variant?":
                            # which variant index does this edge stand for?
                            idxs = sorted(d[2][2])
                            v = sval if sval is not None else next((i for i in idxs if i not in armvals), None)
                            if v is None or v not in d[2][2]:
                                continue
                            self.domain.refine(self, fr2, d, v)
                        else:
                            truth = (sval != 0) if sval is not None else (0 in armvals)
                            self.domain.refine(self, fr2, d, truth)
                    if hasattr(self.domain, "on_fork"):
                        self.domain.on_fork(self, fr2, t, d, sval)
                    if fr2.env.get("__dead"):
                        continue          # the refinement contradicts what this path already assumed
                    self._explore(fr2, s, results, visiting | {key}, depth + 1)
                return
            return

    def run_shared(self, body, args):
        return self.run(body, args)


def _clone_env(env, old, new, fmap=None):
    """Copy an environment for a forked path. Holder frames (one-slot frames standing for by-reference arguments of the
    function being analysed: same body object, not the frame itself) are copied too, so that branch refinements and
    writes through `&mut self` stay path-local."""
    fmap = {} if fmap is None else fmap
    if old is not None:
        fmap[id(old)] = new
    out = {}
    for k, v in env.items():
        out[k] = _clone_val(v, old, new, fmap)
    return out


def _clone_val(v, old, new, fmap=None):
    if isinstance(v, Ref):
        if v.frame is old:
            return Ref(new, v.local, v.proj)
        if fmap is not None and old is not None and v.frame is not None and v.frame.body is old.body and v.frame is not old:
            tgt = fmap.get(id(v.frame))
            if tgt is None:
                tgt = Frame(v.frame.body, [])
                fmap[id(v.frame)] = tgt
                tgt.env = _clone_env(v.frame.env, v.frame, tgt, fmap)
            return Ref(tgt, v.local, v.proj)
        return v
    if isinstance(v, Tup):
        return Tup([_clone_val(x, old, new, fmap) for x in v.items])
    if isinstance(v, Adt):
        return Adt(v.name, v.variant, [_clone_val(x, old, new, fmap) for x in v.fields])
    return v


def _same(a, b):
    return repr(a) == repr(b)


def _wrap(v, ty):
    bits = {"u8": 8, "u16": 16, "u32": 32, "u64": 64, "usize": 64, "u128": 128}.get(ty)
    if bits:
        return v & ((1 << bits) - 1)
    return v


def deref_value(ex, v):
    if isinstance(v, Ref):
        return ex._project(v.frame, v.frame.env.get(v.local, TOP), v.proj)
    return v


def store_through(ex, ref, val):
    if isinstance(ref, Ref):
        ex._write_into(ref.frame, ref.local, list(ref.proj), val)


_INT_BITS = {"u8": 8, "u16": 16, "u32": 32, "u64": 64, "usize": 64, "u128": 128}


class CoreIter:
    """A literal iteration space (constant range / array) being consumed."""
    def __init__(self, items, pos=0):
        self.items, self.pos = list(items), pos

    def __repr__(self):
        return "CoreIter(%d@%d)" % (len(self.items), self.pos)


def _tree_value(t):
    if isinstance(t, tuple) and t and t[0] == "list":
        return Tup([_tree_value(x) for x in t[1]])
    if isinstance(t, tuple) and t and t[0] == "adt":
        return Adt(t[1], t[2], [_tree_value(x) for x in t[3]])
    return t


def _as_iter(v):
    if isinstance(v, CoreIter):
        return v
    if isinstance(v, Adt) and v.name.endswith("ops::Range") and len(v.fields) == 2 and all(isinstance(x, int) and not isinstance(x, bool) for x in v.fields) \
            and v.fields[1] - v.fields[0] <= 4096:
        return CoreIter(range(v.fields[0], max(v.fields[0], v.fields[1])))
    if isinstance(v, Adt) and v.name.endswith("ops::RangeInclusive") and len(v.fields) >= 2 and all(isinstance(x, int) and not isinstance(x, bool) for x in v.fields[:2]) \
            and v.fields[1] - v.fields[0] <= 4096:
        return CoreIter(range(v.fields[0], max(v.fields[0], v.fields[1] + 1)))
    return None


def int_builtin(ex, fk, args):
    """Integer intrinsics of core on constant arguments (so that a loop bound written as `n.ilog2()` or
    `BITS - n.leading_zeros() - 1` is the same constant either way), and iteration over constant ranges."""
    d = fk.d
    nm = fk.name
    if nm in ("iter", "len") and d.startswith("core::slice::<impl [T]>::") and len(args) == 1:
        # a literal table of a crate-local enum / struct (a `const` array as rustc evaluated it), walked as a slice
        v0 = deref_value(ex, args[0])
        if isinstance(v0, Tup) and v0.items and all(isinstance(x, Adt) and isinstance(x.name, str) and x.name in ex.F.adts and isinstance(x.variant, str) for x in v0.items):
            return CoreIter(list(v0.items)) if nm == "iter" else len(v0.items)
    if nm in ("into_iter", "iter", "rev", "next", "enumerate", "len", "next_back") and args and (d.startswith("core::iter") or d.startswith("<core::ops::Range") or "Iterator" in d or "IntoIterator" in d or "core::ops::Range" in fk.i):
        v0 = deref_value(ex, args[0])
        it = _as_iter(v0)
        if it is not None and len(args) == 1:
            if nm in ("into_iter", "iter"):
                return it
            if nm == "rev":
                return CoreIter(list(reversed(it.items[it.pos:])))
            if nm == "enumerate":
                return CoreIter([Tup([i, x]) for i, x in enumerate(it.items[it.pos:])])
            if nm == "len":
                return len(it.items) - it.pos
            if nm == "next":
                if it.pos < len(it.items):
                    store_through(ex, args[0], CoreIter(it.items, it.pos + 1))
                    return Adt("core::option::Option", "Some", [it.items[it.pos]])
                return Adt("core::option::Option", "None", [])
            if nm == "next_back":
                if it.pos < len(it.items):
                    store_through(ex, args[0], CoreIter(it.items[:-1], it.pos))
                    return Adt("core::option::Option", "Some", [it.items[-1]])
                return Adt("core::option::Option", "None", [])
    m = None
    if d.startswith("core::num::<impl "):
        ty = d[len("core::num::<impl "):].split(">")[0]
        m = _INT_BITS.get(ty)
    a = [deref_value(ex, x) for x in args]
    if any(isinstance(x, bool) for x in a):
        a = [int(x) if isinstance(x, bool) else x for x in a]
    if not a or not all(isinstance(x, int) for x in a):
        return NotImplemented
    n = fk.name
    if m:
        x = a[0]
        mask = (1 << m) - 1
        if n == "leading_zeros" and len(a) == 1:
            return m - x.bit_length()
        if n == "trailing_zeros" and len(a) == 1:
            return m if x == 0 else (x & -x).bit_length() - 1
        if n == "ilog2" and len(a) == 1 and x > 0:
            return x.bit_length() - 1
        if n == "count_ones" and len(a) == 1:
            return bin(x).count("1")
        if n == "count_zeros" and len(a) == 1:
            return m - bin(x).count("1")
        if n == "is_power_of_two" and len(a) == 1:
            return x != 0 and x & (x - 1) == 0
        if n == "pow" and len(a) == 2 and a[1] < 4096:
            return (x ** a[1]) & mask
        if len(a) == 2:
            y = a[1]
            if n == "wrapping_add":
                return (x + y) & mask
            if n == "wrapping_sub":
                return (x - y) & mask
            if n == "wrapping_mul":
                return (x * y) & mask
            if n == "wrapping_shl":
                return (x << (y % m)) & mask
            if n == "wrapping_shr":
                return x >> (y % m)
            if n == "saturating_sub":
                return max(0, x - y)
            if n == "saturating_add":
                return min(mask, x + y)
            if n in ("min",):
                return min(x, y)
            if n in ("max",):
                return max(x, y)
            if n == "div_ceil" and y:
                return -(-x // y)
            if n in ("checked_sub",):
                return Adt("core::option::Option", "Some", [x - y]) if x >= y else Adt("core::option::Option", "None", [])
            if n in ("checked_add",):
                return Adt("core::option::Option", "Some", [x + y]) if x + y <= mask else Adt("core::option::Option", "None", [])
            if n == "overflowing_add":
                return Tup([(x + y) & mask, x + y > mask])
            if n == "overflowing_sub":
                return Tup([(x - y) & mask, x < y])
            if n == "abs_diff":
                return abs(x - y)
    if n in ("from", "into") and len(a) == 1 and ("core::convert::From" in (fk.get("trait") or "") or "core::convert::Into" in (fk.get("trait") or "") or d.startswith("core::convert::num")):
        if re_int_conv(fk.i) or d.startswith("core::convert::num::<impl core::convert::From<"):
            return a[0]
    if d in ("core::cmp::min", "core::cmp::Ord::min") and len(a) == 2:
        return min(a)
    if d in ("core::cmp::max", "core::cmp::Ord::max") and len(a) == 2:
        return max(a)
    return NotImplemented


def re_int_conv(inst):
    """`<usize as From<u8>>::from`-style lossless integer conversions"""
    import re
    ints = r"(?:u8|u16|u32|u64|u128|usize|i8|i16|i32|i64|i128|isize|bool)"
    return re.match(r"^<%s as core::convert::(?:From|Into)<%s>>::(?:from|into)$" % (ints, ints), inst or "") is not None


def same_module_inline(F, root_path):
    """Inlining policy: crate-local callees defined in the same source file as the analysed function (where an extracted
    helper lives) are analysed in place whenever the domain has no transfer function for them."""
    def file_of(p):
        b = F.bodies.get(p)
        return ((b.rec.get("span") or {}).get("file")) if b is not None else None
    m = file_of(root_path)
    return lambda d: m is not None and file_of(d) == m


def call_value(ex, f, fargs):
    """Apply a closure / fn item value to abstract arguments inside the current analysis; → joined result value."""
    if isinstance(f, Ref):
        f = deref_value(ex, f)
    body = None
    args = None
    if isinstance(f, Adt) and isinstance(f.name, str) and f.name.startswith("closure:"):
        body = ex.F.bodies.get(f.name[len("closure:"):])
        args = [f] + list(fargs)
    elif isinstance(f, tuple) and len(f) == 2 and f[0] == "fnref":
        fk = f[1]
        r = ex.domain.call(ex, fk, list(fargs), {"span": {}}, None) if False else NotImplemented
        body = ex.F.bodies.get(fk.d)
        args = list(fargs)
    if body is None:
        return TOP
    sub = AbsExec(ex.F, ex.domain, ex.max_steps, ex.max_paths, ex.inline)
    sub.steps = ex.steps
    sub.depth = getattr(ex, "depth", 0) + 1
    sub.generic_ints = getattr(ex, "generic_ints", [])
    sub.inline_stack = getattr(ex, "inline_stack", ())
    sub.root_path = getattr(ex, "root_path", None)
    if sub.depth > 12:
        raise FactsError("closure nesting too deep")
    rs = sub.run_shared(body, args)
    ex.steps = sub.steps
    if hasattr(ex.domain, "select_inline_results"):
        rs = ex.domain.select_inline_results(ex, rs)
    vals = [r[0] for r in rs]
    if not vals:
        return TOP
    if all(_same(v, vals[0]) for v in vals):
        return vals[0]
    return ex.domain.join(ex, vals) if hasattr(ex.domain, "join") else TOP


def closure_builtin(ex, fk, args, term, fr):
    """Option / Result / iterator combinators that take a closure, on values whose variant (or literal iteration space) is known."""
    n, d = fk.name, fk.d
    if not args:
        return NotImplemented
    v0 = deref_value(ex, args[0])
    if n in ("call", "call_mut", "call_once") and (fk.get("trait") or "").startswith(("core::ops::function::Fn", "core::ops::Fn")) and d.startswith("core::ops") and len(args) == 2:
        # a local closure (or fn item) called directly: `absorb(f, idx)`
        f = v0
        packed = deref_value(ex, args[1])
        if ((isinstance(f, Adt) and isinstance(f.name, str) and f.name.startswith("closure:")) or (isinstance(f, tuple) and len(f) == 2 and f[0] == "fnref")) and isinstance(packed, Tup):
            return call_value(ex, args[0] if isinstance(f, Adt) else f, list(packed.items))
        return NotImplemented
    if isinstance(v0, Adt) and v0.name in ("core::option::Option", "core::result::Result") and isinstance(v0.variant, str):
        good = v0.variant in ("Some", "Ok")
        if n == "map" and len(args) == 2:
            return Adt(v0.name, v0.variant, [call_value(ex, args[1], [v0.fields[0]])]) if good else v0
        if n == "and_then" and len(args) == 2:
            return call_value(ex, args[1], [v0.fields[0]]) if good else v0
        if n == "map_err" and len(args) == 2 and v0.name == "core::result::Result":
            return v0 if good else Adt(v0.name, v0.variant, [call_value(ex, args[1], list(v0.fields[:1]))])
        if n == "unwrap_or_else" and len(args) == 2:
            return v0.fields[0] if good else call_value(ex, args[1], [] if v0.name == "core::option::Option" else list(v0.fields[:1]))
        if n == "ok_or_else" and len(args) == 2 and v0.name == "core::option::Option":
            return Adt("core::result::Result", "Ok", [v0.fields[0]]) if good else Adt("core::result::Result", "Err", [call_value(ex, args[1], [])])
        if n == "ok_or" and len(args) == 2 and v0.name == "core::option::Option":
            return Adt("core::result::Result", "Ok", [v0.fields[0]]) if good else Adt("core::result::Result", "Err", [args[1]])
        if n == "ok" and v0.name == "core::result::Result":
            return Adt("core::option::Option", "Some", [v0.fields[0]]) if good else Adt("core::option::Option", "None", [])
    if isinstance(v0, Adt) and v0.name == "core::option::Option" and isinstance(v0.variant, tuple) and v0.variant and v0.variant[0] == "?" and n == "map" and len(args) == 2 and v0.fields:
        # Some-ness still depends on an abstract predicate: the payload is mapped, the predicate stays
        return Adt(v0.name, v0.variant, [call_value(ex, args[1], [v0.fields[0]])])
    it = _as_iter(v0) if not isinstance(v0, CoreIter) else v0
    if it is not None and (d.startswith("core::iter") or "Iterator" in d):
        rest = it.items[it.pos:]
        if n == "fold" and len(args) == 3:
            acc = args[1]
            for x in rest:
                acc = call_value(ex, args[2], [acc, x])
            return acc
        if n == "for_each" and len(args) == 2:
            for x in rest:
                call_value(ex, args[1], [x])
            return Tup([])
        if n == "map" and len(args) == 2:
            return CoreIter([call_value(ex, args[1], [x]) for x in rest])
        if n == "zip" and len(args) == 2:
            other = deref_value(ex, args[1])
            o = _as_iter(other) if not isinstance(other, CoreIter) else other
            if o is not None:
                return CoreIter([Tup([a, b]) for a, b in zip(rest, o.items[o.pos:])])
    return NotImplemented
