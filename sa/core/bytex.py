"""Byte-provenance abstract machine for the conversion layer (DESIGN §13.7).

An explicit-stack, path-forking abstract interpreter over the MIR of the encode / decode functions. Its value domain:

  * integers and booleans that are literal in the program (lengths, indices, loop counters, tag bytes) — concrete;
  * byte buffers as tuples of *cells*; a cell is a literal byte or a provenance tag `T('in', i)` (i-th input byte),
    `T('be', v, k)` (k-th byte of the big-endian image of the opaque integer v), ...;
  * every other value is an uninterpreted term `T(head, ...)` recording which function produced it from what —
    never a number, never evaluated;
  * a call into the arithmetic layers (no byte buffer in its signature, defined outside the API file) is an
    uninterpreted function: a boolean / Option / Result it returns forks the path and the choice is recorded as an
    atom of the path condition.

Loops run only as far as their literal bounds take them; a loop whose continuation depends on an opaque value ends the
analysis of that function with an explicit "undecided" outcome (fail closed). Nothing of the analysed program is executed:
the only arithmetic performed is on the literals above.
"""
import re
from .facts import FactsError
from .terms import _fnkey, FnKey

MAX_STEPS = 400000
MAX_STATES = 6000
MAX_SECONDS = 15          # wall-clock budget of one abstract run (path conditions of deep terms make late forks slow): undecided beyond it, never a hang


class T(tuple):
    """Uninterpreted term."""
    def __new__(cls, *xs):
        return tuple.__new__(cls, xs)

    def __repr__(self):
        h = self[0]
        if h == "in":
            return "in[%s]" % (self[1],)
        if h == "be":
            return "be(%r)[%s]" % (self[1], self[2])
        if h == "call":
            return "%s(%s)" % (self[1].split("::")[-1] if isinstance(self[1], str) else self[1], ", ".join(repr(a) for a in self[3]))
        if h == "field":
            return "%r.%s" % (self[1], self[3] if len(self) > 3 and self[3] else self[2])
        if h == "payload":
            return "%s?(%r)" % (self[2], self[1])
        return "%s(%s)" % (h, ", ".join(repr(a) for a in self[1:]))


TOP = T("top")


class Tup(tuple):
    """tuple / array value"""
    def __new__(cls, items):
        return tuple.__new__(cls, tuple(items))

    def __repr__(self):
        if len(self) > 8:
            return "[%s, … ×%d]" % (", ".join(repr(x) for x in self[:3]), len(self))
        return "[%s]" % ", ".join(repr(x) for x in self)


class Adt:
    __slots__ = ("name", "variant", "fields")

    def __init__(self, name, variant, fields):
        self.name, self.variant, self.fields = name, variant, tuple(fields)

    def __repr__(self):
        return "%s%s(%s)" % (self.name.split("::")[-1], ("::" + self.variant) if self.variant else "", ", ".join(repr(f) for f in self.fields))

    def __eq__(self, o):
        return isinstance(o, Adt) and (self.name, self.variant, self.fields) == (o.name, o.variant, o.fields)

    def __hash__(self):
        return hash((self.name, self.variant, self.fields))


class Ref:
    """pointer to a place of a live frame: (frame index, local, projection); projection elements are ('f', i), ('i', n)
    and ('sub', start, len) for a sub-slice view"""
    __slots__ = ("fi", "local", "proj")

    def __init__(self, fi, local, proj=()):
        self.fi, self.local, self.proj = fi, local, tuple(proj)

    def __repr__(self):
        return "&f%d._%d%s" % (self.fi, self.local, "".join("[%s]" % (p,) for p in self.proj))

    def __eq__(self, o):
        return isinstance(o, Ref) and (self.fi, self.local, self.proj) == (o.fi, o.local, o.proj)

    def __hash__(self):
        return hash((self.fi, self.local, self.proj))


class FnRef:
    __slots__ = ("fk",)

    def __init__(self, fk):
        self.fk = fk

    def __repr__(self):
        return "fn(%s)" % self.fk.i


class Iter:
    """an iterator over a literal iteration space; immutable"""
    __slots__ = ("items", "pos")

    def __init__(self, items, pos=0):
        self.items, self.pos = tuple(items), pos

    def rest(self):
        return self.items[self.pos:]

    def __repr__(self):
        return "Iter(%d@%d)" % (len(self.items), self.pos)


class Frm:
    __slots__ = ("body", "env", "bb", "dest", "ret_bb", "gints", "wrap", "inst")

    def __init__(self, body, env, bb=0, dest=None, ret_bb=None, gints=(), wrap=None, inst=None):
        self.body, self.env, self.bb, self.dest, self.ret_bb, self.gints, self.wrap, self.inst = body, env, bb, dest, ret_bb, gints, wrap, inst

    def clone(self):
        return Frm(self.body, dict(self.env), self.bb, self.dest, self.ret_bb, self.gints, self.wrap, self.inst)


class State:
    __slots__ = ("frames", "pc", "steps")

    def __init__(self, frames, pc=(), steps=0):
        self.frames, self.pc, self.steps = frames, pc, steps

    def clone(self):
        return State([f.clone() for f in self.frames], self.pc, self.steps)


class Outcome:
    """how one path ended"""
    def __init__(self, kind, value, pc, site=None, detail=None, roots=None, calls=None):
        self.kind = kind        # 'return' | 'panic' | 'undecided'
        self.value = value
        self.pc = pc            # tuple of (atom term, choice)
        self.site = site        # (fn path, bb, what)
        self.detail = detail
        self.roots = roots or {}
        self.calls = calls or ()

    def __repr__(self):
        return "<%s %r pc=%d%s>" % (self.kind, self.value, len(self.pc), (" @%s" % (self.site,)) if self.site else "")


class Stop(Exception):
    def __init__(self, outcome_kind, site, detail):
        self.kind, self.site, self.detail = outcome_kind, site, detail


PANIC_PREFIXES = ("core::panicking", "core::option::unwrap_failed", "core::option::expect_failed", "core::result::unwrap_failed",
                  "core::slice::index::slice_", "core::str::slice_error_fail", "std::rt::begin_panic", "core::panic", "alloc::raw_vec::capacity_overflow",
                  "core::slice::<impl [T]>::copy_from_slice::len_mismatch_fail", "core::array::", "core::cell::panic")
INT_BITS = {"u8": 8, "u16": 16, "u32": 32, "u64": 64, "usize": 64, "u128": 128, "i8": 8, "i16": 16, "i32": 32, "i64": 64, "isize": 64, "i128": 128}
CORE_VARIANTS = {"core::option::Option": ["None", "Some"], "core::result::Result": ["Ok", "Err"], "core::ops::ControlFlow": ["Continue", "Break"],
                 "core::ops::control_flow::ControlFlow": ["Continue", "Break"]}


def shape_bytes(ty, b):
    """value of a constant of array-of-integers type from its memory image (little-endian target)"""
    ty = ty.strip()
    if ty in INT_BITS:
        n = INT_BITS[ty] // 8
        return int.from_bytes(b[:n], "little", signed=ty.startswith("i")) if len(b) >= n else None
    m = re.match(r"^\[(.*); (\d+)\]$", ty)
    if m:
        n = int(m.group(2))
        if n == 0:
            return Tup([])
        if len(b) % n:
            return None
        k = len(b) // n
        items = [shape_bytes(m.group(1), b[i * k:(i + 1) * k]) for i in range(n)]
        return None if any(x is None for x in items) else Tup(items)
    return None


def ty_head(ty):
    if not ty:
        return None
    ty = ty.strip()
    while ty.startswith("&"):
        ty = ty[1:].strip()
        if ty.startswith("mut "):
            ty = ty[4:].strip()
    depth = 0
    for i, ch in enumerate(ty):
        if ch == "<" and depth == 0:
            return ty[:i]
        if ch in "([":
            depth += 1
    return ty


def mentions_bytes(ty):
    return bool(ty) and ("[u8" in ty or "Vec<u8>" in ty)


class Machine:
    """policy: callable(body) -> True to analyse a crate-local callee in place; everything else is uninterpreted."""
    def __init__(self, F, policy, models=None):
        self.F = F
        self.policy = policy
        self.models = models or {}
        self.out = []
        self.nstates = 0
        self.steps = 0
        self.calls_seen = set()
        self.sites = {}          # (fn path, bb) -> {'kind', 'ok': visits decided true, 'unknown': visits with opaque operands, 'fail': visits decided false}

    # ------------------------------------------------------------------ entry
    def run(self, body, args, holders=(), inst=None, gints=None):
        """args: values of the parameters; holders: values placed in the root holder frame (index 0), addressed by
        Ref(0, k)."""
        root = Frm(None, {k: v for k, v in enumerate(holders)})
        env = {i + 1: a for i, a in enumerate(args)}
        st = State([root, Frm(body, env, 0, None, None, tuple(gints) if gints is not None else self._gints_of(body, None), None, inst or body.rec["path"])])
        self.out = []
        work = [st]
        import time as _time
        self._deadline = _time.time() + getattr(self, "max_seconds", MAX_SECONDS)
        while work:
            s = work.pop()
            self.nstates += 1
            if self.nstates > getattr(self, "max_states", MAX_STATES) or self.steps > getattr(self, "max_steps", MAX_STEPS) or _time.time() > self._deadline:
                self.out.append(Outcome("undecided", None, s.pc, (body.rec["path"], 0, "budget"), "abstract execution budget exceeded"))
                break
            try:
                forks = self._run_state(s)
            except Stop as e:
                self.out.append(Outcome(e.kind, None, s.pc, e.site, e.detail, roots=dict(s.frames[0].env), calls=frozenset(self.calls_seen)))
                continue
            work.extend(forks)
        return self.out

    def _gints_of(self, body, fk):
        if fk is not None:
            gi = [int(x) for x in re.findall(r"<(\d+)(?:_usize)?>", fk.i)] or [int(x) for x in (fk.get("args") or []) if isinstance(x, str) and x.isdigit()]
            return tuple(gi)
        return ()

    # ------------------------------------------------------------------ places
    def _get(self, s, fi, local):
        return s.frames[fi].env.get(local, TOP)

    def deref(self, s, v):
        """value a reference designates"""
        if isinstance(v, Ref):
            return self._proj_val(s, self._get(s, v.fi, v.local), v.proj)
        return v

    def _proj_val(self, s, v, proj):
        for e in proj:
            v = self._proj1(s, v, e)
        return v

    def _proj1(self, s, v, e):
        if isinstance(v, Ref):
            # a reference stored in the place: project through it
            return self._proj1(s, self.deref(s, v), e)
        k = e[0]
        if k == "f":
            if isinstance(v, Tup) and e[1] < len(v):
                return v[e[1]]
            if isinstance(v, Adt) and e[1] < len(v.fields):
                return v.fields[e[1]]
            if isinstance(v, T) and v != TOP:
                return T("field", v, e[1], e[2] if len(e) > 2 else None)
            return TOP
        if k == "i":
            if isinstance(v, Tup) and isinstance(e[1], int) and 0 <= e[1] < len(v):
                return v[e[1]]
            if isinstance(v, T) and v != TOP:
                return T("idx", v[1] if v[0] == "array" else v, e[1])
            return TOP
        if k == "sub":
            if isinstance(v, Tup):
                return Tup(v[e[1]:e[1] + e[2]])
            return TOP
        return TOP

    def _upd(self, s, cur, proj, val):
        if not proj:
            return val
        e = proj[0]
        k = e[0]
        if isinstance(cur, Ref):
            # writing through a reference held in a place
            self.store(s, Ref(cur.fi, cur.local, cur.proj + tuple(proj)), val)
            return cur
        if k == "f":
            i = e[1]
            if isinstance(cur, Tup):
                items = list(cur)
                while len(items) <= i:
                    items.append(TOP)
                items[i] = self._upd(s, items[i], proj[1:], val)
                return Tup(items)
            if isinstance(cur, Adt):
                fs = list(cur.fields)
                while len(fs) <= i:
                    fs.append(TOP)
                fs[i] = self._upd(s, fs[i], proj[1:], val)
                return Adt(cur.name, cur.variant, fs)
            fs = [T("field", cur, j, None) if isinstance(cur, T) and cur != TOP else TOP for j in range(i + 1)]
            fs[i] = self._upd(s, fs[i], proj[1:], val)
            return Adt("opaque", None, fs)
        if k == "i":
            if isinstance(cur, Tup) and isinstance(e[1], int) and 0 <= e[1] < len(cur):
                items = list(cur)
                items[e[1]] = self._upd(s, items[e[1]], proj[1:], val)
                return Tup(items)
            return TOP
        if k == "sub":
            if isinstance(cur, Tup):
                items = list(cur)
                seg = self._upd(s, Tup(items[e[1]:e[1] + e[2]]), proj[1:], val)
                if isinstance(seg, Tup) and len(seg) == e[2]:
                    items[e[1]:e[1] + e[2]] = list(seg)
                    return Tup(items)
            return TOP
        return TOP

    def store(self, s, ref, val):
        fr = s.frames[ref.fi]
        cur = fr.env.get(ref.local, TOP)
        fr.env[ref.local] = self._upd(s, cur, list(ref.proj), val)

    def _place_ref(self, s, fi, pl):
        """Ref designating a MIR place of frame fi (following the derefs in its projection)."""
        fr = s.frames[fi]
        cur = Ref(fi, pl["l"], ())
        for k, e in enumerate(pl["p"]):
            if e == "deref":
                v = self.deref(s, cur)
                if isinstance(v, Ref):
                    cur = v
                else:
                    return None, v      # pointer to something we only know as a value
            elif isinstance(e, dict) and "f" in e:
                cur = Ref(cur.fi, cur.local, cur.proj + (("f", e["f"], self._fname(fr.body, pl, k)),))
            elif isinstance(e, dict) and "idx" in e:
                i = fr.env.get(e["idx"], TOP)
                cur = Ref(cur.fi, cur.local, cur.proj + (("i", i),))
            elif isinstance(e, dict) and "cidx" in e:
                if e.get("from_end"):
                    base = self.deref(s, cur)
                    n = len(base) if isinstance(base, Tup) else None
                    cur = Ref(cur.fi, cur.local, cur.proj + (("i", (n - e["cidx"]) if n is not None else TOP),))
                else:
                    cur = Ref(cur.fi, cur.local, cur.proj + (("i", e["cidx"]),))
            elif isinstance(e, dict) and "sub_from" in e:
                base = self.deref(s, cur)
                n = len(base) if isinstance(base, Tup) else None
                if n is None:
                    return None, TOP
                to = (n - e["sub_to"]) if e.get("from_end") else e["sub_to"]
                cur = Ref(cur.fi, cur.local, cur.proj + (("sub", e["sub_from"], to - e["sub_from"]),))
            elif isinstance(e, dict) and "down" in e:
                pass
            else:
                return None, TOP
        return cur, None

    def read_place(self, s, fi, pl):
        r, v = self._place_ref(s, fi, pl)
        if r is None:
            # value-only pointer: apply the remaining projections on the value
            return self._read_by_value(s, fi, pl)
        return self.deref(s, r)

    def _read_by_value(self, s, fi, pl):
        fr = s.frames[fi]
        v = fr.env.get(pl["l"], TOP)
        for k, e in enumerate(pl["p"]):
            if e == "deref":
                v = self.deref(s, v)
            elif isinstance(e, dict) and "f" in e:
                v = self._proj1(s, v, ("f", e["f"], self._fname(fr.body, pl, k)))
            elif isinstance(e, dict) and "idx" in e:
                v = self._proj1(s, v, ("i", fr.env.get(e["idx"], TOP)))
            elif isinstance(e, dict) and "cidx" in e and not e.get("from_end"):
                v = self._proj1(s, v, ("i", e["cidx"]))
            elif isinstance(e, dict) and "down" in e:
                pass
            else:
                v = TOP
        return v

    def write_place(self, s, fi, pl, val):
        r, _ = self._place_ref(s, fi, pl)
        if r is None:
            return
        self.store(s, r, val)

    def _fname(self, body, pl, k):
        """name of the field selected by projection element k of a MIR place (from the container's ADT definition)"""
        key = (id(body), pl["l"], k, str(pl["p"][:k + 1]))
        c = self.__dict__.setdefault("_fn_cache", {})
        if key in c:
            return c[key]
        from .sm9 import place_types
        name = None
        try:
            cty = place_types(body, {"l": pl["l"], "p": pl["p"][:k]})[-1]
            adt = self.F.adts.get(ty_head(cty))
            down = [e for e in pl["p"][:k] if isinstance(e, dict) and "down" in e]
            vi = down[-1]["down"] if down else 0
            if adt and vi < len(adt["variants"]) and pl["p"][k]["f"] < len(adt["variants"][vi]["fields"]):
                name = adt["variants"][vi]["fields"][pl["p"][k]["f"]]["name"]
        except Exception:
            name = None
        c[key] = name
        return name

    # ------------------------------------------------------------------ operands / rvalues
    def operand(self, s, fi, op):
        k = op.get("k")
        if k in ("copy", "move"):
            return self.read_place(s, fi, op["place"])
        if k == "const":
            return self.const(s, fi, op)
        return TOP

    def const(self, s, fi, op):
        if "int" in op:
            v = int(op["int"])
            return bool(v) if op.get("ty") == "bool" else v
        if "fn" in op:
            fk = FnKey(op["fn"])
            inst = s.frames[fi].inst
            if inst and fk.d not in self.F.bodies:
                # a function item named through a type parameter (`W::wrap` in `fn lift<W: Wrapper>`): inside the monomorphic
                # instance being executed it is the one item of that name the compiler resolved for this instance
                refs = [r for r in ((self.F.instances.get(inst) or {}).get("refs") or []) if (r.get("def") or "").rsplit("::", 1)[-1] == fk.name and r.get("def") in self.F.bodies]
                if len({r["def"] for r in refs}) == 1:
                    rb = self.F.bodies[refs[0]["def"]]
                    fk = FnKey(dict(op["fn"], **{"def": refs[0]["def"], "inst": refs[0].get("inst") or refs[0]["def"], "res_def": refs[0]["def"], "res_inst": refs[0].get("inst") or refs[0]["def"],
                                                   "local": True, "res_local": True, "name": rb.name or fk.name}))
            return FnRef(fk)
        if "tyconst" in op:
            g = s.frames[fi].gints
            if len(g) == 1:
                return g[0]
            return TOP
        if op.get("zst"):
            return Tup(())
        for key in ("slice_hex", "mem_hex"):
            if key in op:
                b = bytes.fromhex(op[key])
                off = int(op.get("mem_off", 0) or 0)
                return Tup(list(b[off:]))
        if "uneval_def" in op and "promoted" not in op:
            c = self.F.consts.get(op["uneval_def"])
            if (not c or "int" not in c) and s.frames[fi].inst:
                tv = self.F.trait_const_in_instance(op["uneval_def"], s.frames[fi].inst)
                if tv is not None:
                    return bool(tv) if op.get("ty") == "bool" else tv
            if c:
                if "int" in c:
                    return int(c["int"])
                if "bytes_hex" in c:
                    # (the type as the use site spells it has its length evaluated: `[u64; 64]` where the item says `[u64; LIMB_BITS]`)
                    raw = bytes.fromhex(c["bytes_hex"])
                    for ty_ in (op.get("ty") or "", c.get("ty") or ""):
                        v = shape_bytes(ty_, raw)
                        if v is not None:
                            return v
                    tys = (op.get("ty") or c.get("ty") or "").strip()
                    if re.match(r"^\[u8; [^\]]+\]$", tys) or not tys.startswith("["):
                        return Tup(list(raw))
                    return T("const", op.get("text") or tys)         # an array of something wider than a byte: not a byte list
        if "promoted" in op:
            pb = self.F.promoted.get((op.get("uneval_def"), op["promoted"]))
            if pb is not None:
                sub = Machine(self.F, self.policy, self.models)
                outs = sub.run(pb, [], gints=s.frames[fi].gints)       # a promoted of a const-generic function sees its parameter
                if len(outs) == 1 and outs[0].kind == "return":
                    v = outs[0].value
                    # a promoted is a `&'static T`: keep the referent as a value
                    return v
            return T("const", op.get("text") or "promoted")
        if "static" in op:
            return T("static", op["static"])
        return T("const", op.get("text") or op.get("ty") or "?")

    def rvalue(self, s, fi, rv):
        k = rv["k"]
        if k == "use":
            return self.operand(s, fi, rv["op"])
        if k in ("ref", "rawptr"):
            r, v = self._place_ref(s, fi, rv["place"])
            if r is None:
                return self._read_by_value(s, fi, rv["place"]) if v is None or True else v
            return r
        if k == "cast":
            v = self.operand(s, fi, rv["op"])
            if isinstance(v, bool):
                return int(v)
            if isinstance(v, int):
                bits = INT_BITS.get(rv["ty"])
                if bits and not rv["ty"].startswith("i"):
                    return v & ((1 << bits) - 1)
                return v
            if isinstance(v, T) and rv["ty"] in INT_BITS and v != TOP:
                return T("cast", v, rv["ty"])
            if isinstance(v, Ref) and "Unsize" in str(rv.get("kind")):
                dv = self.deref(s, v)
                if isinstance(dv, T) and dv != TOP:
                    v = dv
            if isinstance(v, T) and v != TOP and v[0] != "array" and "Unsize" in str(rv.get("kind")) and rv["op"].get("k") in ("copy", "move"):
                # `&[T; N]` → `&[T]` of an opaque array: keep its length with it
                from .sm9 import place_types
                try:
                    sty = place_types(s.frames[fi].body, rv["op"]["place"])[-1]
                except Exception:
                    sty = ""
                mm = re.search(r"\[[A-Za-z0-9_:]+; (\d+)\]", sty or "")
                if mm and int(mm.group(1)) <= 64:
                    return T("array", v, int(mm.group(1)))
            return v
        if k == "binop":
            return self.binop(rv["op"], self.operand(s, fi, rv["a"]), self.operand(s, fi, rv["b"]), rv)
        if k == "unop":
            a = self.operand(s, fi, rv["a"])
            if rv["op"] == "Not":
                if isinstance(a, bool):
                    return not a
                if isinstance(a, int):
                    return ~a
                if isinstance(a, T) and a != TOP:
                    return T("not", a)
            if rv["op"] == "Neg" and isinstance(a, int):
                return -a
            if rv["op"] == "PtrMetadata":
                t = self.deref(s, a)
                if isinstance(t, Tup):
                    return len(t)
                return TOP
            return TOP
        if k == "aggregate":
            ops = [self.operand(s, fi, o) for o in rv["ops"]]
            if rv["agg"] in ("tuple", "array"):
                return Tup(ops)
            if rv["agg"] == "adt":
                return Adt(rv["adt"], rv["variant_name"], ops)
            if rv["agg"] == "closure":
                return Adt("closure:" + rv["closure"], None, ops)
            return TOP
        if k == "discr":
            v = self.read_place(s, fi, rv["place"])
            if isinstance(v, Adt):
                idx = self.variant_index(v.name, v.variant)
                return idx if idx is not None else TOP
            if isinstance(v, T) and v != TOP:
                return T("discr", v)        # which variant an opaque value is: the match forks over its arms
            return TOP
        if k == "repeat":
            v = self.operand(s, fi, rv["op"])
            n = rv["n"]
            if not str(n).isdigit():
                g = s.frames[fi].gints
                n = g[0] if len(g) == 1 else None
            if n is None or int(n) > 4096:
                return TOP
            return Tup([v] * int(n))
        if k == "len":
            v = self.read_place(s, fi, rv["place"])
            return len(v) if isinstance(v, Tup) else TOP
        return TOP

    def variant_index(self, adt, variant):
        vs = CORE_VARIANTS.get(adt)
        if vs and variant in vs:
            return vs.index(variant)
        if adt == "core::cmp::Ordering":
            return {"Less": -1, "Equal": 0, "Greater": 1}.get(variant)
        a = self.F.adts.get(adt)
        if a:
            for i, v in enumerate(a.get("variants", [])):
                if v.get("name") == variant:
                    return v.get("discr", i) if isinstance(v.get("discr", i), int) else i
        return None

    def binop(self, op, a, b, rv=None):
        if isinstance(a, bool):
            a = int(a)
        if isinstance(b, bool):
            b = int(b)
        wo = op.endswith("WithOverflow")
        o = op.replace("WithOverflow", "").replace("Unchecked", "")
        if isinstance(a, int) and isinstance(b, int):
            tbl = {"Add": lambda: a + b, "Sub": lambda: a - b, "Mul": lambda: a * b, "BitAnd": lambda: a & b, "BitOr": lambda: a | b,
                   "BitXor": lambda: a ^ b, "Shl": lambda: a << b, "Shr": lambda: a >> b, "Eq": lambda: a == b, "Ne": lambda: a != b,
                   "Lt": lambda: a < b, "Le": lambda: a <= b, "Gt": lambda: a > b, "Ge": lambda: a >= b,
                   "Div": lambda: a // b if b else TOP, "Rem": lambda: a % b if b else TOP}
            if o in tbl:
                v = tbl[o]()
                if wo:
                    ty = (rv or {}).get("ty_a") or "usize"
                    return Tup([v, not (0 <= v < 2 ** 64)]) if isinstance(v, int) else Tup([TOP, TOP])
                return v
        if (isinstance(a, T) and a != TOP) or (isinstance(b, T) and b != TOP):
            v = T("binop", o, a, b)
            return Tup([v, False]) if wo else v
        return Tup([TOP, TOP]) if wo else TOP

    # ------------------------------------------------------------------ execution of one state until it forks or ends
    def _run_state(self, s):
        while True:
            self.steps += 1
            s.steps += 1
            if self.steps > getattr(self, "max_steps", MAX_STEPS):
                raise Stop("undecided", None, "step budget")
            if (self.steps & 1023) == 0 and getattr(self, "_deadline", None) is not None:
                import time as _time
                if _time.time() > self._deadline:
                    raise Stop("undecided", None, "time budget")
            fi = len(s.frames) - 1
            fr = s.frames[fi]
            blk = fr.body.blocks[fr.bb]
            for st in blk["stmts"]:
                if st["k"] == "assign":
                    self.write_place(s, fi, st["place"], self.rvalue(s, fi, st["rv"]))
            t = blk["term"]
            k = t["k"]
            if k in ("goto", "drop"):
                fr.bb = t["target"]
                continue
            if k == "return":
                val = fr.env.get(0, TOP)
                if fr.wrap is not None:
                    val = fr.wrap(val)
                if fi == 1:
                    self.out.append(Outcome("return", self._freeze(s, val), s.pc, roots=dict(s.frames[0].env), calls=frozenset(self.calls_seen)))
                    return []
                val = self._escape(s, fi, val)
                s.frames.pop()
                caller = s.frames[-1]
                if fr.dest is not None:
                    self.write_place(s, len(s.frames) - 1, fr.dest, val)
                caller.bb = fr.ret_bb
                continue
            if k == "assert":
                c = self.operand(s, fi, t["cond"])
                rec = self.sites.setdefault((fr.body.rec["path"], fr.bb), {"kind": t["kind"], "ok": 0, "unknown": 0, "fail": 0})
                if isinstance(c, (bool, int)):
                    if bool(c) == bool(t["expected"]):
                        rec["ok"] += 1
                        fr.bb = t["target"]
                        continue
                    rec["fail"] += 1
                    raise Stop("panic", (fr.body.rec["path"], fr.bb, t["kind"]), "assertion %s fails" % t["kind"])
                # opaque operands: the check is outside this domain
                rec["unknown"] += 1
                self.note_unknown(s, (fr.body.rec["path"], fr.bb, t["kind"]))
                fr.bb = t["target"]
                continue
            if k == "switch":
                d = self.operand(s, fi, t["discr"])
                if isinstance(d, bool):
                    d = int(d)
                if isinstance(d, int):
                    nxt = t["otherwise"]
                    for val, tg in t["arms"]:
                        if int(val) == d:
                            nxt = tg
                    fr.bb = nxt
                    continue
                if not isinstance(d, T) or d == TOP:
                    raise Stop("undecided", (fr.body.rec["path"], fr.bb, "switch"), "branch on a value outside the domain")
                # opaque discriminant: fork, recording the choice
                outs = []
                seen_t = set()
                feas = None
                if d[0] == "discr" and getattr(self, "variant_oracle", None) is not None:
                    # which variants the producer of this value can hand out at all (its own analysis, per instance)
                    feas = self.variant_oracle(self, d[1])
                for val, tg in t["arms"]:
                    if feas is not None and int(val) not in feas:
                        continue
                    s2 = s.clone()
                    s2.frames[-1].bb = tg
                    s2.pc = s.pc + ((d, int(val)),)
                    outs.append(s2)
                ob = fr.body.blocks[t["otherwise"]]
                if not (ob["term"]["k"] == "unreachable" and not ob["stmts"]) and not (feas is not None and feas <= {int(v) for v, _ in t["arms"]}):
                    # (an `unreachable` default is the compiler's statement that the arms are exhaustive)
                    s2 = s.clone()
                    s2.frames[-1].bb = t["otherwise"]
                    s2.pc = s.pc + ((d, ("not", tuple(int(v) for v, _ in t["arms"]))),)
                    outs.append(s2)
                return outs
            if k == "call":
                res = self._call(s, fi, t)
                if res is not None:
                    return res
                continue
            if k in ("unreachable",):
                raise Stop("undecided", (fr.body.rec["path"], fr.bb, "unreachable"), "reached `unreachable`")
            raise Stop("undecided", (fr.body.rec["path"], fr.bb, k), "terminator %s" % k)

    def note_unknown(self, s, site):
        s.pc = s.pc + ((T("unchecked", site), 1),)

    def _freeze(self, s, v, depth=0):
        """replace references by what they designate (the value leaves the frames)"""
        if depth > 6:
            return v
        if isinstance(v, Ref):
            return self._freeze(s, self.deref(s, v), depth + 1)
        if isinstance(v, Tup):
            return Tup([self._freeze(s, x, depth + 1) for x in v])
        if isinstance(v, Adt):
            return Adt(v.name, v.variant, [self._freeze(s, x, depth + 1) for x in v.fields])
        return v

    def _escape(self, s, fi, v, depth=0):
        """a value returned from frame fi must not point into it"""
        if depth > 6:
            return v
        if isinstance(v, Ref):
            if v.fi >= fi:
                return self._escape(s, fi, self.deref(s, v), depth + 1)
            return v
        if isinstance(v, Tup):
            return Tup([self._escape(s, fi, x, depth + 1) for x in v])
        if isinstance(v, Adt):
            return Adt(v.name, v.variant, [self._escape(s, fi, x, depth + 1) for x in v.fields])
        if isinstance(v, Iter):
            return Iter([self._escape(s, fi, x, depth + 1) for x in v.items], v.pos)
        return v

    # ------------------------------------------------------------------ calls
    def _finish_call(self, s, fi, t, val):
        """write the result and advance; returns None (continue in the same state)"""
        fr = s.frames[fi]
        if t["target"] is None:
            raise Stop("panic", (fr.body.rec["path"], fr.bb, "diverging call"), "call does not return")
        self.write_place(s, fi, t["dest"], val)
        fr.bb = t["target"]
        return None

    def _fork_values(self, s, fi, t, alts):
        """alts: [(value, atom, choice)] — continue once per alternative"""
        outs = []
        # one answer per question and path: an opaque predicate / constructor that this path has already seen answered keeps
        # that answer (uninterpreted calls are terms of their frozen arguments, i.e. treated as functions of them)
        known = None
        for a0, c0 in s.pc:
            if alts and a0 == alts[0][1] and isinstance(a0, T) and a0[0] == "call":
                known = c0
        for val, atom, choice in alts:
            if known is not None and choice != known:
                continue
            s2 = s.clone()
            if isinstance(atom, tuple) and len(atom) == 2 and atom[0] == "__pcs__":
                # an alternative that stands for a whole sequence of answered questions (a combinator run element by element)
                extra = tuple(atom[1])
                if any(a1 == a0 and c1 != c0 for a1, c1 in extra for a0, c0 in s.pc if isinstance(a1, T) and a1[0] == "call"):
                    continue
                s2.pc = s.pc + extra
                self.write_place(s2, fi, t["dest"], val)
                s2.frames[fi].bb = t["target"]
                outs.append(s2)
                continue
            s2.pc = s.pc + ((atom, choice),)
            self.write_place(s2, fi, t["dest"], val)
            s2.frames[fi].bb = t["target"]
            outs.append(s2)
        return outs

    def dest_type(self, s, fi, t, fk):
        pl = t.get("dest")
        if pl and not pl["p"]:
            return s.frames[fi].body.locals[pl["l"]]["ty"]
        cb = self.F.bodies.get(fk.d)
        return cb.rec.get("output") if cb is not None else None

    def _call(self, s, fi, t):
        fr = s.frames[fi]
        fk = _fnkey(t.get("fn"), t)
        # inside a generic function analysed for one instance: the callee as resolved for that instance
        if fr.inst and t.get("fn") is not None:
            irec = self.F.instances.get(fr.inst)
            if irec and irec.get("expanded"):
                for c in irec["calls"]:
                    if c.get("bb") == fr.bb and c.get("def") and (c["def"] != fk.d or (c.get("inst") and c["inst"] != fk.i)):
                        nf = dict(t["fn"])
                        nf["res_def"], nf["res_inst"] = c["def"], c.get("inst") or c["def"]
                        fk = FnKey(nf)
                        break
        d = fk.d
        site = (fr.body.rec["path"], fr.bb, d)
        if any(d.startswith(p) for p in PANIC_PREFIXES) and t["target"] is None:
            raise Stop("panic", site, "explicit panic")
        args = [self.operand(s, fi, a) for a in t["args"]]
        if t.get("fn") is None:
            # call through a function value (closure / fn item held in a local)
            fop = t.get("func") or t.get("fn_operand")
            f = self.operand(s, fi, fop) if fop else TOP
            return self._invoke_value(s, fi, t, f, args)
        self.calls_seen.add(d)
        return self._invoke(s, fi, t, fk, args)

    def _invoke(self, s, fi, t, fk, args):
        fr = s.frames[fi]
        d = fk.d
        site = (fr.body.rec["path"], fr.bb, d)
        # 1. models
        r = self.model(s, fi, t, fk, args, site)
        if r is not NotImplemented:
            if isinstance(r, _Forks):
                return self._fork_values(s, fi, t, r.alts)
            if isinstance(r, _Push):
                return None
            return self._finish_call(s, fi, t, r)
        # 2. crate-local callee analysed in place
        cb = self.F.bodies.get(d)
        if cb is not None and self.policy(cb):
            self._push(s, fi, t, cb, args, fk)
            return None
        # 3. uninterpreted
        return self._uninterpreted(s, fi, t, fk, args, site)

    def _push(self, s, fi, t, cb, args, fk, wrap=None):
        if len(s.frames) > 40:
            raise Stop("undecided", None, "call depth")
        if t["target"] is None:
            # a diverging local function (never returns): treat as panic
            raise Stop("panic", (s.frames[fi].body.rec["path"], s.frames[fi].bb, cb.rec["path"]), "diverging callee")
        env = {i + 1: a for i, a in enumerate(args)}
        g = self._gints_of(cb, fk) or s.frames[fi].gints
        s.frames.append(Frm(cb, env, 0, t["dest"], t["target"], g, wrap, (fk.i if fk is not None else cb.rec["path"]) or cb.rec["path"]))

    def _uninterpreted(self, s, fi, t, fk, args, site):
        fr = s.frames[fi]
        fargs = tuple(self._freeze(s, a) for a in args)
        term = T("call", fk.d, fk.i, fargs)
        # whatever it was handed by `&mut` is now its to define
        for i, (aop, av) in enumerate(zip(t["args"], args)):
            if isinstance(av, Ref) and aop.get("k") in ("copy", "move") and not aop["place"]["p"] and fr.body.locals[aop["place"]["l"]]["ty"].startswith("&mut"):
                self.store(s, av, T("after", term, i))
        ty = self.dest_type(s, fi, t, fk) or ""
        h = ty_head(ty)
        if ty.strip() == "bool":
            return self._fork_values(s, fi, t, [(True, term, 1), (False, term, 0)])
        if h in CORE_VARIANTS and h != "core::ops::ControlFlow":
            vs = CORE_VARIANTS[h]
            alts = []
            for vn in vs:
                payload = [] if vn == "None" else [T("payload", term, vn)]
                alts.append((Adt(h, vn, payload), term, vn))
            return self._fork_values(s, fi, t, alts)
        if ty.strip() == "()":
            return self._finish_call(s, fi, t, Tup(()))
        return self._finish_call(s, fi, t, term)

    def _invoke_value(self, s, fi, t, f, args):
        if isinstance(f, Ref):
            f = self.deref(s, f)
        if isinstance(f, FnRef):
            # a function item that travelled here as a value (a `fn(..) -> ..` parameter): the call is the call of that item
            self.calls_seen.add(f.fk.d)
            return self._invoke(s, fi, t, f.fk, args)
        raise Stop("undecided", None, "indirect call")

    # ------------------------------------------------------------------ applying a function value (closure / fn item)
    def apply(self, s, fi, t, f, fargs, wrap):
        """Arrange for `f(fargs…)` to run and its result (passed through wrap) to become the result of call `t`."""
        if isinstance(f, Adt) and f.name.startswith("closure:"):
            cb = self.F.bodies.get(f.name[len("closure:"):])
            if cb is None:
                raise Stop("undecided", None, "closure body missing")
            # closures take (env, args…); args arrive as separate locals after the environment
            holder = len(s.frames[0].env)
            s.frames[0].env[holder] = f
            self._push(s, fi, t, cb, [Ref(0, holder)] + list(fargs), None, wrap)
            return _Push()
        if isinstance(f, FnRef):
            fk = f.fk
            cb = self.F.bodies.get(fk.d)
            if cb is not None and (self.policy(cb) or cb.rec["kind"] == "Ctor"):
                self._push(s, fi, t, cb, list(fargs), fk, wrap)
                return _Push()
            # model or uninterpreted function value: evaluate synchronously when it cannot fork
            depth = len(s.frames)
            r = self.model(s, fi, t, fk, list(fargs), None)
            if isinstance(r, _Push) and len(s.frames) == depth + 1:
                inner = s.frames[-1].wrap
                s.frames[-1].wrap = (lambda v, a=inner, b=wrap: b(a(v))) if inner is not None else wrap
                return r
            if r is not NotImplemented and not isinstance(r, (_Forks, _Push)):
                return wrap(r)
            if r is NotImplemented:
                term = T("call", fk.d, fk.i, tuple(self._freeze(s, a) for a in fargs))
                cbo = self.F.bodies.get(fk.d)
                out = (cbo.rec.get("output") if cbo is not None else "") or ""
                h = ty_head(out)
                if out.strip() == "bool":
                    return _Forks([(wrap(True), term, 1), (wrap(False), term, 0)])
                if h in CORE_VARIANTS and h != "core::ops::ControlFlow":
                    alts = []
                    for vn in CORE_VARIANTS[h]:
                        payload = [] if vn == "None" else [T("payload", term, vn)]
                        alts.append((wrap(Adt(h, vn, payload)), term, vn))
                    return _Forks(alts)
                if cbo is not None or h not in CORE_VARIANTS:
                    return wrap(term)
            raise Stop("undecided", None, "function value %s forks inside a combinator" % fk.d)
        raise Stop("undecided", None, "unknown function value")

    def call_sync(self, s, f, fargs):
        """Run a closure / fn item to completion on literal arguments (iterator adaptors over integer ranges)."""
        if isinstance(f, Adt) and f.name.startswith("closure:"):
            cb = self.F.bodies.get(f.name[len("closure:"):])
            if cb is None:
                return TOP
            sub = Machine(self.F, self.policy, self.models)
            outs = sub.run(cb, [Ref(0, 0)] + list(fargs), holders=[f])
            self.steps += sub.steps
            if len(outs) == 1 and outs[0].kind == "return":
                return outs[0].value
            return TOP
        if isinstance(f, FnRef):
            cb = self.F.bodies.get(f.fk.d)
            if cb is not None:
                sub = Machine(self.F, self.policy, self.models)
                outs = sub.run(cb, list(fargs))
                self.steps += sub.steps
                if len(outs) == 1 and outs[0].kind == "return":
                    return outs[0].value
        return TOP

    # ------------------------------------------------------------------ models of core / alloc / byteorder
    def model(self, s, fi, t, fk, args, site):
        from . import bytex_models
        return bytex_models.model(self, s, fi, t, fk, args, site)


class _Forks:
    def __init__(self, alts):
        self.alts = alts


class _Push:
    pass
