"""MIR pre-pass: calls to *newtype accessors / constructors* are replaced by the data movement they stand for.

A crate-local, non-generic function is transparent here when its whole body is one basic block ending in `return` whose
statements only move data around a single-field struct: references to / copies of `(*_1).0` (or `_1.0`), re-borrows of such
references, and the construction of a single-field struct from its one argument.  `fn inner(&self) -> &T { &self.0 }`,
`fn inner_mut(&mut self) -> &mut T { &mut self.0 }`, `fn into_inner(self) -> T { self.0 }` and `fn wrap(t: T) -> Self { Self(t) }`
are the members of the class.  A call to one of them — resolved by the compiler, so trait methods of a concrete type count —
is rewritten, in the caller, into the same statements on fresh locals followed by a `goto`; every engine (terms, abstract
execution, the byte machine) then sees exactly what it would have seen had the maintainer written `.0` / the tuple constructor.

The pass is semantics-preserving by construction (it is inlining of a function with no control flow, no call and no arithmetic),
and it is deliberately narrow: anything that is not pure single-field data movement is left as the call it is.
"""
import copy


def _single_field_structs(raw):
    out = set()
    for a in raw.get("adts", []):
        vs = a.get("variants") or []
        if a.get("kind") == "Struct" and len(vs) == 1 and len(vs[0].get("fields") or []) == 1 and not a.get("generic"):
            out.add(a["path"])
    return out


def _place_ok(pl, nlocals):
    if not isinstance(pl, dict) or not isinstance(pl.get("l"), int) or pl["l"] >= nlocals:
        return False
    for e in pl.get("p") or []:
        if e == "deref":
            continue
        if isinstance(e, dict) and set(e) <= {"f", "ty"} and e.get("f") == 0:
            continue
        return False
    return True


def _operand_ok(op, nlocals):
    if op.get("k") in ("copy", "move"):
        return _place_ok(op["place"], nlocals)
    return False


def transparent(rec, singles):
    """is this body pure single-field data movement? → bool"""
    if rec.get("kind") not in ("Fn", "AssocFn") or not rec.get("local", True) or rec.get("requires_mono") or rec.get("own_type_params"):
        return False
    mir = rec.get("mir") or {}
    blocks = mir.get("blocks") or []
    if len(blocks) != 1 or blocks[0]["term"]["k"] != "return" or mir.get("arg_count") != 1:
        return False
    n = len(mir.get("locals") or [])
    saw_field = False
    projects = builds = False
    for st in blocks[0]["stmts"]:
        if st["k"] in ("storage_live", "storage_dead", "nop", "fake_read"):
            continue
        if st["k"] != "assign" or not _place_ok(st["place"], n) or st["place"].get("p"):
            return False
        rv = st["rv"]
        if rv["k"] == "ref":
            if not _place_ok(rv["place"], n):
                return False
            saw_field |= any(isinstance(e, dict) for e in rv["place"].get("p") or [])
            projects |= any(isinstance(e, dict) for e in rv["place"].get("p") or [])
        elif rv["k"] == "use":
            if not _operand_ok(rv["op"], n):
                return False
            saw_field |= any(isinstance(e, dict) for e in rv["op"]["place"].get("p") or [])
            projects |= any(isinstance(e, dict) for e in rv["op"]["place"].get("p") or [])
        elif rv["k"] == "aggregate":
            if rv.get("agg") != "adt" or rv.get("adt") not in singles or len(rv.get("ops") or []) != 1 or not _operand_ok(rv["ops"][0], n):
                return False
            saw_field = True
            builds = True
        else:
            return False
    # the one parameter (or the value built) must be of a single-field struct: projections `.0` above are then the whole content
    ins = rec.get("inputs") or []
    out = (rec.get("output") or "").strip()

    def head(ty):
        ty = ty.strip()
        while ty.startswith("&"):
            ty = ty[1:].strip()
            if ty.startswith("'"):
                ty = ty.split(" ", 1)[1] if " " in ty else ty
            if ty.startswith("mut "):
                ty = ty[4:].strip()
        return ty
    if not saw_field or len(ins) != 1 or (projects and builds):
        return False
    return head(ins[0]) in singles if projects else head(out) in singles


def _rename_place(pl, base, ret):
    q = copy.deepcopy(pl)
    q["l"] = ret if pl["l"] == 0 else base + pl["l"]
    return q


def inline_transparent(raw):
    """rewrite every resolved call to a transparent function, in all bodies (and their promoteds) of the fact set; → number rewritten"""
    singles = _single_field_structs(raw)
    recs = {}
    for rec in raw.get("bodies", []):
        if transparent(rec, singles):
            recs[rec["path"]] = rec
    if not recs:
        return 0
    count = 0
    for rec in raw.get("bodies", []):
        if rec["path"] in recs:
            continue
        for mir in [rec.get("mir")] + list(rec.get("promoted") or []):
            if not mir:
                continue
            for blk in mir.get("blocks") or []:
                t = blk["term"]
                if t["k"] != "call" or t.get("target") is None:
                    continue
                fn = t.get("fn") or {}
                d = fn.get("res_def") if fn.get("res_def") in recs else fn.get("def") if (fn.get("def") in recs and not fn.get("res_def")) else None
                if d is None or len(t.get("args") or []) != 1:
                    continue
                cal = recs[d]["mir"]
                base = len(mir["locals"])
                # fresh copies of the callee's locals (its _0 becomes a fresh local too)
                for j, l in enumerate(cal["locals"]):
                    nl = copy.deepcopy(l)
                    mir["locals"].append(nl)
                ret = base            # callee local 0 ↦ caller local base+0
                span = t.get("span") or {}
                stmts = blk["stmts"]
                stmts.append({"k": "assign", "place": {"l": base + 1, "p": []}, "rv": {"k": "use", "op": copy.deepcopy(t["args"][0])}, "span": span})
                for st in cal["blocks"][0]["stmts"]:
                    if st["k"] != "assign":
                        continue
                    ns = {"k": "assign", "place": _rename_place(st["place"], base, ret), "span": span}
                    rv = copy.deepcopy(st["rv"])
                    if rv["k"] == "ref":
                        rv["place"] = _rename_place(rv["place"], base, ret)
                    elif rv["k"] == "use":
                        rv["op"]["place"] = _rename_place(rv["op"]["place"], base, ret)
                    elif rv["k"] == "aggregate":
                        for o in rv["ops"]:
                            o["place"] = _rename_place(o["place"], base, ret)
                    ns["rv"] = rv
                    stmts.append(ns)
                stmts.append({"k": "assign", "place": copy.deepcopy(t["dest"]), "rv": {"k": "use", "op": {"k": "move", "place": {"l": ret, "p": []}}}, "span": span})
                blk["term"] = {"k": "goto", "target": t["target"], "span": span}
                count += 1
    return count
