"""Value-set analysis of the byte-conversion layer (DESIGN §4.C value-set domain, §4.D).

Abstract state: the length of the one input slice (an explicit integer drawn from a finite partition
of [0,∞) that splits at every constant the code compares a length with) and, optionally, the first
input byte (all 256 values). Everything else (field values, results of arithmetic predicates) is
opaque: both outcomes are explored. Branch conditions, overflow / bounds assertions and the
preconditions of slice primitives that depend only on (length, first byte) are evaluated in the
analyser; the repository's code is never run.
"""
import re
from .terms import TermBuilder, strip, alts, show, _fnkey
from .facts import FactsError

OKISH = {"Some", "Ok", "Continue"}
ERRISH = {"None", "Err", "Break"}
VARIANT_INDEX = {
    "core::option::Option": {"None": 0, "Some": 1},
    "core::result::Result": {"Ok": 0, "Err": 1},
    "core::ops::ControlFlow": {"Continue": 0, "Break": 1},
}
PANIC_FNS = ("core::panicking::", "core::option::unwrap_failed", "core::option::expect_failed", "core::result::unwrap_failed")


class Unk(Exception):
    pass


EXHAUSTED = ("exhausted",)
OPAQUE = ("opaque",)


def adt_head(ty):
    if ty is None:
        return None
    m = re.match(r"^([A-Za-z0-9_:]+)", ty)
    return m.group(1) if m else None


def array_len(ty):
    if not ty:
        return None
    ty = ty.strip()
    while ty.startswith("&"):
        ty = ty[1:].strip()
        if ty.startswith("mut "):
            ty = ty[4:]
    m = re.match(r"^\[u8; (\d+)\]$", ty) or re.match(r"^\[[a-z0-9]+; (\d+)\]$", ty)
    return int(m.group(1)) if m else None


def is_slice_ref(ty):
    ty = ty.strip()
    return ty in ("&[u8]", "&mut [u8]")


class Outcome:
    def __init__(self):
        self.variants = set()     # variant names returned (for Option/Result outputs) or {'ret'}
        self.panics = []          # (kind, site, detail)  — concrete: reached for this (len, byte0)
        self.unknown = []         # (kind, site)          — could not be decided in this domain
        self.calls = set()        # callee definition paths that some explored path executes (transitively through summaries)
        self.sites = set()        # (fn, bb) of every assertion / partial primitive / unwrap that was examined


class LenSim:
    def __init__(self, repo, type_of_term):
        self.repo = repo
        self.F = repo.F
        self.type_of_term = type_of_term
        self._summary = {}
        self._inprogress = set()
        self.consts_seen = {}
        self.variants_hook = None
        self.force = None         # {callee name: 0/1}: opaque boolean calls pinned for a truth-table row

    # ------------------------------------------------------------------ domain
    def slice_param(self, body):
        ins = body.rec.get("inputs") or []
        idx = [i + 1 for i, t in enumerate(ins) if is_slice_ref(t)]
        return idx[0] if len(idx) == 1 else None

    def fixed_shape(self, body):
        """A function of the conversion layer without a slice parameter: some parameter is a byte array (by ref or value)."""
        ins = body.rec.get("inputs") or []
        if body.rec["kind"] not in ("Fn", "AssocFn") or body.rec.get("requires_mono"):
            return False
        return any(array_len(x) is not None for x in ins) or any(array_len(l["ty"]) is not None and not l["ty"].startswith("&") for l in body.locals)

    def length_constants(self, body, depth=0, seen=None):
        """Integer constants that may be compared with a length in body and its slice-taking local callees."""
        seen = seen if seen is not None else set()
        if body.path in seen or depth > 6:
            return set()
        seen.add(body.path)
        out = set()
        for blk in body.blocks:
            for st in blk["stmts"]:
                if st["k"] == "assign":
                    for op in _ops(st["rv"]):
                        if op.get("k") == "const" and "int" in op and op.get("ty") in ("usize", "u32", "u64", "i32", "isize"):
                            try:
                                v = int(op["int"])
                            except (TypeError, ValueError):
                                continue
                            if 0 <= v <= 4096:
                                out.add(v)
            t = blk["term"]
            if t["k"] == "switch":
                for a in t["arms"]:
                    try:
                        v = int(a[0])
                    except (TypeError, ValueError):
                        continue
                    if 0 <= v <= 4096:
                        out.add(v)
            if t["k"] == "call" and "fn" in t:
                d = t["fn"].get("res_def") or t["fn"].get("def")
                cb = self.F.bodies.get(d)
                if cb is not None and (self.slice_param(cb) or any(array_len(x) for x in (cb.rec.get("inputs") or []))):
                    out |= self.length_constants(cb, depth + 1, seen)
        return out

    def length_domain(self, body):
        cs = self.length_constants(body)
        dom = set()
        for c in cs:
            for d in (-1, 0, 1):
                if c + d >= 0:
                    dom.add(c + d)
        dom.add(0)
        dom.add(max(dom) + 7 if dom else 7)
        return sorted(dom)

    # ------------------------------------------------------------------ summaries
    def summary(self, path):
        """{len: Outcome} for a local function with exactly one slice parameter (merged over the first byte)."""
        if path in self._summary:
            return self._summary[path]
        body = self.F.bodies.get(path)
        if body is None or path in self._inprogress:
            return None
        if self.slice_param(body) is None:
            if not self.fixed_shape(body):
                return None
            self._inprogress.add(path)
            try:
                self._summary[path] = {None: self.run(body, None, None)}
            finally:
                self._inprogress.discard(path)
            return self._summary[path]
        self._inprogress.add(path)
        try:
            res = {}
            for n in self.length_domain(body):
                res[n] = self.run(body, n, None)
            self._summary[path] = res
        finally:
            self._inprogress.discard(path)
        return res

    def lookup(self, summ, n):
        """Outcome for length n: exact member of the partition, else the class representative."""
        if None in summ:
            return summ[None]
        if n in summ:
            return summ[n]
        keys = sorted(summ)
        # n lies strictly between two sampled points or above all: same class as the nearest sampled interior point
        bigger = [k for k in keys if k > n]
        smaller = [k for k in keys if k < n]
        if not bigger:
            return summ[keys[-1]]
        # between smaller[-1] and bigger[0], both sampled => every constant c has c-1,c,c+1 sampled, so n is interior
        return summ[smaller[-1]] if smaller else summ[bigger[0]]

    # ------------------------------------------------------------------ one abstract run
    def run(self, body, n, byte0):
        tb = self.repo.tb(body)
        sp = self.slice_param(body)
        env = {"len": n, "byte0": byte0, "sp": sp, "body": body, "tb": tb, "cur": {}}
        out = Outcome()
        out_ty = adt_head(body.rec.get("output"))
        iter_info = self.iterator_info(body, tb)      # next-call bb -> (iterator local, elements | None)
        iter_defs = {}                                  # bb -> iterator locals (re)defined there
        for nbb, (L, elems) in iter_info.items():
            for bb2, evs in tb.events.items():
                for idx, root, rec in evs:
                    if root == L and rec["kind"] in ("assign", "call"):
                        iter_defs.setdefault(bb2, set()).add(L)
        # DFS over (bb, last definition of _0, iterator positions)
        start = (0, None, frozenset())
        seen = set()
        stack = [start]
        steps = 0
        while stack:
            state = stack.pop()
            if state in seen:
                continue
            seen.add(state)
            steps += 1
            if steps > 60000:
                out.unknown.append(("state-explosion", (body.rec["path"], 0, "")))
                break
            bb, last0, iters = state
            itd = dict(iters)
            env["cur"] = {}
            for nbb, (L, elems) in iter_info.items():
                if elems is not None and itd.get(L, 0) > 0:
                    k = itd[L] - 1
                    env["cur"][nbb] = elems[k] if k < len(elems) else EXHAUSTED
            blk = body.blocks[bb]
            for idx, root, rec in tb.events.get(bb, []):
                if root == 0 and idx < len(blk["stmts"]):
                    last0 = (bb, idx, id(rec))
            t = blk["term"]
            k = t["k"]
            nst = len(blk["stmts"])
            tag = "len=%s byte0=%s" % (n, byte0)

            def push(tgt, l0=None, it=None):
                stack.append((tgt, last0 if l0 is None else l0, iters if it is None else it))
            if k == "return":
                if out_ty not in VARIANT_INDEX or last0 is None:
                    out.variants.add("ret")
                else:
                    val = tb._event_value(last0)
                    try:
                        out.variants |= self.variants(val, env)
                    except Unk:
                        out.variants |= set(VARIANT_INDEX[out_ty])
                continue
            if k in ("goto", "drop"):
                push(t["target"])
            elif k == "assert":
                cond = tb.operand(t["cond"], bb, nst)
                site = (body.rec["path"], bb, t["kind"])
                out.sites.add((body.rec["path"], bb))
                try:
                    v = self.int_of(cond, env)
                    if bool(v) == bool(t["expected"]):
                        push(t["target"])
                    else:
                        out.panics.append((t["kind"], site, tag))
                except Unk:
                    out.unknown.append((t["kind"], site))
                    push(t["target"])
            elif k == "switch":
                d = tb.operand(t["discr"], bb, nst)
                for tg in self.switch_targets(t, d, env):
                    push(tg)
            elif k == "call":
                fk = _fnkey(t.get("fn"), t)
                dpath = fk.d
                site = (body.rec["path"], bb, dpath)
                if any(dpath.startswith(p) for p in PANIC_FNS) or t["target"] is None:
                    out.panics.append(("explicit-panic", site, tag))
                    continue
                args = tb.call_args(bb)
                out.calls.add(dpath)
                self.call_preconditions(fk, args, env, out, site)
                for idx, root, rec in tb.events.get(bb, []):
                    if root == 0:
                        last0 = (bb, idx, id(rec))
                nit = iters
                if bb in iter_info and iter_info[bb][1] is not None:
                    L, elems = iter_info[bb]
                    itd2 = dict(iters)
                    itd2[L] = min(itd2.get(L, 0) + 1, len(elems) + 1)
                    nit = frozenset(itd2.items())
                if bb in iter_defs:
                    itd2 = dict(nit)
                    for L in iter_defs[bb]:
                        itd2.pop(L, None)
                    nit = frozenset(itd2.items())
                push(t["target"], last0, nit)
        return out

    # ------------------------------------------------------------------ constant iterators
    def iterator_info(self, body, tb):
        """For every `Iterator::next(&mut it)` call on a local iterator: (local, element list) where the element
        list is known when the iterator is built from literal ranges / rev / zip / map / enumerate / take / skip."""
        info = {}
        for bb, t in body.calls():
            fn = t.get("fn") or {}
            if fn.get("name") != "next" or fn.get("trait") != "core::iter::Iterator":
                continue
            a = t["args"][0]
            if a.get("k") not in ("copy", "move") or a["place"]["p"]:
                continue
            mt = tb.mut_temps.get(a["place"]["l"])
            if not mt or mt[1] or isinstance(mt[0], tuple):
                continue
            L = mt[0]
            defs = []
            for bb2, evs in tb.events.items():
                for idx, root, rec in evs:
                    if root == L and rec["kind"] in ("assign", "call"):
                        defs.append((bb2, idx, id(rec)))
            elems = None
            if len(defs) == 1:
                try:
                    elems = self.elements(tb._event_value(defs[0]), {"len": None, "byte0": None, "sp": None, "body": body, "tb": tb, "cur": {}})
                except Unk:
                    elems = None
            info[bb] = (L, elems)
        return info

    def elements(self, t, env, depth=0):
        if depth > 12:
            raise Unk()
        t = strip(t)
        h = t[0]
        if h == "agg" and isinstance(t[1], str) and t[1] == "core::ops::Range":
            a, b = self.int_of(t[3][0], env), self.int_of(t[3][1], env)
            if b - a > 4096:
                raise Unk()
            return list(range(a, b))
        if h == "call":
            name = t[1].name
            if name in ("into_iter", "by_ref", "iter_mut_unused"):
                return self.elements(t[2][0], env, depth + 1)
            if name == "rev":
                return list(reversed(self.elements(t[2][0], env, depth + 1)))
            if name == "zip":
                a = self.elements(t[2][0], env, depth + 1)
                b = self.elements(t[2][1], env, depth + 1)
                return [(x, y) for x, y in zip(a, b)]
            if name == "enumerate":
                a = self.elements(t[2][0], env, depth + 1)
                return [(i, x) for i, x in enumerate(a)]
            if name == "take":
                a = self.elements(t[2][0], env, depth + 1)
                return a[: self.int_of(t[2][1], env)]
            if name == "skip":
                a = self.elements(t[2][0], env, depth + 1)
                return a[self.int_of(t[2][1], env):]
            if name in ("iter", "iter_mut") and len(t[2]) == 1:
                n = self.length_of(t[2][0], env)
                return [OPAQUE] * n
            if name == "map" and len(t[2]) == 2:
                a = self.elements(t[2][0], env, depth + 1)
                clo = strip(t[2][1])
                if clo[0] == "agg" and isinstance(clo[1], tuple) and clo[1][0] == "closure" and not clo[3]:
                    cb = self.F.bodies.get(clo[1][1])
                    if cb is None:
                        raise Unk()
                    ctb = self.repo.tb(cb)
                    rv = ctb.return_value()
                    out = []
                    for x in a:
                        cenv = {"len": None, "byte0": None, "sp": None, "body": cb, "tb": ctb, "cur": {}, "params": {2: x}}
                        out.append(self.int_of(rv, cenv))
                    return out
                raise Unk()
        raise Unk()

    def switch_targets(self, t, d, env):
        allt = [a[1] for a in t["arms"]] + [t["otherwise"]]
        try:
            v = self.int_of(d, env)
            for val, tgt in t["arms"]:
                if int(val) == int(v):
                    return [tgt]
            return [t["otherwise"]]
        except Unk:
            pass
        if d[0] == "discr":
            try:
                vs = self.variants(d[1], env)
            except Unk:
                return list(dict.fromkeys(allt))
            ty = adt_head(self.type_of_term(self.F, env["body"], d[1]))
            idxmap = VARIANT_INDEX.get(ty)
            if idxmap:
                out = []
                for name in vs:
                    if name not in idxmap:
                        return list(dict.fromkeys(allt))
                    iv = idxmap[name]
                    tgt = t["otherwise"]
                    for val, tg in t["arms"]:
                        if int(val) == iv:
                            tgt = tg
                    out.append(tgt)
                return list(dict.fromkeys(out))
        return list(dict.fromkeys(allt))

    # ------------------------------------------------------------------ preconditions of partial primitives
    def call_preconditions(self, fk, args, env, out, site):
        d = fk.d
        name = fk.name
        tag = "len=%s byte0=%s" % (env["len"], env["byte0"])
        if name in ("index", "index_mut", "copy_from_slice", "read_u64", "unwrap", "expect"):
            out.sites.add((site[0], site[1]))
        try:
            if (fk.get("trait") in ("core::ops::Index", "core::ops::IndexMut") or "core::ops::Index" in d) and name in ("index", "index_mut") and len(args) == 2:
                rng = strip(args[1])
                if rng[0] == "agg" and isinstance(rng[1], str) and rng[1].startswith("core::ops::Range"):
                    L = self.length_of(args[0], env)
                    kind = rng[1].split("::")[-1]
                    vals = [self.int_of(x, env) for x in rng[3]]
                    ok = True
                    if kind == "RangeFrom":
                        ok = vals[0] <= L
                    elif kind == "RangeTo":
                        ok = vals[0] <= L
                    elif kind == "Range":
                        ok = vals[0] <= vals[1] <= L
                    elif kind == "RangeToInclusive":
                        ok = vals[0] < L
                    elif kind == "RangeInclusive":
                        raise Unk()
                    if not ok:
                        out.panics.append(("slice-range", site, tag))
                    return
                raise Unk()
            if name == "copy_from_slice" and len(args) == 2:
                a, b = self.length_of(args[0], env), self.length_of(args[1], env)
                if a != b:
                    out.panics.append(("copy_from_slice-length", site, tag + " dst=%d src=%d" % (a, b)))
                return
            if name in ("read_u64", "read_u32", "read_u128") and fk.get("trait", "").endswith("ByteOrder"):
                need = {"read_u64": 8, "read_u32": 4, "read_u128": 16}[name]
                if self.length_of(args[0], env) < need:
                    out.panics.append(("read-short-slice", site, tag))
                return
            if name in ("unwrap", "expect") and d.startswith(("core::option::Option", "core::result::Result")):
                vs = self.variants(args[0], env)
                if vs & ERRISH:
                    out.panics.append(("unwrap-on-%s" % "/".join(sorted(vs & ERRISH)), site, tag))
                return
        except Unk:
            out.unknown.append(("precondition:%s" % name, site))
            return
        # local callee working on a slice derived from ours: propagate its concrete panics
        cb = self.F.bodies.get(d)
        if cb is not None:
            sp = self.slice_param(cb)
            if sp is not None or self.fixed_shape(cb):
                summ = self.summary(d)
                if summ is not None:
                    try:
                        L = self.length_of(args[sp - 1], env) if sp is not None else -1
                    except Unk:
                        out.unknown.append(("callee-length:%s" % name, site))
                        return
                    sub = self.lookup(summ, L)
                    out.calls |= sub.calls
                    out.sites |= sub.sites
                    for p in sub.panics:
                        out.panics.append((p[0], p[1], "%s via %s(len=%d): %s" % (tag, d, L, p[2])))
                    for u in sub.unknown:
                        out.unknown.append(u)

    # ------------------------------------------------------------------ abstract evaluation
    def length_of(self, t, env):
        body = env["body"]
        h = t[0]
        if h in ("ref", "deref"):
            return self.length_of(t[1], env)
        if h == "param":
            if t[1] == env["sp"]:
                return env["len"]
            n = array_len(body.locals[t[1]]["ty"])
            if n is not None:
                return n
            raise Unk()
        if h == "init":
            if t[1][1] == env["sp"]:
                return env["len"]
            n = array_len(body.locals[t[1][1]]["ty"])
            if n is not None:
                return n
            raise Unk()
        if h == "cast":
            return self.length_of(t[2], env)
        ty = self.type_of_term(self.F, body, t)
        n = array_len(ty)
        if n is not None and h != "call":
            return n
        if h == "call":
            fk = t[1]
            if fk.name in ("index", "index_mut") and len(t[2]) == 2:
                rng = strip(t[2][1])
                if rng[0] == "agg" and isinstance(rng[1], str) and rng[1].startswith("core::ops::Range"):
                    L = self.length_of(t[2][0], env)
                    kind = rng[1].split("::")[-1]
                    vals = [self.int_of(x, env) for x in rng[3]]
                    if kind == "RangeFrom":
                        return L - vals[0]
                    if kind == "RangeTo":
                        return vals[0]
                    if kind == "Range":
                        return vals[1] - vals[0]
                    if kind == "RangeFull":
                        return L
                    if kind == "RangeToInclusive":
                        return vals[0] + 1
                raise Unk()
            if fk.name in ("as_ref", "as_mut", "as_slice", "borrow", "deref", "as_mut_slice") and len(t[2]) == 1:
                return self.length_of(t[2][0], env)
            if fk.name == "to_bytes_be" and "ark_ff" in fk.d:
                # contract of ark_ff::BigInt<N>::to_bytes_be: a Vec of 8*N bytes (dependency frontier, trusted)
                m = re.search(r"BigInt<(\d+)>", fk.i)
                if m:
                    return 8 * int(m.group(1))
            if n is not None:
                return n
            raise Unk()
        if h == "mutcall":
            # an array/slice after being handed to a call by &mut keeps its length
            return self.length_of(t[2][t[3]], env)
        if h == "update":
            return self.length_of(t[1], env)
        if h == "repeat":
            return int(t[2])
        if h == "agg" and t[1] == "array":
            return len(t[3])
        if h == "phi":
            vals = {self.length_of(x, env) for x in t[1]}
            if len(vals) == 1:
                return vals.pop()
        raise Unk()

    def elem_of(self, t, env):
        """Python value (int / tuple / OPAQUE) of a term that projects out of the current iterator element."""
        h = t[0]
        if h == "down" and t[1][0] == "call" and t[1][1].name == "next" and t[1][3] in env.get("cur", {}):
            cur = env["cur"][t[1][3]]
            if cur is EXHAUSTED:
                raise Unk()
            return (cur,)            # Some(cur): field 0 is the element
        if h == "field":
            base = self.elem_of(t[1], env)
            if isinstance(base, tuple) and base not in (OPAQUE, EXHAUSTED) and t[2] < len(base):
                return base[t[2]]
            raise Unk()
        if h == "param" and t[1] in env.get("params", {}):
            return env["params"][t[1]]
        if h in ("ref", "deref"):
            return self.elem_of(t[1], env)
        raise Unk()

    def int_of(self, t, env):
        h = t[0]
        if h in ("field", "param", "down") and (env.get("cur") or env.get("params")):
            try:
                v = self.elem_of(t, env)
                if isinstance(v, int):
                    return v
            except Unk:
                pass
        if h == "const":
            if "int" in t[1]:
                return int(t[1]["int"])
            raise Unk()
        if h == "call":
            fk = t[1]
            if fk.name == "len" and len(t[2]) == 1 and "slice" in fk.d or (fk.name == "len" and fk.d.startswith("core::slice")):
                return self.length_of(t[2][0], env)
            force = env.get("force") or self.force
            if force and fk.name in force:
                return int(force[fk.name])
            # a local helper applied to integers we know (an extracted `fn is_compressed_prefix(b: u8) -> bool`):
            # constant-propagate through its body
            cb = self.F.bodies.get(fk.d)
            if cb is not None and t[2] and self.slice_param(cb) is None and not cb.rec.get("requires_mono"):
                ins = cb.rec.get("inputs") or []
                if all(x.strip() in ("u8", "u16", "u32", "u64", "usize", "u128", "bool", "i32", "i64", "isize") for x in ins) and len(ins) == len(t[2]):
                    vals = [self.int_of(a, env) for a in t[2]]
                    return self.eval_int_fn(cb, vals)
            raise Unk()
        if h == "unop":
            if t[1] == "PtrMetadata":
                return self.length_of(t[2], env)
            a = self.int_of(t[2], env)
            if t[1] == "Not":
                return 1 - a if a in (0, 1) else ~a
            if t[1] == "Neg":
                return -a
            raise Unk()
        if h == "field" and t[1][0] == "binop" and "WithOverflow" in t[1][1]:
            a, b = self.int_of(t[1][2], env), self.int_of(t[1][3], env)
            op = t[1][1].replace("WithOverflow", "")
            v = {"Add": a + b, "Sub": a - b, "Mul": a * b}.get(op)
            if v is None:
                raise Unk()
            ty = self.type_of_term(self.F, env["body"], t[1][2]) or "usize"
            lo, hi = type_range(ty)
            if t[2] == 0:
                return v  # exact value; validity is decided by the accompanying assertion
            return int(not (lo <= v <= hi))
        if h == "binop":
            op = t[1]
            a, b = self.int_of(t[2], env), self.int_of(t[3], env)
            tbl = {"Eq": lambda: int(a == b), "Ne": lambda: int(a != b), "Lt": lambda: int(a < b), "Le": lambda: int(a <= b),
                   "Gt": lambda: int(a > b), "Ge": lambda: int(a >= b), "BitAnd": lambda: a & b, "BitOr": lambda: a | b,
                   "BitXor": lambda: a ^ b, "Add": lambda: a + b, "Sub": lambda: a - b, "Mul": lambda: a * b,
                   "Shl": lambda: a << b, "Shr": lambda: a >> b}
            if op in tbl:
                return tbl[op]()
            raise Unk()
        if h == "cast":
            return self.int_of(t[2], env)
        if h in ("index", "cindex"):
            base = strip(t[1])
            if base in (("param", env["sp"]), ("init", ("deref", env["sp"]))):
                i = self.int_of(t[2], env) if h == "index" else t[2]
                if i == 0 and env["byte0"] is not None:
                    return env["byte0"]
            raise Unk()
        if h == "phi":
            vals = set()
            for x in t[1]:
                vals.add(self.int_of(x, env))
            if len(vals) == 1:
                return vals.pop()
        raise Unk()

    def eval_int_fn(self, body, vals):
        from .absexec import AbsExec, TOP

        class _Ints:
            def call(self, ex, fk, args, term, fr):
                return NotImplemented
        key = (body.rec["path"], tuple(vals))
        cache = self.__dict__.setdefault("_intfn", {})
        if key in cache:
            if cache[key] is None:
                raise Unk()
            return cache[key]
        ex = AbsExec(self.F, _Ints(), max_steps=20000, max_paths=64)
        try:
            rs = ex.run(body, [bool(v) if ty.strip() == "bool" else v for v, ty in zip(vals, body.rec.get("inputs") or [])])
        except Exception:
            rs = []
        res = None
        if len(rs) == 1 and isinstance(rs[0][0], (bool, int)):
            res = int(rs[0][0])
        cache[key] = res
        if res is None:
            raise Unk()
        return res

    def variants(self, t, env):
        body = env["body"]
        h = t[0]
        if h == "phi":
            out = set()
            for x in t[1]:
                out |= self.variants(x, env)
            return out
        if h == "agg" and t[2] is not None:
            return {t[2]}
        if h in ("ref", "deref"):
            return self.variants(t[1], env)
        if h == "call":
            fk = t[1]
            name, d = fk.name, fk.d
            if name == "next" and t[3] in env.get("cur", {}):
                return {"None"} if env["cur"][t[3]] is EXHAUSTED else {"Some"}
            if self.variants_hook is not None:
                r = self.variants_hook(self, t, env)
                if r is not None:
                    return r
            ty = adt_head(self.type_of_term(self.F, body, t))
            names = set(VARIANT_INDEX.get(ty, {}))

            def conv(vs, ok, err):
                out = set()
                if vs & OKISH:
                    out.add(ok)
                if vs & ERRISH:
                    out.add(err)
                return out
            if name == "branch" and fk.get("trait") == "core::ops::Try":
                return conv(self.variants(t[2][0], env), "Continue", "Break")
            if name == "from_residual":
                return {"Err"} if ty == "core::result::Result" else {"None"}
            if d.startswith("core::option::Option") or d.startswith("core::result::Result"):
                src = self.variants(t[2][0], env) if t[2] else set()
                if name in ("ok_or", "ok_or_else"):
                    return conv(src, "Ok", "Err")
                if name in ("map", "map_err", "inspect", "copied", "cloned"):
                    return src
                if name == "ok":
                    return conv(src, "Some", "None")
                if name == "err":
                    return {"None" if v in OKISH else "Some" for v in src}
                if name in ("and_then",):
                    out = set()
                    if src & ERRISH:
                        out |= (src & ERRISH)
                    if src & OKISH:
                        out |= names
                    return out
                if name in ("unwrap_or", "unwrap_or_default", "unwrap", "expect"):
                    raise Unk()
            cb = self.F.bodies.get(d)
            if cb is not None:
                sp = self.slice_param(cb)
                if sp is not None or self.fixed_shape(cb):
                    summ = self.summary(d)
                    if summ is not None:
                        L = self.length_of(t[2][sp - 1], env) if sp is not None else -1
                        vs = set(self.lookup(summ, L).variants)
                        if vs and vs <= (names | {"ret"}):
                            return vs
                        if not vs:
                            return set()  # callee always panics for this length
            if names:
                return set(names)
            raise Unk()
        if h == "update":
            raise Unk()
        ty = adt_head(self.type_of_term(self.F, body, t))
        if ty in VARIANT_INDEX:
            return set(VARIANT_INDEX[ty])
        raise Unk()


def type_range(ty):
    ty = ty.strip()
    if ty in ("usize", "u64"):
        return 0, 2 ** 64 - 1
    if ty == "u32":
        return 0, 2 ** 32 - 1
    if ty == "u8":
        return 0, 255
    if ty == "u16":
        return 0, 65535
    if ty == "u128":
        return 0, 2 ** 128 - 1
    if ty in ("isize", "i64"):
        return -2 ** 63, 2 ** 63 - 1
    if ty == "i32":
        return -2 ** 31, 2 ** 31 - 1
    return 0, 2 ** 64 - 1


def _ops(rv):
    k = rv["k"]
    if k in ("use", "repeat", "cast"):
        return [rv["op"]]
    if k == "binop":
        return [rv["a"], rv["b"]]
    if k == "unop":
        return [rv["a"]]
    if k == "aggregate":
        return rv["ops"]
    return []
