"""Transfer functions of the byte-provenance machine for core / alloc / byteorder / ark-ff BigInt byte APIs.

Each one is the documented contract of a library primitive on the abstract values (lengths, cells, variants): bounds and
length mismatches end the path as a panic outcome; nothing numeric is computed on opaque values."""
import re
from .bytex import T, TOP, Tup, Adt, Ref, FnRef, Iter, Stop, _Forks, _Push, CORE_VARIANTS, ty_head, INT_BITS

OPT = "core::option::Option"
RES = "core::result::Result"
CF = "core::ops::ControlFlow"
UNIT = Tup(())


def some(v):
    return Adt(OPT, "Some", [v])


NONE = Adt(OPT, "None", [])


def is_range(v):
    return isinstance(v, Adt) and v.name.startswith("core::ops::Range")


def range_bounds(v, L):
    """(start, len) of a range value applied to a sequence of length L, or None when a bound is not a literal"""
    kind = v.name.split("::")[-1]
    f = list(v.fields)
    if any(not isinstance(x, int) or isinstance(x, bool) for x in f if not isinstance(x, Adt)):
        return None
    if kind == "Range":
        a, b = f[0], f[1]
    elif kind == "RangeFrom":
        a, b = f[0], L
    elif kind == "RangeTo":
        a, b = 0, f[0]
    elif kind == "RangeFull":
        a, b = 0, L
    elif kind == "RangeInclusive":
        a, b = f[0], f[1] + 1
    elif kind == "RangeToInclusive":
        a, b = 0, f[0] + 1
    else:
        return None
    return a, b


def seq_of(m, s, v):
    """(ref or None, Tup) for something that designates a byte/limb sequence"""
    if isinstance(v, Ref):
        d = m.deref(s, v)
        if isinstance(d, Ref):
            return seq_of(m, s, d)
        if isinstance(d, Tup):
            return v, d
        return v, None
    if isinstance(v, Tup):
        return None, v
    return None, None


def as_iter(m, s, v, by_ref=True):
    if isinstance(v, Ref):
        d = m.deref(s, v)
        if isinstance(d, (Iter,)):
            return d
        if is_range(d):
            return as_iter(m, s, d)
        if isinstance(d, Ref):
            return as_iter(m, s, d)
        if isinstance(d, Tup):
            return Iter([Ref(v.fi, v.local, v.proj + (("i", k),)) for k in range(len(d))])
        return None
    if isinstance(v, Iter):
        return v
    if is_range(v):
        rb = range_bounds(v, None) if v.name.split("::")[-1] in ("Range", "RangeInclusive") else None
        if rb is None or rb[1] is None or rb[1] - rb[0] > 8192:
            return None
        return Iter(range(rb[0], max(rb[0], rb[1])))
    if isinstance(v, Tup):
        return Iter(list(v))
    return None


def types_of_conv(fk):
    """(source type, destination type) of a From::from / Into::into instance"""
    i = fk.i
    mm = re.match(r"^<(.*) as core::convert::Into<(.*)>>::into$", i)
    if mm:
        return mm.group(1), mm.group(2)
    mm = re.match(r"^<(.*) as core::convert::From<(.*)>>::from$", i)
    if mm:
        return mm.group(2), mm.group(1)
    d = fk.d
    mm = re.search(r"<impl core::convert::From<(.*)> for (.*)>::from$", d)
    if mm:
        return mm.group(1), mm.group(2)
    return None


def norm_ty(t):
    return re.sub(r"&'[a-z_]+ ", "&", t or "").replace(" ", "")


def find_from_impl(F, src, dst):
    cache = F.__dict__.setdefault("_from_impls", None)
    if cache is None:
        cache = {}
        for b in F.fn_bodies():
            if b.name == "from" and b.impl_trait == "core::convert::From" and len(b.rec.get("inputs") or []) == 1:
                cache[(norm_ty(b.rec["inputs"][0]), norm_ty(b.rec.get("output")))] = b
        F.__dict__["_from_impls"] = cache
    return cache.get((norm_ty(src), norm_ty(dst)))


def arg_type(s, fi, t, i):
    """declared type of the i-th argument operand of call terminator t"""
    try:
        op = t["args"][i]
        if op.get("k") in ("copy", "move"):
            from .sm9 import place_types
            return place_types(s.frames[fi].body, op["place"])[-1]
        return op.get("ty")
    except Exception:
        return None


def model(m, s, fi, t, fk, args, site):
    n = fk.name
    d = fk.d
    trait = fk.get("trait") or ""
    A = [m.deref(s, a) if isinstance(a, Ref) else a for a in args]      # one level of auto-deref for reading
    fr = s.frames[fi]

    def panic(what):
        raise Stop("panic", site or (fr.body.rec["path"], fr.bb, d), what)

    # ---------------------------------------------------------------- integers
    if args and all(isinstance(x, int) for x in A) and d.startswith("core::num::"):
        from .absexec import int_builtin
        r = int_builtin(None, fk, [int(x) if isinstance(x, bool) else x for x in A])
        if r is not NotImplemented and isinstance(r, (int, bool)):
            return r
        if r is not NotImplemented:
            c = _convert(r)
            if c is not None:
                return c
    if d.startswith("core::num::") and n in ("from_be_bytes", "from_le_bytes") and len(A) == 1 and isinstance(A[0], Tup):
        cells = tuple(A[0])
        if all(isinstance(c, int) for c in cells):
            return int.from_bytes(bytes(cells), "big" if n == "from_be_bytes" else "little")
        return T("u%dbe" % (8 * len(cells)) if n == "from_be_bytes" else "u%dle" % (8 * len(cells)), cells)
    if d.startswith("core::num::") and n in ("to_be_bytes", "to_le_bytes") and len(A) == 1:
        mm = re.search(r"impl (u\d+|usize)", d)
        nb = INT_BITS.get(mm.group(1), 64) // 8 if mm else 8
        if isinstance(A[0], int):
            bs = (A[0] % (1 << (8 * nb))).to_bytes(nb, "big" if n == "to_be_bytes" else "little")
            return Tup(list(bs))
        return Tup([T("be8" if n == "to_be_bytes" else "le8", A[0], k) for k in range(nb)])
    # ---------------------------------------------------------------- byteorder / ark-ff
    if trait.endswith("ByteOrder") and n.startswith("read_u") and len(args) == 1:
        nb = int(n[6:]) // 8
        _, seq = seq_of(m, s, args[0])
        if seq is None:
            return NotImplemented
        if len(seq) < nb:
            panic("%s on a %d-byte slice" % (n, len(seq)))
        tag = "be" if "BigEndian" in fk.i else "le"
        cells = tuple(seq[:nb])
        if all(isinstance(c, int) for c in cells):
            return int.from_bytes(bytes(cells), "big" if tag == "be" else "little")
        return T("u%d%s" % (8 * nb, tag), cells)
    if trait.endswith("ByteOrder") and n.startswith("write_u") and len(args) == 2:
        nb = int(n[7:]) // 8
        ref, seq = seq_of(m, s, args[0])
        if seq is None or ref is None:
            return NotImplemented
        if len(seq) < nb:
            panic("%s on a %d-byte slice" % (n, len(seq)))
        tag = "be8" if "BigEndian" in fk.i else "le8"
        v = A[1]
        if isinstance(v, int):
            cells = list((v % (1 << (8 * nb))).to_bytes(nb, "big" if tag == "be8" else "little"))
        else:
            cells = [T(tag, v, k) for k in range(nb)]
        m.store(s, Ref(ref.fi, ref.local, ref.proj + (("sub", 0, nb),)), Tup(cells))
        return UNIT
    if n in ("to_bytes_be", "to_bytes_le") and "ark_ff" in d and len(args) == 1:
        mm = re.search(r"BigInt<(\d+)>", fk.i)
        if mm:
            v = m._freeze(s, A[0])
            return Tup([T("be" if n == "to_bytes_be" else "le", v, k) for k in range(8 * int(mm.group(1)))])
    # ---------------------------------------------------------------- slices, arrays, vectors
    if n in ("len",) and len(args) == 1:
        if isinstance(A[0], Tup):
            return len(A[0])
        if isinstance(A[0], Iter):
            return len(A[0].rest())
        if is_range(A[0]):
            it = as_iter(m, s, A[0])
            if it is not None:
                return len(it.rest())
    if n == "is_empty" and len(args) == 1 and isinstance(A[0], Tup):
        return len(A[0]) == 0
    if n in ("index", "index_mut") and len(args) == 2 and (trait in ("core::ops::Index", "core::ops::IndexMut") or "core::ops::Index" in d or "SliceIndex" in d):
        ref, seq = seq_of(m, s, args[0])
        idx = A[1]
        if seq is not None:
            L = len(seq)
            if is_range(idx):
                rb = range_bounds(idx, L)
                if rb is None:
                    raise Stop("undecided", site, "slice range with a bound outside the domain")
                a, b = rb
                if not (0 <= a <= b <= L):
                    panic("range %d..%d out of bounds for a sequence of %d" % (a, b, L))
                if ref is not None:
                    return Ref(ref.fi, ref.local, ref.proj + (("sub", a, b - a),))
                return Tup(seq[a:b])
            if isinstance(idx, int) and not isinstance(idx, bool):
                if not (0 <= idx < L):
                    panic("index %d out of bounds for a sequence of %d" % (idx, L))
                if ref is not None:
                    return Ref(ref.fi, ref.local, ref.proj + (("i", idx),))
                return seq[idx]
            raise Stop("undecided", site, "index outside the domain")
    if n in ("get", "get_mut") and len(args) == 2 and d.startswith("core::slice"):
        ref, seq = seq_of(m, s, args[0])
        idx = A[1]
        if seq is not None:
            L = len(seq)
            if is_range(idx):
                rb = range_bounds(idx, L)
                if rb is not None:
                    a, b = rb
                    if not (0 <= a <= b <= L):
                        return NONE
                    return some(Ref(ref.fi, ref.local, ref.proj + (("sub", a, b - a),)) if ref is not None else Tup(seq[a:b]))
            if isinstance(idx, int):
                if not (0 <= idx < L):
                    return NONE
                return some(Ref(ref.fi, ref.local, ref.proj + (("i", idx),)) if ref is not None else seq[idx])
    if n in ("copy_from_slice", "clone_from_slice") and len(args) == 2:
        ref, dst = seq_of(m, s, args[0])
        _, src = seq_of(m, s, args[1])
        if dst is not None and src is not None and ref is not None:
            if len(dst) != len(src):
                panic("copy_from_slice: destination %d bytes, source %d" % (len(dst), len(src)))
            m.store(s, ref, Tup([m._freeze(s, x) for x in src]))
            return UNIT
        raise Stop("undecided", site, "copy_from_slice on a sequence outside the domain")
    if n == "fill" and len(args) == 2:
        ref, dst = seq_of(m, s, args[0])
        if dst is not None and ref is not None:
            m.store(s, ref, Tup([A[1]] * len(dst)))
            return UNIT
    if n == "reverse" and len(args) == 1:
        ref, dst = seq_of(m, s, args[0])
        if dst is not None and ref is not None:
            m.store(s, ref, Tup(list(dst)[::-1]))
            return UNIT
    if n in ("split_at", "split_at_mut") and len(args) == 2 and isinstance(A[1], int):
        ref, seq = seq_of(m, s, args[0])
        if seq is not None:
            k = A[1]
            if k > len(seq):
                panic("split_at(%d) on a sequence of %d" % (k, len(seq)))
            if ref is not None:
                return Tup([Ref(ref.fi, ref.local, ref.proj + (("sub", 0, k),)), Ref(ref.fi, ref.local, ref.proj + (("sub", k, len(seq) - k),))])
            return Tup([Tup(seq[:k]), Tup(seq[k:])])
    if n in ("split_first", "split_last", "split_first_mut", "split_last_mut") and len(args) == 1 and d.startswith("core::slice"):
        ref, seq = seq_of(m, s, args[0])
        if seq is not None:
            if not seq:
                return NONE
            L = len(seq)
            k, a, ln = (0, 1, L - 1) if n.startswith("split_first") else (L - 1, 0, L - 1)
            if ref is not None:
                return some(Tup([Ref(ref.fi, ref.local, ref.proj + (("i", k),)), Ref(ref.fi, ref.local, ref.proj + (("sub", a, ln),))]))
            return some(Tup([seq[k], Tup(seq[a:a + ln])]))
    if n in ("split_first_chunk", "split_last_chunk", "first_chunk", "last_chunk", "split_first_chunk_mut", "split_last_chunk_mut", "first_chunk_mut", "last_chunk_mut") \
            and len(args) == 1 and d.startswith("core::slice"):
        ref, seq = seq_of(m, s, args[0])
        mm = re.search(r"::<(\d+)(?:_usize)?>", fk.i) or re.search(r"<(\d+)(?:_usize)?>$", fk.i)
        gi = [int(x) for x in (fk.get("args") or []) if isinstance(x, str) and x.isdigit()]
        k = int(mm.group(1)) if mm else (gi[0] if gi else (fr.gints[0] if len(fr.gints) == 1 else None))
        if seq is not None and k is not None:
            L = len(seq)
            if L < k:
                return NONE
            first = "first" in n
            a0, r0, rl = (0, k, L - k) if first else (L - k, 0, L - k)
            chunk = Ref(ref.fi, ref.local, ref.proj + (("sub", a0, k),)) if ref is not None else Tup(seq[a0:a0 + k])
            if n.startswith("split_"):
                rest = Ref(ref.fi, ref.local, ref.proj + (("sub", r0, rl),)) if ref is not None else Tup(seq[r0:r0 + rl])
                return some(Tup([chunk, rest]) if first else Tup([rest, chunk]))
            return some(chunk)
    if n in ("first", "last") and len(args) == 1 and isinstance(A[0], Tup) and d.startswith("core::slice"):
        if not A[0]:
            return NONE
        ref, seq = seq_of(m, s, args[0])
        k = 0 if n == "first" else len(seq) - 1
        return some(Ref(ref.fi, ref.local, ref.proj + (("i", k),)) if ref is not None else seq[k])
    if n in ("as_ref", "as_mut", "as_slice", "as_mut_slice", "borrow", "borrow_mut") and len(args) == 1 and isinstance(A[0], Adt) and A[0].name.split("::")[-1] == "BigInt" \
            and len(A[0].fields) == 1 and isinstance(A[0].fields[0], Tup):
        # ark-ff BigInt<N>: its limb array (public field .0) seen as a slice
        if isinstance(args[0], Ref):
            return Ref(args[0].fi, args[0].local, args[0].proj + (("f", 0, None),))
        return A[0].fields[0]
    if n in ("as_ref", "as_mut", "as_slice", "as_mut_slice", "borrow", "borrow_mut", "as_bytes") and len(args) == 1:
        ref, seq = seq_of(m, s, args[0])
        if seq is not None:
            return ref if ref is not None else seq
        if isinstance(A[0], Adt) and A[0].name in (OPT, RES):
            return A[0]
    if n in ("deref", "deref_mut") and len(args) == 1 and trait.startswith("core::ops::Deref"):
        ref, seq = seq_of(m, s, args[0])
        if seq is not None:
            return ref if ref is not None else seq
    if n in ("to_vec", "into_vec", "to_owned", "into_boxed_slice") and len(args) == 1:
        _, seq = seq_of(m, s, args[0])
        if seq is not None:
            return Tup([m._freeze(s, x) for x in seq])
    if n == "clone" and len(args) == 1:
        v = A[0]
        if isinstance(v, Ref):
            v = m.deref(s, v)
        return m._freeze(s, v) if isinstance(v, (Tup, Adt)) else v
    if n in ("from_elem",) and len(args) == 2 and isinstance(A[1], int) and A[1] <= 8192:
        return Tup([A[0]] * A[1])
    if d.startswith("alloc::vec::Vec") or "alloc::vec::Vec" in fk.i:
        if n in ("new",) and not args:
            return Tup(())
        if n == "with_capacity":
            return Tup(())
        if n == "push" and len(args) == 2 and isinstance(A[0], Tup) and isinstance(args[0], Ref):
            m.store(s, args[0], Tup(list(A[0]) + [m._freeze(s, A[1])]))
            return UNIT
        if n == "extend_from_slice" and len(args) == 2 and isinstance(A[0], Tup) and isinstance(args[0], Ref):
            _, src = seq_of(m, s, args[1])
            if src is not None:
                m.store(s, args[0], Tup(list(A[0]) + [m._freeze(s, x) for x in src]))
                return UNIT
    if n in ("try_into", "try_from") and len(args) == 1 and ("TryInto" in trait or "TryFrom" in trait or "TryInto" in d or "TryFrom" in d):
        _, seq = seq_of(m, s, args[0])
        ty = m.dest_type(s, fi, t, fk) or ""
        mm = re.search(r"Result<&?(?:mut )?\[[a-z0-9]+; (\d+)\]", ty)
        if seq is not None and mm:
            if len(seq) == int(mm.group(1)):
                by_ref = re.search(r"Result<&", ty.replace(" ", "")) is not None
                ref0, _ = seq_of(m, s, args[0])
                if by_ref and ref0 is not None:
                    return Adt(RES, "Ok", [ref0])          # `&[u8] → &[u8; N]` / `&mut [u8] → &mut [u8; N]`: the same bytes, not a copy
                return Adt(RES, "Ok", [Tup([m._freeze(s, x) for x in seq])])
            return Adt(RES, "Err", [T("TryFromSliceError")])
        if isinstance(A[0], int) and "Result<u" in ty.replace(" ", ""):
            mm2 = re.search(r"Result<(u\d+|usize)", ty)
            if mm2:
                return Adt(RES, "Ok", [A[0]]) if 0 <= A[0] < (1 << INT_BITS[mm2.group(1)]) else Adt(RES, "Err", [T("TryFromIntError")])
    # ---------------------------------------------------------------- iterators over literal spaces
    if n in ("iter", "iter_mut", "into_iter") and len(args) == 1 and isinstance(A[0], T) and A[0][0] == "array":
        return Iter([T("idx", A[0][1], k) for k in range(A[0][2])])
    if n == "len" and len(args) == 1 and isinstance(A[0], T) and A[0][0] == "array":
        return A[0][2]
    if n in ("iter", "iter_mut", "into_iter") and len(args) == 1 and isinstance(A[0], T) and A[0] != TOP:
        # an opaque fixed-size array (the limbs of a library integer): its elements by index
        ty = arg_type(s, fi, t, 0)
        mm = re.search(r"\[[A-Za-z0-9_:]+; (\d+)\]", ty or "")
        if mm and int(mm.group(1)) <= 64:
            return Iter([T("idx", A[0], k) for k in range(int(mm.group(1)))])
    if n in ("iter", "iter_mut", "into_iter") and len(args) == 1:
        it = as_iter(m, s, args[0])
        if it is not None:
            if n == "into_iter" and isinstance(A[0], Tup) and not isinstance(args[0], Ref):
                return Iter(list(A[0]))
            return it
    if n in ("chunks_exact", "chunks_exact_mut", "chunks", "chunks_mut") and len(args) == 2 and isinstance(A[1], int) and A[1] > 0:
        ref, seq = seq_of(m, s, args[0])
        if seq is not None:
            k = A[1]
            items = []
            full = len(seq) // k
            for j in range(full):
                items.append(Ref(ref.fi, ref.local, ref.proj + (("sub", j * k, k),)) if ref is not None else Tup(seq[j * k:(j + 1) * k]))
            if n in ("chunks", "chunks_mut") and len(seq) % k:
                a = full * k
                items.append(Ref(ref.fi, ref.local, ref.proj + (("sub", a, len(seq) - a),)) if ref is not None else Tup(seq[a:]))
            return Iter(items)
    if n in ("rev", "enumerate", "copied", "cloned", "by_ref", "peekable", "fuse") and len(args) == 1:
        it = as_iter(m, s, args[0])
        if it is not None:
            if n == "rev":
                return Iter(list(it.rest())[::-1])
            if n == "enumerate":
                return Iter([Tup([i, x]) for i, x in enumerate(it.rest())])
            if n in ("copied", "cloned"):
                return Iter([m._freeze(s, x) if isinstance(x, Ref) else x for x in it.rest()])
            return it
    if n == "zip" and len(args) == 2:
        a, b = as_iter(m, s, args[0]), as_iter(m, s, args[1])
        if a is not None and b is not None:
            return Iter([Tup([x, y]) for x, y in zip(a.rest(), b.rest())])
    if n == "chain" and len(args) == 2:
        a, b = as_iter(m, s, args[0]), as_iter(m, s, args[1])
        if a is not None and b is not None:
            return Iter(list(a.rest()) + list(b.rest()))
    if n in ("skip", "take", "step_by") and len(args) == 2 and isinstance(A[1], int):
        it = as_iter(m, s, args[0])
        if it is not None:
            r = list(it.rest())
            return Iter(r[A[1]:] if n == "skip" else (r[:A[1]] if n == "take" else r[::A[1]]))
    if n == "map" and len(args) == 2 and (d.startswith("core::iter") or "Iterator" in d or "Iterator" in trait):
        it = as_iter(m, s, args[0])
        if it is not None:
            out = []
            for x in it.rest():
                v = m.call_sync(s, args[1], [x])
                if v == TOP:
                    raise Stop("undecided", site, "iterator map closure outside the domain")
                out.append(v)
            return Iter(out)
    if n == "fold" and len(args) == 3 and (d.startswith("core::iter") or "Iterator" in d or "Iterator" in trait):
        # a fold over a literal iteration space whose closure never forks: applied element by element (captured references are
        # replaced by the values they designate, the closure cannot write through them anyway when it is `Fn`)
        it = as_iter(m, s, args[0])
        f = args[2]
        if it is not None and isinstance(f, Adt) and str(f.name).startswith("closure:") and len(it.rest()) <= 64:
            fz = Adt(f.name, f.variant, [m._freeze(s, x) for x in f.fields])
            acc = m._freeze(s, A[1])
            for x in it.rest():
                acc = m.call_sync(s, fz, [acc, m._freeze(s, x) if isinstance(x, Ref) else x])
                if acc == TOP:
                    raise Stop("undecided", site, "fold closure outside the domain")
            return acc
    if n in ("all", "any") and len(args) == 2 and (d.startswith("core::iter") or "Iterator" in d or "Iterator" in trait):
        # short-circuiting test over a literal iteration space: the closure is run element by element in a sub-machine (captured
        # references replaced by the values they designate); every combination of its answers becomes one alternative
        it = as_iter(m, s, args[0])
        f = A[1] if isinstance(A[1], Adt) else args[1]
        if it is not None and isinstance(f, Adt) and str(f.name).startswith("closure:") and len(it.rest()) <= 16:
            cbody = m.F.bodies.get(f.name[len("closure:"):])
            if cbody is not None:
                fz = Adt(f.name, f.variant, [m._freeze(s, x) for x in f.fields])
                states = [((), None)]
                for x in it.rest():
                    xv = m._freeze(s, x) if isinstance(x, Ref) else x
                    nxt = []
                    for pc0, dec in states:
                        if dec is not None:
                            nxt.append((pc0, dec))
                            continue
                        from .bytex import Machine
                        sub = Machine(m.F, m.policy, m.models)
                        outs = sub.run(cbody, [Ref(0, 0), xv], holders=[fz])
                        m.steps += sub.steps
                        for o in outs:
                            if o.kind != "return" or not (isinstance(o.value, bool) or (isinstance(o.value, T) and o.value != TOP)):
                                raise Stop("undecided", site, "%s closure outside the domain" % n)
                            # a comparison handed back as a term stands for both of its answers
                            answers = [(o.value, ())] if isinstance(o.value, bool) else [(True, ((o.value, 1),)), (False, ((o.value, 0),))]
                            for v, extra in answers:
                                d2 = (False if (n == "all" and not v) else True if (n == "any" and v) else None)
                                nxt.append((pc0 + tuple(o.pc) + extra, d2))
                    states = nxt
                    if len(states) > 256:
                        raise Stop("undecided", site, "%s over too many alternatives" % n)
                from .bytex import _Forks
                return _Forks([((dec if dec is not None else (n == "all")), ("__pcs__", pc0), None) for pc0, dec in states])
    if n in ("next", "next_back") and len(args) == 1 and isinstance(args[0], Ref):
        it = as_iter(m, s, A[0]) if not isinstance(A[0], Iter) else A[0]
        if it is not None:
            r = it.rest()
            if not r:
                return NONE
            if n == "next":
                m.store(s, args[0], Iter(it.items, it.pos + 1))
                return some(r[0])
            m.store(s, args[0], Iter(it.items[:-1], it.pos))
            return some(r[-1])
    if n in ("collect",) and len(args) == 1:
        it = as_iter(m, s, args[0])
        if it is not None:
            return Tup([m._freeze(s, x) if isinstance(x, Ref) else x for x in it.rest()])
    # ---------------------------------------------------------------- bool::then / then_some on a decided condition
    if d.startswith("core::bool") and n in ("then", "then_some") and len(args) == 2 and isinstance(A[0], (bool, int)) and not isinstance(A[0], T):
        if not A[0]:
            return NONE
        if n == "then_some":
            return some(A[1])
        return m.apply(s, fi, t, args[1], [], lambda r: some(r))
    # ---------------------------------------------------------------- Option / Result
    v0 = A[0] if A else None
    if isinstance(v0, Adt) and v0.name in (OPT, RES):
        good = v0.variant in ("Some", "Ok")
        if n in ("unwrap", "expect", "unwrap_unchecked") and v0.name in d.replace("::<", "<"):
            if good:
                return v0.fields[0]
            panic("%s on %s" % (n, v0.variant))
        if n in ("unwrap_err", "expect_err"):
            if not good and v0.fields:
                return v0.fields[0]
            panic("%s on %s" % (n, v0.variant))
        if n == "unwrap_or" and len(args) == 2:
            return v0.fields[0] if good else A[1]
        if n in ("is_some", "is_ok"):
            return good
        if n in ("is_none", "is_err"):
            return not good
        if n == "zip" and len(args) == 2 and v0.name == OPT and isinstance(A[1], Adt) and A[1].name == OPT and d.startswith("core::option::Option"):
            return some(Tup((v0.fields[0], A[1].fields[0]))) if good and A[1].variant == "Some" else NONE
        if n == "ok" and v0.name == RES:
            return some(v0.fields[0]) if good else NONE
        if n == "err" and v0.name == RES:
            return NONE if good else some(v0.fields[0])
        if n == "ok_or" and len(args) == 2 and v0.name == OPT:
            return Adt(RES, "Ok", [v0.fields[0]]) if good else Adt(RES, "Err", [A[1]])
        if n == "ok_or_else" and len(args) == 2 and v0.name == OPT:
            if good:
                return Adt(RES, "Ok", [v0.fields[0]])
            return m.apply(s, fi, t, args[1], [], lambda r: Adt(RES, "Err", [r]))
        if n == "map" and len(args) == 2:
            if not good:
                return v0
            nm, vr = v0.name, v0.variant
            return m.apply(s, fi, t, args[1], [v0.fields[0]], lambda r: Adt(nm, vr, [r]))
        if n == "map_err" and len(args) == 2 and v0.name == RES:
            if good:
                return v0
            return m.apply(s, fi, t, args[1], [v0.fields[0]], lambda r: Adt(RES, "Err", [r]))
        if n == "and_then" and len(args) == 2:
            if not good:
                return v0
            return m.apply(s, fi, t, args[1], [v0.fields[0]], lambda r: r)
        if n == "unwrap_or_else" and len(args) == 2:
            if good:
                return v0.fields[0]
            return m.apply(s, fi, t, args[1], [] if v0.name == OPT else [v0.fields[0]], lambda r: r)
        if n == "or_else" and len(args) == 2:
            if good:
                return v0
            return m.apply(s, fi, t, args[1], [] if v0.name == OPT else [v0.fields[0]], lambda r: r)
        if n in ("copied", "cloned") and v0.name == OPT:
            return some(m._freeze(s, v0.fields[0])) if good else v0
        if n in ("as_ref", "as_mut", "as_deref"):
            return v0
        if n == "branch" and trait == "core::ops::Try":
            if good:
                return Adt(CF, "Continue", [v0.fields[0]])
            return Adt(CF, "Break", [Adt(v0.name, v0.variant, v0.fields)])
        if n == "from_residual":
            if v0.name == OPT:
                return NONE
            e = v0.fields[0] if v0.fields else TOP
            mm = re.match(r"^<core::result::Result<.*, (.*)> as core::ops::FromResidual<core::result::Result<core::convert::Infallible, (.*)>>>::from_residual$", fk.i)
            if mm and norm_ty(mm.group(1)) != norm_ty(mm.group(2)):
                ib = find_from_impl(m.F, mm.group(2), mm.group(1))
                if ib is not None:
                    r = m.call_sync(s, FnRef(_fk_of(ib)), [e])
                    e = r if r != TOP else T("conv", mm.group(2), mm.group(1), e)
                else:
                    e = T("conv", mm.group(2), mm.group(1), e)
            return Adt(RES, "Err", [e])
    if n == "from_output" and trait == "core::ops::Try" and len(args) == 1:
        h = ty_head(m.dest_type(s, fi, t, fk) or "")
        if h == OPT:
            return some(A[0])
        if h == RES:
            return Adt(RES, "Ok", [A[0]])
    # ---------------------------------------------------------------- conversions
    if n in ("from", "into") and len(args) == 1 and ("core::convert::From" in (trait, ) or "core::convert::Into" in (trait, ) or "convert::From<" in d or trait in ("core::convert::From", "core::convert::Into")):
        tys = types_of_conv(fk)
        if tys:
            src, dst = tys
            if norm_ty(src) == norm_ty(dst):
                return args[0]
            if (src in INT_BITS or src == "bool") and dst in INT_BITS and isinstance(A[0], int):
                return int(A[0])
            ib = find_from_impl(m.F, src, dst)
            if ib is not None and m.policy(ib):
                m._push(s, fi, t, ib, list(args), _fk_of(ib))
                return _Push()
            if ib is not None or not m.F.bodies.get(d):
                return T("conv", norm_ty(src), norm_ty(dst), m._freeze(s, A[0]))
    if d in ("core::mem::replace",) and len(args) == 2 and isinstance(args[0], Ref):
        old = m._freeze(s, A[0])
        m.store(s, args[0], A[1])
        return old
    if d in ("core::mem::swap",) and len(args) == 2 and isinstance(args[0], Ref) and isinstance(args[1], Ref):
        a, b = m._freeze(s, A[0]), m._freeze(s, A[1])
        m.store(s, args[0], b)
        m.store(s, args[1], a)
        return UNIT
    if d in ("core::mem::take",) and len(args) == 1:
        return NotImplemented
    if d in ("core::mem::drop", "core::mem::forget") or n == "drop" and d.startswith("core::mem"):
        return UNIT
    if d == "core::hint::black_box" and len(args) == 1:
        return args[0]
    if n in ("eq", "ne") and len(args) == 2 and trait == "core::cmp::PartialEq":
        a, b = m._freeze(s, A[0]), m._freeze(s, A[1])
        if _concrete(a) and _concrete(b):
            return (a == b) if n == "eq" else (a != b)
        r = _struct_eq(a, b)
        if r is not None:
            if isinstance(r, bool):
                return r if n == "eq" else (not r)
            return r if n == "eq" else T("not", r)
    if n in ("lt", "le", "gt", "ge") and len(args) == 2 and all(isinstance(x, int) for x in A):
        a, b = A
        return {"lt": a < b, "le": a <= b, "gt": a > b, "ge": a >= b}[n]
    if n == "cmp" and len(args) == 2 and all(isinstance(x, int) for x in A):
        a, b = A
        return Adt("core::cmp::Ordering", "Less" if a < b else ("Equal" if a == b else "Greater"), [])
    if n in ("min", "max") and len(args) == 2 and all(isinstance(x, int) for x in A):
        return min(A) if n == "min" else max(A)
    if n == "contains" and len(args) == 2 and is_range(A[0]) and isinstance(A[1], int):
        rb = range_bounds(A[0], None) if A[0].name.split("::")[-1] in ("Range", "RangeInclusive") else None
        if rb is not None:
            return rb[0] <= A[1] < rb[1]
    return NotImplemented


def _struct_eq(a, b):
    """equality of two values of library container types (Option / tuples / byte cells): True / False / the one cell
    comparison it hinges on; None when it is not that simple"""
    if isinstance(a, (int, bool)) and isinstance(b, (int, bool)):
        return a == b
    cell = lambda x: isinstance(x, T) and x[0] in ("in", "cast", "binop")
    if (cell(a) and isinstance(b, int)) or (cell(b) and isinstance(a, int)):
        return T("binop", "Eq", a, b) if cell(a) else T("binop", "Eq", b, a)
    if isinstance(a, Adt) and isinstance(b, Adt) and a.name == b.name and a.name in (OPT, RES):
        if a.variant != b.variant:
            return False
        pend = None
        for x, y in zip(a.fields, b.fields):
            r = _struct_eq(x, y)
            if r is None:
                return None
            if r is False:
                return False
            if r is not True:
                if pend is not None:
                    return None
                pend = r
        return pend if pend is not None else True
    if isinstance(a, Tup) and isinstance(b, Tup) and len(a) == len(b) and len(a) <= 4:
        pend = None
        for x, y in zip(a, b):
            r = _struct_eq(x, y)
            if r is None:
                return None
            if r is False:
                return False
            if r is not True:
                if pend is not None:
                    return None
                pend = r
        return pend if pend is not None else True
    return None


def _convert(v):
    """values of the other abstract interpreter (core.absexec) → this machine's"""
    from . import absexec
    if isinstance(v, (int, bool)):
        return v
    if isinstance(v, absexec.Adt):
        fs = [_convert(x) for x in v.fields]
        return None if any(x is None for x in fs) else Adt(v.name, v.variant, fs)
    if isinstance(v, absexec.Tup):
        fs = [_convert(x) for x in v.items]
        return None if any(x is None for x in fs) else Tup(fs)
    return None


def _concrete(v):
    if isinstance(v, (int, bool)):
        return True
    if isinstance(v, Tup):
        return all(_concrete(x) for x in v)
    if isinstance(v, Adt):
        return all(_concrete(x) for x in v.fields)
    return False


def _fk_of(body):
    from .terms import FnKey
    return FnKey({"def": body.rec["path"], "res_def": body.rec["path"], "inst": body.rec["path"], "res_inst": body.rec["path"], "name": body.name})
