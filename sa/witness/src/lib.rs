//! Compile-fail witnesses (never executed): each `compile_fail,E….` block must be rejected by the type checker with exactly
//! that error, and its `no_run` twin — differing only by the offending line — must compile. They make the type-level part
//! of the encapsulation rules (C07 R-ENCAPS, C09 R-AFFINE-SITES, C03 R-PREP-IMMUT) checkable by rustc itself.

/// W1 — an `Fr` cannot be built from raw limbs outside the crate.
/// ```compile_fail,E0603
/// let one = sm9_core::Fr::one();
/// let _forged = sm9_core::Fr(unsafe_inner(one));
/// fn unsafe_inner<T>(_t: T) -> T { loop {} }
/// ```
/// ```no_run
/// let one = sm9_core::Fr::one();
/// let _fine = one;
/// ```
pub struct W1;

/// W2 — the wrapped field element (and through it the Montgomery limbs) cannot be read or written from outside.
/// ```compile_fail,E0616
/// let a = sm9_core::Fq::one();
/// let _limbs = a.0;
/// ```
/// ```no_run
/// let a = sm9_core::Fq::one();
/// let _bytes = a.to_slice();
/// ```
pub struct W2;

/// W3 — the internal field module is private.
/// ```compile_fail,E0603
/// use sm9_core::fields::Fq;
/// ```
/// ```no_run
/// use sm9_core::Fq;
/// let _ = Fq::one();
/// ```
pub struct W3;

/// W4 — a validated affine point cannot be forged: its constructor field is private.
/// ```compile_fail,E0603
/// use sm9_core::Group;
/// let p = sm9_core::AffineG2::from_jacobian(sm9_core::G2::one()).unwrap();
/// let _forged = sm9_core::AffineG2(inner(p));
/// fn inner<T, U>(_t: T) -> U { loop {} }
/// ```
/// ```no_run
/// use sm9_core::Group;
/// let p = sm9_core::AffineG2::from_jacobian(sm9_core::G2::one()).unwrap();
/// let _fine = sm9_core::AffineG2::new(p.x(), p.y());
/// ```
pub struct W4;

/// W5 — prepared coefficients are private: a prepared value cannot be altered between pairings.
/// ```compile_fail,E0616
/// use sm9_core::Group;
/// let mut p = sm9_core::G2Prepared::from(sm9_core::G2::one());
/// p.coeffs.clear();
/// ```
/// ```no_run
/// use sm9_core::Group;
/// let p = sm9_core::G2Prepared::from(sm9_core::G2::one());
/// let _ = p.pairing(&sm9_core::G1::one());
/// ```
pub struct W5;

/// W6 — the Jacobian coordinates behind the public `G1.0` field are not reachable (only the checked accessors are).
/// ```compile_fail,E0616
/// use sm9_core::Group;
/// let g = sm9_core::G1::one();
/// let _z = g.0.z;
/// ```
/// ```no_run
/// use sm9_core::Group;
/// let g = sm9_core::G1::one();
/// let _z = g.z();
/// ```
pub struct W6;

/// W7 — G2's inner point is private (so `G2Prepared::from(inner)` cannot be fed an unnormalised inner value from outside).
/// ```compile_fail,E0616
/// use sm9_core::Group;
/// let g = sm9_core::G2::one();
/// let _inner = g.0;
/// ```
/// ```no_run
/// use sm9_core::Group;
/// let g = sm9_core::G2::one();
/// let _p = sm9_core::G2Prepared::from(g);
/// ```
pub struct W7;

/// W8 — the crate forbids unsafe code: this is checked on the MIR side (R-ENCAPS); here only that the public integer type
/// of limbs is not exported at all.
/// ```compile_fail,E0603
/// use sm9_core::u256::U256;
/// ```
/// ```no_run
/// use sm9_core::Fr;
/// let _ = Fr::zero();
/// ```
pub struct W8;
