"""Applies the control catalogue to scratch copies of the repository and re-runs a property's check on each (thorough tier)."""
import os, shutil, subprocess, sys, tempfile
from concurrent.futures import ThreadPoolExecutor
from core.report import Rule, VERIF
from .catalogue import CONTROLS


def run_one(prop, ctl, repo):
    d = tempfile.mkdtemp(prefix="sm9ctl.")
    try:
        subprocess.run(["rsync", "-a", "--exclude", "target", "--exclude", ".git", repo.rstrip("/") + "/", d + "/"], check=True)
        if ctl.get("patch"):
            pr = subprocess.run(["patch", "-p1", "-s", "-i", os.path.join(VERIF, ctl["patch"])], cwd=d, capture_output=True, text=True)
            if pr.returncode != 0:
                return ("skipped", "patch %s no longer applies" % ctl["patch"])
        for f, old, new in ctl.get("edits", []):
            p = os.path.join(d, f)
            t = open(p).read()
            if old not in t:
                return ("skipped", "edit no longer applies to %s" % f)
            open(p, "w").write(t.replace(old, new, 1))
        env = dict(os.environ, SM9_CONTROL_RUN="1", VERIF_TIER="quick")
        r = subprocess.run([os.path.join(VERIF, "check"), prop, "--tier", "quick", "--repo", d], capture_output=True, text=True, env=env)
        out = r.stdout
        fired = [l for l in out.splitlines() if l.startswith("  %s:" % prop) or l.startswith("VIOLATION")]
        if r.returncode not in (0, 1):
            return ("error", (out + r.stderr)[-300:])
        if ctl["expect"] == "silent":
            return ("ok", "silent") if r.returncode == 0 else ("false-alarm", "; ".join(fired[:2])[:300])
        if r.returncode != 1:
            return ("missed", "check passed on the broken variant")
        if ctl.get("key") and not any(ctl["key"] in l for l in out.splitlines()):
            return ("wrong-instance", "fired, but not on the named instance %r: %s" % (ctl["key"], "; ".join(fired[:2])[:300]))
        return ("ok", next((l.strip()[:160] for l in out.splitlines() if ctl.get("key", "") in l and l.startswith("  ")), "fired"))
    finally:
        shutil.rmtree(d, ignore_errors=True)


def rule_controls(prop, repo="/repo", jobs=4):
    mine = [c for c in CONTROLS if prop in c["props"]]
    R = Rule("R-CONTROLS", "checker tested both ways on this run: each seeded single-instance variant (compiles, passes the 66 tests) must be reported on the named instance; "
             "each behaviour-preserving refactor must stay silent", floor=0)
    if not mine:
        R.note("no control registered for %s" % prop)
        return R.finish()
    with ThreadPoolExecutor(max_workers=jobs) as ex:
        results = list(ex.map(lambda c: (c, run_one(prop, c, repo)), mine))
    skipped = 0
    for c, (status, detail) in results:
        R.instance()
        if status == "skipped":
            skipped += 1
            R.note("control %s skipped: %s" % (c["id"], detail))
            R.ok()
            continue
        R.check(status == "ok", "%s:control:%s" % (prop, c["id"]), "control %s (%s): %s — %s" % (c["id"], c["expect"], status, detail),
                sample={"control": c["id"], "kind": "positive" if c["expect"] == "fire" else "negative (equivalent edit)", "outcome": detail[:140]})
    if skipped and skipped * 2 > len(mine):
        # the tree was edited where the controls' textual edits anchor: the self-test is weaker on this run, the verdict of the
        # rules themselves is unaffected (a stale self-test is not a property violation)
        R.note("%d of %d controls no longer apply to the tree (their source anchors were edited)" % (skipped, len(mine)))
    return R.finish()
