// sm9-facts: a rustc_private driver that compiles one crate exactly as cargo asks and, for the
// crate named in SM9_FACTS_CRATE (default sm9_core), writes a JSON dump of the type-checked
// program: every MIR body (statements, terminators, resolved callees, spans, macro
// backtraces), ADTs, impls, constants (through rustc's const evaluation), crate lint levels
// and the monomorphic call graph reachable from every non-generic local function.
//
// Nothing of the analysed crate is executed; rustc's CTFE is used only for `const` items.
#![feature(rustc_private)]
#![allow(clippy::all)]

extern crate rustc_abi;
extern crate rustc_driver;
extern crate rustc_hir;
extern crate rustc_interface;
extern crate rustc_lint;
extern crate rustc_middle;
extern crate rustc_session;
extern crate rustc_span;

use rustc_hir::def::DefKind;
use rustc_hir::def_id::{DefId, LOCAL_CRATE};
use rustc_middle::mir::{
    self, AggregateKind, BasicBlock, Body, Const, ConstValue, Operand, Place, ProjectionElem,
    Rvalue, StatementKind, TerminatorKind,
};
use rustc_middle::ty::print::PrintTraitRefExt;
use rustc_middle::ty::{self, EarlyBinder, Instance, InstanceKind, Ty, TyCtxt, TypingEnv};
use rustc_span::Span;
use std::collections::{BTreeMap, HashMap, HashSet, VecDeque};
use std::fmt::Write as _;

// ------------------------------------------------------------------ tiny JSON
#[derive(Clone)]
enum J {
    Null,
    B(bool),
    I(i128),
    S(String),
    A(Vec<J>),
    O(Vec<(String, J)>),
}
fn s<T: Into<String>>(x: T) -> J {
    J::S(x.into())
}
fn o(v: Vec<(&str, J)>) -> J {
    J::O(v.into_iter().map(|(k, v)| (k.to_string(), v)).collect())
}
impl J {
    fn write(&self, out: &mut String) {
        match self {
            J::Null => out.push_str("null"),
            J::B(b) => out.push_str(if *b { "true" } else { "false" }),
            J::I(i) => {
                // big integers are emitted as strings to survive every JSON reader
                if *i > (1i128 << 53) || *i < -(1i128 << 53) {
                    let _ = write!(out, "\"{}\"", i);
                } else {
                    let _ = write!(out, "{}", i);
                }
            }
            J::S(st) => {
                out.push('"');
                for c in st.chars() {
                    match c {
                        '"' => out.push_str("\\\""),
                        '\\' => out.push_str("\\\\"),
                        '\n' => out.push_str("\\n"),
                        '\r' => out.push_str("\\r"),
                        '\t' => out.push_str("\\t"),
                        c if (c as u32) < 0x20 => {
                            let _ = write!(out, "\\u{:04x}", c as u32);
                        }
                        c => out.push(c),
                    }
                }
                out.push('"');
            }
            J::A(v) => {
                out.push('[');
                for (i, x) in v.iter().enumerate() {
                    if i > 0 {
                        out.push(',');
                    }
                    x.write(out);
                }
                out.push(']');
            }
            J::O(v) => {
                out.push('{');
                for (i, (k, x)) in v.iter().enumerate() {
                    if i > 0 {
                        out.push(',');
                    }
                    J::S(k.clone()).write(out);
                    out.push(':');
                    x.write(out);
                }
                out.push('}');
            }
        }
    }
}

// ------------------------------------------------------------------ helpers
fn path(tcx: TyCtxt<'_>, d: DefId) -> String {
    ty::print::with_no_trimmed_paths!(ty::print::with_crate_prefix!(tcx.def_path_str(d)))
}
fn path_args<'tcx>(tcx: TyCtxt<'tcx>, d: DefId, a: ty::GenericArgsRef<'tcx>) -> String {
    ty::print::with_no_trimmed_paths!(ty::print::with_crate_prefix!(
        tcx.def_path_str_with_args(d, a)
    ))
}
fn tystr(t: Ty<'_>) -> String {
    ty::print::with_no_trimmed_paths!(ty::print::with_crate_prefix!(t.to_string()))
}
fn inst_str<'tcx>(tcx: TyCtxt<'tcx>, i: Instance<'tcx>) -> String {
    let base = path_args(tcx, i.def_id(), i.args);
    match i.def {
        InstanceKind::Item(_) => base,
        other => format!("{} [{}]", base, shim_kind(&other)),
    }
}
fn shim_kind(k: &InstanceKind<'_>) -> &'static str {
    match k {
        InstanceKind::Item(_) => "item",
        InstanceKind::Intrinsic(_) => "intrinsic",
        InstanceKind::VTableShim(_) => "vtable_shim",
        InstanceKind::ReifyShim(..) => "reify_shim",
        InstanceKind::FnPtrShim(..) => "fnptr_shim",
        InstanceKind::Virtual(..) => "virtual",
        InstanceKind::ClosureOnceShim { .. } => "closure_once_shim",
        InstanceKind::DropGlue(..) => "drop_glue",
        InstanceKind::CloneShim(..) => "clone_shim",
        _ => "other_shim",
    }
}

fn span_j(tcx: TyCtxt<'_>, sp: Span) -> J {
    let sm = tcx.sess.source_map();
    let mut macros = Vec::new();
    let mut cur = sp;
    let mut guard = 0;
    while cur.from_expansion() && guard < 16 {
        let ed = cur.ctxt().outer_expn_data();
        macros.push(s(format!("{}", ed.kind.descr())));
        cur = ed.call_site;
        guard += 1;
    }
    let lo = sm.lookup_char_pos(cur.lo());
    let file = format!("{}", lo.file.name.prefer_local_unconditionally());
    let mut v = vec![("file", s(file)), ("line", J::I(lo.line as i128)), ("col", J::I(lo.col.0 as i128 + 1))];
    if !macros.is_empty() {
        v.push(("macros", J::A(macros)));
        let inner = sm.lookup_char_pos(sp.lo());
        v.push(("inner_line", J::I(inner.line as i128)));
        v.push(("inner_file", s(format!("{}", inner.file.name.prefer_local_unconditionally()))));
    }
    o(v)
}

fn adt_path_of<'tcx>(tcx: TyCtxt<'tcx>, t: Ty<'tcx>) -> Option<String> {
    match t.peel_refs().kind() {
        ty::Adt(def, _) => Some(path(tcx, def.did())),
        _ => None,
    }
}

struct Cx<'tcx> {
    tcx: TyCtxt<'tcx>,
}

impl<'tcx> Cx<'tcx> {
    fn place(&self, p: &Place<'tcx>) -> J {
        let mut proj = Vec::new();
        for e in p.projection.iter() {
            proj.push(match e {
                ProjectionElem::Deref => s("deref"),
                ProjectionElem::Field(f, t) => o(vec![("f", J::I(f.as_usize() as i128)), ("ty", s(tystr(t)))]),
                ProjectionElem::Index(l) => o(vec![("idx", J::I(l.as_usize() as i128))]),
                ProjectionElem::ConstantIndex { offset, min_length, from_end } => o(vec![
                    ("cidx", J::I(offset as i128)),
                    ("min", J::I(min_length as i128)),
                    ("from_end", J::B(from_end)),
                ]),
                ProjectionElem::Subslice { from, to, from_end } => {
                    o(vec![("sub_from", J::I(from as i128)), ("sub_to", J::I(to as i128)), ("from_end", J::B(from_end))])
                }
                ProjectionElem::Downcast(name, v) => o(vec![
                    ("down", J::I(v.as_usize() as i128)),
                    ("name", name.map(|n| s(n.to_string())).unwrap_or(J::Null)),
                ]),
                other => o(vec![("other", s(format!("{:?}", other)))]),
            });
        }
        o(vec![("l", J::I(p.local.as_usize() as i128)), ("p", J::A(proj))])
    }

    fn fn_def_j(&self, d: DefId, a: ty::GenericArgsRef<'tcx>, owner: DefId) -> Vec<(&'static str, J)> {
        let tcx = self.tcx;
        let mut v = vec![
            ("def", s(path(tcx, d))),
            ("inst", s(path_args(tcx, d, a))),
            ("name", s(tcx.item_name(d).to_string())),
            ("local", J::B(d.is_local())),
        ];
        // container information of the *declared* callee
        if let Some(tr) = tcx.trait_of_assoc(d) {
            v.push(("trait", s(path(tcx, tr))));
        }
        if let Some(imp) = tcx.impl_of_assoc(d) {
            let st = tcx.type_of(imp).instantiate_identity().skip_norm_wip();
            v.push(("impl_self", s(tystr(st))));
            if tcx.impl_opt_trait_ref(imp).is_some() {
                let tr = tcx.impl_trait_ref(imp).instantiate_identity().skip_norm_wip();
                v.push(("impl_trait", s(path(tcx, tr.def_id))));
            }
        }
        let args_j: Vec<J> = a
            .iter()
            .map(|ga| match ga.kind() {
                ty::GenericArgKind::Type(t) => s(tystr(t)),
                ty::GenericArgKind::Const(c) => s(format!("{}", c)),
                ty::GenericArgKind::Lifetime(_) => s("'_"),
            })
            .collect();
        v.push(("args", J::A(args_j)));
        // best-effort resolution in the (possibly generic) context of the owner
        let env = TypingEnv::post_analysis(tcx, owner);
        if let Ok(Some(inst)) = Instance::try_resolve(tcx, env, d, a) {
            v.push(("res_def", s(path(tcx, inst.def_id()))));
            v.push(("res_inst", s(inst_str(tcx, inst))));
            v.push(("res_local", J::B(inst.def_id().is_local())));
            v.push(("res_kind", s(shim_kind(&inst.def))));
        }
        v
    }

    fn constant(&self, c: &mir::ConstOperand<'tcx>, owner: DefId) -> J {
        let tcx = self.tcx;
        let t = c.const_.ty();
        let mut v: Vec<(&str, J)> = vec![("k", s("const")), ("ty", s(tystr(t)))];
        match t.kind() {
            ty::FnDef(d, a) => {
                v.push(("fn", o(self.fn_def_j(*d, a, owner))));
                return o(v);
            }
            _ => {}
        }
        let env = TypingEnv::post_analysis(tcx, owner);
        if let Some(si) = c.const_.try_eval_scalar_int(tcx, env) {
            let size = si.size();
            let bits = si.to_bits(size);
            if t.is_signed() {
                let sh = 128 - size.bits();
                let sv = ((bits as i128) << sh) >> sh;
                v.push(("int", J::I(sv)));
            } else if bits <= i128::MAX as u128 {
                v.push(("int", J::I(bits as i128)));
            } else {
                v.push(("int", s(format!("{}", bits))));
            }
            return o(v);
        }
        match c.const_ {
            Const::Unevaluated(u, _) => {
                v.push(("uneval_def", s(path(tcx, u.def))));
                if let Some(p) = u.promoted {
                    v.push(("promoted", J::I(p.as_usize() as i128)));
                }
            }
            Const::Val(cv, _) => match cv {
                ConstValue::Scalar(mir::interpret::Scalar::Ptr(ptr, _)) => {
                    let (prov, off) = ptr.prov_and_relative_offset();
                    let aid = prov.alloc_id();
                    match tcx.global_alloc(aid) {
                        mir::interpret::GlobalAlloc::Static(d) => {
                            v.push(("static", s(path(tcx, d))));
                        }
                        mir::interpret::GlobalAlloc::Memory(al) => {
                            let al = al.inner();
                            let n = al.len();
                            if n <= 4096 && al.provenance().ptrs().is_empty() {
                                let bytes = al.inspect_with_uninit_and_ptr_outside_interpreter(0..n);
                                v.push(("mem_hex", s(hex(bytes))));
                                v.push(("mem_off", J::I(off.bytes() as i128)));
                            }
                        }
                        _ => {}
                    }
                }
                ConstValue::ZeroSized => {
                    v.push(("zst", J::B(true)));
                }
                ConstValue::Slice { alloc_id, meta } => {
                    if let mir::interpret::GlobalAlloc::Memory(al) = tcx.global_alloc(alloc_id) {
                        let al = al.inner();
                        let n = (meta as usize).min(al.len());
                        if n <= 4096 {
                            let bytes = al.inspect_with_uninit_and_ptr_outside_interpreter(0..n);
                            v.push(("slice_hex", s(hex(bytes))));
                        }
                    }
                }
                ConstValue::Indirect { alloc_id, offset } => {
                    if let mir::interpret::GlobalAlloc::Memory(al) = tcx.global_alloc(alloc_id) {
                        let al = al.inner();
                        let n = al.len();
                        if n <= 4096 && al.provenance().ptrs().is_empty() {
                            let bytes = al.inspect_with_uninit_and_ptr_outside_interpreter(0..n);
                            v.push(("mem_hex", s(hex(bytes))));
                            v.push(("mem_off", J::I(offset.bytes() as i128)));
                        }
                    }
                }
                _ => {}
            },
            Const::Ty(..) => {
                v.push(("tyconst", s(format!("{}", c.const_))));
            }
        }
        v.push(("text", s(format!("{}", c.const_))));
        o(v)
    }

    fn operand(&self, op: &Operand<'tcx>, owner: DefId) -> J {
        match op {
            Operand::Copy(p) => o(vec![("k", s("copy")), ("place", self.place(p))]),
            Operand::Move(p) => o(vec![("k", s("move")), ("place", self.place(p))]),
            Operand::Constant(c) => self.constant(c, owner),
            #[allow(unreachable_patterns)]
            other => o(vec![("k", s("other")), ("text", s(format!("{:?}", other)))]),
        }
    }

    fn rvalue(&self, rv: &Rvalue<'tcx>, owner: DefId) -> J {
        let tcx = self.tcx;
        match rv {
            Rvalue::Use(op, ..) => o(vec![("k", s("use")), ("op", self.operand(op, owner))]),
            Rvalue::Repeat(op, n) => o(vec![("k", s("repeat")), ("op", self.operand(op, owner)), ("n", s(format!("{}", n)))]),
            Rvalue::Ref(_, bk, p) => o(vec![
                ("k", s("ref")),
                ("mut", J::B(matches!(bk, mir::BorrowKind::Mut { .. }))),
                ("place", self.place(p)),
            ]),
            Rvalue::RawPtr(k, p) => o(vec![("k", s("rawptr")), ("kind", s(format!("{:?}", k))), ("place", self.place(p))]),
            Rvalue::Cast(ck, op, t) => o(vec![
                ("k", s("cast")),
                ("kind", s(format!("{:?}", ck))),
                ("op", self.operand(op, owner)),
                ("ty", s(tystr(*t))),
            ]),
            Rvalue::BinaryOp(bop, ops) => o(vec![
                ("k", s("binop")),
                ("op", s(format!("{:?}", bop))),
                ("a", self.operand(&ops.0, owner)),
                ("b", self.operand(&ops.1, owner)),
            ]),
            Rvalue::UnaryOp(uop, op) => o(vec![("k", s("unop")), ("op", s(format!("{:?}", uop))), ("a", self.operand(op, owner))]),
            Rvalue::Discriminant(p) => o(vec![("k", s("discr")), ("place", self.place(p))]),
            Rvalue::Aggregate(ak, ops) => {
                let mut v = vec![("k", s("aggregate"))];
                match &**ak {
                    AggregateKind::Array(t) => {
                        v.push(("agg", s("array")));
                        v.push(("elem_ty", s(tystr(*t))));
                    }
                    AggregateKind::Tuple => v.push(("agg", s("tuple"))),
                    AggregateKind::Adt(d, variant, args, _, _) => {
                        v.push(("agg", s("adt")));
                        v.push(("adt", s(path(tcx, *d))));
                        v.push(("variant", J::I(variant.as_usize() as i128)));
                        let ad = tcx.adt_def(*d);
                        v.push(("variant_name", s(ad.variant(*variant).name.to_string())));
                        v.push(("adt_inst", s(path_args(tcx, *d, args))));
                    }
                    AggregateKind::Closure(d, _) => {
                        v.push(("agg", s("closure")));
                        v.push(("closure", s(path(tcx, *d))));
                    }
                    other => {
                        v.push(("agg", s("other")));
                        v.push(("text", s(format!("{:?}", other))));
                    }
                }
                v.push(("ops", J::A(ops.iter().map(|x| self.operand(x, owner)).collect())));
                o(v)
            }
            Rvalue::CopyForDeref(p) => o(vec![("k", s("use")), ("op", o(vec![("k", s("copy")), ("place", self.place(p))]))]),
            other => o(vec![("k", s("other")), ("text", s(format!("{:?}", other)))]),
        }
    }

    fn body(&self, body: &Body<'tcx>, owner: DefId) -> J {
        let tcx = self.tcx;
        let mut locals = Vec::new();
        for (_l, d) in body.local_decls.iter_enumerated() {
            let mut v = vec![("ty", s(tystr(d.ty))), ("mut", J::B(d.mutability.is_mut()))];
            if let Some(a) = adt_path_of(tcx, d.ty) {
                v.push(("adt", s(a)));
            }
            locals.push(o(v));
        }
        let mut dbg = Vec::new();
        for vdi in &body.var_debug_info {
            if let mir::VarDebugInfoContents::Place(p) = &vdi.value {
                dbg.push(o(vec![("name", s(vdi.name.to_string())), ("place", self.place(p))]));
            }
        }
        let mut blocks = Vec::new();
        for (_bb, data) in body.basic_blocks.iter_enumerated() {
            let mut stmts = Vec::new();
            for st in &data.statements {
                let sp = st.source_info.span;
                match &st.kind {
                    StatementKind::Assign(b) => {
                        let (p, rv) = &**b;
                        stmts.push(o(vec![
                            ("k", s("assign")),
                            ("place", self.place(p)),
                            ("rv", self.rvalue(rv, owner)),
                            ("span", span_j(tcx, sp)),
                        ]));
                    }
                    StatementKind::SetDiscriminant { place, variant_index } => {
                        stmts.push(o(vec![
                            ("k", s("set_discr")),
                            ("place", self.place(place)),
                            ("variant", J::I(variant_index.as_usize() as i128)),
                            ("span", span_j(tcx, sp)),
                        ]));
                    }
                    StatementKind::StorageLive(_)
                    | StatementKind::StorageDead(_)
                    | StatementKind::Nop
                    | StatementKind::FakeRead(..)
                    | StatementKind::PlaceMention(..)
                    | StatementKind::AscribeUserType(..)
                    | StatementKind::Coverage(..)
                    | StatementKind::ConstEvalCounter => {}
                    other => {
                        stmts.push(o(vec![("k", s("other")), ("text", s(format!("{:?}", other))), ("span", span_j(tcx, sp))]));
                    }
                }
            }
            let term = data.terminator();
            let tsp = term.source_info.span;
            let bbn = |b: &BasicBlock| J::I(b.as_usize() as i128);
            let t = match &term.kind {
                TerminatorKind::Goto { target } => o(vec![("k", s("goto")), ("target", bbn(target))]),
                TerminatorKind::SwitchInt { discr, targets } => {
                    let mut arms = Vec::new();
                    for (val, bb) in targets.iter() {
                        let vj = if val <= i128::MAX as u128 { J::I(val as i128) } else { s(format!("{}", val)) };
                        arms.push(J::A(vec![vj, bbn(&bb)]));
                    }
                    let dty = discr.ty(&body.local_decls, tcx);
                    o(vec![
                        ("k", s("switch")),
                        ("discr", self.operand(discr, owner)),
                        ("discr_ty", s(tystr(dty))),
                        ("arms", J::A(arms)),
                        ("otherwise", bbn(&targets.otherwise())),
                    ])
                }
                TerminatorKind::Return => o(vec![("k", s("return"))]),
                TerminatorKind::Unreachable => o(vec![("k", s("unreachable"))]),
                TerminatorKind::UnwindResume => o(vec![("k", s("resume"))]),
                TerminatorKind::UnwindTerminate(_) => o(vec![("k", s("terminate"))]),
                TerminatorKind::Drop { place, target, .. } => {
                    o(vec![("k", s("drop")), ("place", self.place(place)), ("target", bbn(target))])
                }
                TerminatorKind::Call { func, args, destination, target, .. } => {
                    let fty = func.ty(&body.local_decls, tcx);
                    let mut v = vec![("k", s("call"))];
                    match fty.kind() {
                        ty::FnDef(d, a) => v.push(("fn", o(self.fn_def_j(*d, a, owner)))),
                        _ => v.push(("fn_operand", self.operand(func, owner))),
                    }
                    v.push(("fn_ty", s(tystr(fty))));
                    v.push(("args", J::A(args.iter().map(|a| self.operand(&a.node, owner)).collect())));
                    v.push(("dest", self.place(destination)));
                    v.push(("target", target.as_ref().map(bbn).unwrap_or(J::Null)));
                    o(v)
                }
                TerminatorKind::Assert { cond, expected, msg, target, .. } => {
                    let (kind, ops): (String, Vec<J>) = match &**msg {
                        mir::AssertKind::BoundsCheck { len, index } => {
                            ("BoundsCheck".into(), vec![self.operand(len, owner), self.operand(index, owner)])
                        }
                        mir::AssertKind::Overflow(op, a, b) => {
                            (format!("Overflow({:?})", op), vec![self.operand(a, owner), self.operand(b, owner)])
                        }
                        mir::AssertKind::OverflowNeg(a) => ("OverflowNeg".into(), vec![self.operand(a, owner)]),
                        mir::AssertKind::DivisionByZero(a) => ("DivisionByZero".into(), vec![self.operand(a, owner)]),
                        mir::AssertKind::RemainderByZero(a) => ("RemainderByZero".into(), vec![self.operand(a, owner)]),
                        other => (format!("{:?}", other).split('(').next().unwrap_or("Other").to_string(), vec![]),
                    };
                    o(vec![
                        ("k", s("assert")),
                        ("cond", self.operand(cond, owner)),
                        ("expected", J::B(*expected)),
                        ("kind", s(kind)),
                        ("ops", J::A(ops)),
                        ("target", bbn(target)),
                    ])
                }
                other => o(vec![("k", s("other")), ("text", s(format!("{:?}", other)))]),
            };
            let mut tv = match t {
                J::O(v) => v,
                _ => unreachable!(),
            };
            tv.push(("span".to_string(), span_j(tcx, tsp)));
            blocks.push(o(vec![("stmts", J::A(stmts)), ("term", J::O(tv)), ("cleanup", J::B(data.is_cleanup))]));
        }
        o(vec![
            ("arg_count", J::I(body.arg_count as i128)),
            ("locals", J::A(locals)),
            ("debug", J::A(dbg)),
            ("blocks", J::A(blocks)),
        ])
    }

    fn item_header(&self, d: DefId) -> Vec<(&'static str, J)> {
        let tcx = self.tcx;
        let kind = tcx.def_kind(d);
        let mut v = vec![
            ("path", s(path(tcx, d))),
            ("kind", s(format!("{:?}", kind).split([' ', '{', '(']).next().unwrap_or("").to_string())),
            ("local", J::B(d.is_local())),
            ("span", span_j(tcx, tcx.def_span(d))),
        ];
        if matches!(kind, DefKind::Fn | DefKind::AssocFn | DefKind::Ctor(..)) || matches!(kind, DefKind::Static { .. }) {
            v.push(("vis", s(format!("{:?}", tcx.visibility(d)))));
        }
        if matches!(kind, DefKind::Fn | DefKind::AssocFn | DefKind::Closure) {
            if let Some(n) = tcx.opt_item_name(d) {
                v.push(("name", s(n.to_string())));
            }
        }
        if let Some(tr) = tcx.trait_of_assoc(d) {
            v.push(("trait_decl", s(path(tcx, tr))));
        }
        if let Some(imp) = tcx.impl_of_assoc(d) {
            let st = tcx.type_of(imp).instantiate_identity().skip_norm_wip();
            v.push(("impl_self", s(tystr(st))));
            if let Some(a) = adt_path_of(tcx, st) {
                v.push(("impl_self_adt", s(a)));
            }
            if tcx.impl_opt_trait_ref(imp).is_some() {
                let tr = tcx.impl_trait_ref(imp).instantiate_identity().skip_norm_wip();
                v.push(("impl_trait", s(path(tcx, tr.def_id))));
                v.push(("impl_trait_full", s(ty::print::with_no_trimmed_paths!(ty::print::with_crate_prefix!(format!("{}", tr.print_only_trait_path()))))));
            }
            v.push(("derived", J::B(tcx.is_automatically_derived(imp))));
        }
        if matches!(kind, DefKind::Fn | DefKind::AssocFn) {
            let g = tcx.generics_of(d);
            let own_ty_params = g.own_params.iter().filter(|p| !matches!(p.kind, ty::GenericParamDefKind::Lifetime)).count();
            v.push(("own_type_params", J::I(own_ty_params as i128)));
            v.push(("requires_mono", J::B(g.requires_monomorphization(tcx))));
            let sig = tcx.fn_sig(d).instantiate_identity().skip_norm_wip().skip_binder();
            v.push(("inputs", J::A(sig.inputs().iter().map(|t| s(tystr(*t))).collect())));
            v.push(("output", s(tystr(sig.output()))));
        }
        v
    }
}

fn hex(b: &[u8]) -> String {
    let mut out = String::with_capacity(b.len() * 2);
    for x in b {
        let _ = write!(out, "{:02x}", x);
    }
    out
}

// ------------------------------------------------------------------ monomorphic walk
fn collect_fn_types<'tcx>(t: Ty<'tcx>, out: &mut Vec<(DefId, ty::GenericArgsRef<'tcx>, bool)>, depth: usize) {
    if depth > 6 {
        return;
    }
    match t.kind() {
        ty::FnDef(d, a) => out.push((*d, a, false)),
        ty::Closure(d, a) => out.push((*d, a, true)),
        ty::Ref(_, inner, _) => collect_fn_types(*inner, out, depth + 1),
        ty::Tuple(ts) => {
            for x in ts.iter() {
                collect_fn_types(x, out, depth + 1)
            }
        }
        ty::Adt(_, args) => {
            for ga in args.iter() {
                if let ty::GenericArgKind::Type(x) = ga.kind() {
                    collect_fn_types(x, out, depth + 1)
                }
            }
        }
        _ => {}
    }
}

fn skip_expand(p: &str) -> bool {
    p.starts_with("core::fmt")
        || p.starts_with("core::panicking")
        || p.starts_with("alloc::fmt")
        || p.starts_with("core::panic")
        || p.starts_with("std::")
        || p.starts_with("alloc::alloc")
        || p.starts_with("alloc::raw_vec")
        || p.starts_with("core::str")
        || p.starts_with("core::unicode")
        || p.starts_with("core::ub_checks")
        || p.starts_with("core::intrinsics")
        || p.starts_with("core::ptr")
        || p.starts_with("core::alloc")
        || p.starts_with("core::hint")
        || p.starts_with("core::mem")
}

struct Facts;

impl rustc_driver::Callbacks for Facts {
    fn after_analysis<'tcx>(&mut self, _c: &rustc_interface::interface::Compiler, tcx: TyCtxt<'tcx>) -> rustc_driver::Compilation {
        let want = std::env::var("SM9_FACTS_CRATE").unwrap_or_else(|_| "sm9_core".to_string());
        let cname = tcx.crate_name(LOCAL_CRATE).to_string();
        if cname != want {
            return rustc_driver::Compilation::Continue;
        }
        let out_path = match std::env::var("SM9_FACTS_OUT") {
            Ok(p) => p,
            Err(_) => return rustc_driver::Compilation::Continue,
        };
        let cx = Cx { tcx };
        let mut root: Vec<(&str, J)> = vec![("crate", s(cname.clone()))];

        // ---- configuration as the compiler sees it
        let opts = &tcx.sess.opts;
        root.push((
            "config",
            o(vec![
                ("debug_assertions", J::B(opts.debug_assertions)),
                ("overflow_checks", J::B(tcx.sess.overflow_checks())),
                ("opt_level", s(format!("{:?}", opts.optimize))),
                ("test_harness", J::B(opts.test)),
                ("crate_types", s(format!("{:?}", tcx.crate_types()))),
            ]),
        ));

        // ---- crate-level lint levels that are rules themselves
        {
            let hid = rustc_hir::CRATE_HIR_ID;
            let store = rustc_lint::unerased_lint_store(tcx.sess);
            let lint = store.get_lints().iter().copied().find(|l| l.name_lower() == "unsafe_code").expect("unsafe_code lint");
            let lvl = tcx.lint_level_at_node(lint, hid);
            root.push(("lint_unsafe_code", s(format!("{:?}", lvl.level))));
        }

        // ---- ADTs, impls, consts, statics
        let mut adts = Vec::new();
        let mut impls = Vec::new();
        let mut consts = Vec::new();
        let mut statics = Vec::new();
        let mut mods = Vec::new();
        for id in tcx.hir_crate_items(()).definitions() {
            let d = id.to_def_id();
            let kind = tcx.def_kind(d);
            match kind {
                DefKind::Struct | DefKind::Enum | DefKind::Union => {
                    let ad = tcx.adt_def(d);
                    let ident_ty = tcx.type_of(d).instantiate_identity().skip_norm_wip();
                    let env = TypingEnv::post_analysis(tcx, d);
                    let mut variants = Vec::new();
                    for v in ad.variants() {
                        let mut fields = Vec::new();
                        for f in &v.fields {
                            let fty = tcx.type_of(f.did).instantiate_identity().skip_norm_wip();
                            fields.push(o(vec![
                                ("name", s(f.name.to_string())),
                                ("ty", s(tystr(fty))),
                                ("vis", s(format!("{:?}", f.vis))),
                            ]));
                        }
                        variants.push(o(vec![("name", s(v.name.to_string())), ("fields", J::A(fields))]));
                    }
                    let generic = tcx.generics_of(d).requires_monomorphization(tcx);
                    let mut v = vec![
                        ("path", s(path(tcx, d))),
                        ("kind", s(format!("{:?}", kind))),
                        ("vis", s(format!("{:?}", tcx.visibility(d)))),
                        ("variants", J::A(variants)),
                        ("generic", J::B(generic)),
                        ("span", span_j(tcx, tcx.def_span(d))),
                    ];
                    if !generic {
                        v.push(("freeze", J::B(ident_ty.is_freeze(tcx, env))));
                        v.push(("copy", J::B(tcx.type_is_copy_modulo_regions(env, ident_ty))));
                        v.push(("needs_drop", J::B(ident_ty.needs_drop(tcx, env))));
                    }
                    adts.push(o(v));
                }
                DefKind::Impl { of_trait } => {
                    let st = tcx.type_of(d).instantiate_identity().skip_norm_wip();
                    let mut v = vec![
                        ("self_ty", s(tystr(st))),
                        ("self_adt", adt_path_of(tcx, st).map(s).unwrap_or(J::Null)),
                        ("derived", J::B(tcx.is_automatically_derived(d))),
                        ("span", span_j(tcx, tcx.def_span(d))),
                    ];
                    if of_trait {
                        let tr = tcx.impl_trait_ref(d).instantiate_identity().skip_norm_wip();
                        v.push(("trait", s(path(tcx, tr.def_id))));
                        v.push((
                            "trait_full",
                            s(ty::print::with_no_trimmed_paths!(ty::print::with_crate_prefix!(format!("{}", tr.print_only_trait_path())))),
                        ));
                    }
                    let items: Vec<J> = tcx.associated_item_def_ids(d).iter().map(|x| s(path(tcx, *x))).collect();
                    v.push(("items", J::A(items)));
                    impls.push(o(v));
                }
                DefKind::Const { .. } | DefKind::AssocConst { .. } => {
                    let t = tcx.type_of(d).instantiate_identity().skip_norm_wip();
                    let mut v = vec![("path", s(path(tcx, d))), ("ty", s(tystr(t))), ("span", span_j(tcx, tcx.def_span(d)))];
                    if !tcx.generics_of(d).requires_monomorphization(tcx) {
                        if let Ok(val) = tcx.const_eval_poly(d) {
                            match val {
                                ConstValue::Scalar(mir::interpret::Scalar::Int(si)) => {
                                    let bits = si.to_bits(si.size());
                                    v.push(("int", s(format!("{}", bits))));
                                }
                                ConstValue::Indirect { alloc_id, offset } => {
                                    if let mir::interpret::GlobalAlloc::Memory(al) = tcx.global_alloc(alloc_id) {
                                        let al = al.inner();
                                        let n = al.len();
                                        if n <= 65536 && al.provenance().ptrs().is_empty() {
                                            let bytes = al.inspect_with_uninit_and_ptr_outside_interpreter(0..n);
                                            v.push(("bytes_hex", s(hex(bytes))));
                                            v.push(("offset", J::I(offset.bytes() as i128)));
                                            // the value as rustc itself prints it for users (aggregates destructured): `[Op::Mul(0_usize, 1_usize), …]`
                                            if n <= 8192 && !matches!(t.kind(), ty::Array(e, _) if e.is_integral()) {
                                                let txt = ty::print::with_no_trimmed_paths!(ty::print::with_crate_prefix!(format!("{}", mir::Const::Val(val, t))));
                                                if txt.len() <= 65536 {
                                                    v.push(("value_text", s(txt)));
                                                }
                                            }
                                        }
                                    }
                                }
                                _ => {}
                            }
                        }
                    }
                    consts.push(o(v));
                }
                DefKind::Static { mutability, .. } => {
                    let t = tcx.type_of(d).instantiate_identity().skip_norm_wip();
                    let env = TypingEnv::post_analysis(tcx, d);
                    statics.push(o(vec![
                        ("path", s(path(tcx, d))),
                        ("ty", s(tystr(t))),
                        ("mutable", J::B(mutability.is_mut())),
                        ("freeze", J::B(t.is_freeze(tcx, env))),
                        ("vis", s(format!("{:?}", tcx.visibility(d)))),
                        ("span", span_j(tcx, tcx.def_span(d))),
                    ]));
                }
                DefKind::Mod => {
                    mods.push(o(vec![("path", s(path(tcx, d))), ("vis", s(format!("{:?}", tcx.visibility(d))))]));
                }
                _ => {}
            }
        }
        root.push(("adts", J::A(adts)));
        root.push(("impls", J::A(impls)));
        root.push(("consts", J::A(consts)));
        root.push(("statics", J::A(statics)));
        root.push(("mods", J::A(mods)));

        // re-exports: every name a module makes available through `use` (alias path -> definition path)
        {
            let mut reexports = Vec::new();
            let mut modules: Vec<rustc_hir::def_id::LocalDefId> = vec![rustc_hir::def_id::CRATE_DEF_ID];
            for id in tcx.hir_crate_items(()).definitions() {
                if matches!(tcx.def_kind(id.to_def_id()), DefKind::Mod) {
                    modules.push(id);
                }
            }
            for m in modules {
                let mpath = if m == rustc_hir::def_id::CRATE_DEF_ID { "crate".to_string() } else { path(tcx, m.to_def_id()) };
                for ch in tcx.module_children_local(m) {
                    if ch.reexport_chain.is_empty() {
                        continue;
                    }
                    if let Some(t) = ch.res.opt_def_id() {
                        if t.is_local() {
                            reexports.push(o(vec![
                                ("alias", s(format!("{}::{}", mpath, ch.ident.name))),
                                ("target", s(path(tcx, t))),
                                ("kind", s(format!("{:?}", tcx.def_kind(t)))),
                            ]));
                        }
                    }
                }
            }
            root.push(("reexports", J::A(reexports)));
        }

        // effective visibility (reachable from outside the crate)
        {
            let ev = tcx.effective_visibilities(());
            let mut pubs = Vec::new();
            for id in tcx.hir_crate_items(()).definitions() {
                if ev.is_reachable(id) {
                    pubs.push(s(path(tcx, id.to_def_id())));
                }
            }
            root.push(("reachable", J::A(pubs)));
            // nameable from outside the crate (re-export level): what a user can actually call
            let mut exported = Vec::new();
            for id in tcx.hir_crate_items(()).definitions() {
                if ev.is_exported(id) {
                    exported.push(s(path(tcx, id.to_def_id())));
                }
            }
            root.push(("exported", J::A(exported)));
        }

        // ---- local MIR bodies
        let mut bodies = Vec::new();
        let mut dumped: HashSet<DefId> = HashSet::new();
        for ldid in tcx.mir_keys(()) {
            let d = ldid.to_def_id();
            let kind = tcx.def_kind(d);
            let body: &Body<'tcx> = match kind {
                DefKind::Fn | DefKind::AssocFn | DefKind::Closure | DefKind::Ctor(..) => {
                    if !tcx.is_mir_available(d) {
                        continue;
                    }
                    tcx.optimized_mir(d)
                }
                DefKind::Const { .. } | DefKind::AssocConst { .. } | DefKind::Static { .. } | DefKind::AnonConst | DefKind::InlineConst => {
                    tcx.mir_for_ctfe(d)
                }
                _ => continue,
            };
            dumped.insert(d);
            let mut v = cx.item_header(d);
            v.push(("mir", cx.body(body, d)));
            // promoted constants of this body
            if matches!(kind, DefKind::Fn | DefKind::AssocFn | DefKind::Closure) {
                let proms = tcx.promoted_mir(d);
                let mut pj = Vec::new();
                for pb in proms.iter() {
                    pj.push(cx.body(pb, d));
                }
                v.push(("promoted", J::A(pj)));
            }
            bodies.push(o(v));
        }
        root.push(("bodies", J::A(bodies)));

        // ---- monomorphic call graph
        let with_extern = std::env::var("SM9_FACTS_EXTERN").map(|v| v == "1").unwrap_or(false);
        let mut queue: VecDeque<Instance<'tcx>> = VecDeque::new();
        let mut seen: HashMap<Instance<'tcx>, usize> = HashMap::new();
        let mut roots = Vec::new();
        for ldid in tcx.mir_keys(()) {
            let d = ldid.to_def_id();
            if !matches!(tcx.def_kind(d), DefKind::Fn | DefKind::AssocFn) {
                continue;
            }
            if tcx.generics_of(d).requires_monomorphization(tcx) {
                continue;
            }
            let inst = Instance::mono(tcx, d);
            if !seen.contains_key(&inst) {
                seen.insert(inst, seen.len());
                queue.push_back(inst);
            }
            roots.push(s(inst_str(tcx, inst)));
        }
        let env = TypingEnv::fully_monomorphized();
        let mut instances: Vec<J> = Vec::new();
        let mut extern_bodies: BTreeMap<String, J> = BTreeMap::new();
        while let Some(inst) = queue.pop_front() {
            let did = inst.def_id();
            let is_item = matches!(inst.def, InstanceKind::Item(_));
            let p = path(tcx, did);
            let intrinsic = tcx.intrinsic(did).is_some();
            let has_mir = is_item && !intrinsic && tcx.is_mir_available(did) && !tcx.is_foreign_item(did);
            let expand = has_mir && (did.is_local() || !skip_expand(&p));
            let mut calls = Vec::new();
            if expand {
                let body = tcx.instance_mir(inst.def);
                if !did.is_local() && with_extern && !extern_bodies.contains_key(&p) {
                    let mut v = cx.item_header(did);
                    v.push(("mir", cx.body(body, did)));
                    extern_bodies.insert(p.clone(), o(v));
                }
                let add = |tgt: Instance<'tcx>, queue: &mut VecDeque<Instance<'tcx>>, seen: &mut HashMap<Instance<'tcx>, usize>| {
                    if !seen.contains_key(&tgt) {
                        let n = seen.len();
                        seen.insert(tgt, n);
                        queue.push_back(tgt);
                    }
                };
                for (bb, data) in body.basic_blocks.iter_enumerated() {
                    if let TerminatorKind::Call { func, .. } = &data.terminator().kind {
                        let fty = func.ty(&body.local_decls, tcx);
                        let fty = inst.instantiate_mir_and_normalize_erasing_regions(tcx, env, EarlyBinder::bind(fty));
                        if let ty::FnDef(cd, ca) = fty.kind() {
                            match Instance::try_resolve(tcx, env, *cd, ca) {
                                Ok(Some(tgt)) => {
                                    calls.push(o(vec![
                                        ("bb", J::I(bb.as_usize() as i128)),
                                        ("inst", s(inst_str(tcx, tgt))),
                                        ("def", s(path(tcx, tgt.def_id()))),
                                        ("local", J::B(tgt.def_id().is_local())),
                                        ("kind", s(shim_kind(&tgt.def))),
                                    ]));
                                    add(tgt, &mut queue, &mut seen);
                                }
                                _ => {
                                    calls.push(o(vec![
                                        ("bb", J::I(bb.as_usize() as i128)),
                                        ("unresolved", s(path_args(tcx, *cd, ca))),
                                    ]));
                                }
                            }
                        } else {
                            calls.push(o(vec![("bb", J::I(bb.as_usize() as i128)), ("indirect", s(tystr(fty)))]));
                        }
                    }
                }
                // functions and closures that are mentioned as values (passed to map, fold, …)
                let mut mentioned = Vec::new();
                for decl in body.local_decls.iter() {
                    let t = inst.instantiate_mir_and_normalize_erasing_regions(tcx, env, EarlyBinder::bind(decl.ty));
                    collect_fn_types(t, &mut mentioned, 0);
                }
                // function items passed as zero-sized constants show up only in the callee's generic arguments
                for ga in inst.args.iter() {
                    if let ty::GenericArgKind::Type(x) = ga.kind() {
                        collect_fn_types(x, &mut mentioned, 0);
                    }
                }
                for data in body.basic_blocks.iter() {
                    if let TerminatorKind::Call { func, .. } = &data.terminator().kind {
                        let fty = func.ty(&body.local_decls, tcx);
                        let fty = inst.instantiate_mir_and_normalize_erasing_regions(tcx, env, EarlyBinder::bind(fty));
                        if let ty::FnDef(_, ca) = fty.kind() {
                            for ga in ca.iter() {
                                if let ty::GenericArgKind::Type(x) = ga.kind() {
                                    collect_fn_types(x, &mut mentioned, 0);
                                }
                            }
                        }
                    }
                }
                let mut refs = Vec::new();
                let mut seen_ref: HashSet<String> = HashSet::new();
                for (cd, ca, is_closure) in mentioned {
                    let tgt = if is_closure {
                        Some(Instance::new_raw(cd, ca))
                    } else {
                        Instance::try_resolve(tcx, env, cd, ca).ok().flatten()
                    };
                    if let Some(tgt) = tgt {
                        let nm = inst_str(tcx, tgt);
                        if seen_ref.insert(nm.clone()) {
                            refs.push(o(vec![("inst", s(nm)), ("def", s(path(tcx, tgt.def_id()))), ("local", J::B(tgt.def_id().is_local()))]));
                            add(tgt, &mut queue, &mut seen);
                        }
                    }
                }
                instances.push(o(vec![
                    ("inst", s(inst_str(tcx, inst))),
                    ("def", s(p)),
                    ("local", J::B(did.is_local())),
                    ("kind", s(shim_kind(&inst.def))),
                    ("expanded", J::B(true)),
                    ("calls", J::A(calls)),
                    ("refs", J::A(refs)),
                ]));
            } else {
                instances.push(o(vec![
                    ("inst", s(inst_str(tcx, inst))),
                    ("def", s(p)),
                    ("local", J::B(did.is_local())),
                    ("kind", s(shim_kind(&inst.def))),
                    ("expanded", J::B(false)),
                    ("has_mir", J::B(has_mir)),
                ]));
            }
        }
        root.push(("roots", J::A(roots)));
        root.push(("instances", J::A(instances)));
        root.push(("extern_bodies", J::A(extern_bodies.into_values().collect())));

        let mut out = String::new();
        o(root).write(&mut out);
        let tmp = format!("{}.tmp.{}", out_path, std::process::id());
        std::fs::write(&tmp, out).expect("write facts");
        std::fs::rename(&tmp, &out_path).expect("rename facts");
        rustc_driver::Compilation::Continue
    }
}

fn main() {
    // invoked as RUSTC_WORKSPACE_WRAPPER: argv[1] is the real rustc path
    let mut args: Vec<String> = std::env::args().collect();
    if args.len() > 1 && (args[1].ends_with("rustc") || args[1].contains("/rustc")) {
        args.remove(1);
    }
    rustc_driver::run_compiler(&args, &mut Facts);
}
