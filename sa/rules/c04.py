"""C04 — group law (structural clauses)."""
from core import report
from core.sm9 import Repo
from . import shared, weight, grouplaw, field


def run(ctx):
    repo = Repo(ctx.dev)
    rules = [weight.rule_weight_group("C04", repo)] + grouplaw.rules_c04("C04", repo) + [field.rule_tower_consts("C04", repo)]
    return report.emit(
        "C04", ctx.tier, ctx.seed, rules, ctx.started,
        "Jacobian-weight abstract interpretation of add (all 13 arms), double, neg: every arm returns (2k,3k,k) and only equal-weight quantities are added/compared, i.e. covariance "
        "for all λ in all representation combinations; identity operands handled first; every non-delegating adder arm has the equal-points→double() branch under both differences "
        "being zero; opposite points give z=0; sub = add∘neg; operator wrappers forward.",
        shared.ASSUMPTIONS + ["one enumerated idiom: (u+v)²−u²−v² ⇒ 2uv (dbl-2009-l)"],
        ["that the homogeneous formulas are the chord-and-tangent law (values), associativity"])
