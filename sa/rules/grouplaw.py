"""Structural rules of the group layer: adder special cases, equality truth table, affine conversion, validated
constructor, scalar multiplication shape (C04, C05, C09, C15)."""
import re
from core.report import Rule
from core.facts import FactsError
from core.absexec import AbsExec, Adt, Tup, Ref, TOP, Frame
from core.terms import strip, alts, walk, show
from core import paths
from . import shared, weight
from .weight import W, G, gpoint, form, fscale
from .shared import loc_of


def wrun(F, body, args, inverse_total=True):
    dom = weight.WeightDomain(F)
    dom.inverse_total = inverse_total
    from core.absexec import same_module_inline
    ex = AbsExec(F, dom, max_paths=512, inline=same_module_inline(F, body.rec["path"]))
    rargs = []
    for a in args:
        if isinstance(a, tuple) and a and a[0] == "byref":
            hf = Frame(body, [])
            hf.env[0] = a[1]
            rargs.append(Ref(hf, 0))
        else:
            rargs.append(a)
    rs = ex.run(body, rargs)
    out = []
    for v, fr in rs:
        pc = fr.env.get("__pc", ())
        seen = {}
        contradictory = False
        for c in pc:
            if c[0] == "is_zero":
                if c[1] in seen and seen[c[1]] != c[4]:
                    contradictory = True
                seen[c[1]] = c[4]
        if not contradictory:
            out.append((v, pc))
    return dom, out


def same_point(v, p):
    return isinstance(v, Adt) and v.name == G and all(isinstance(a, W) and isinstance(b, W) and a.vid == b.vid for a, b in zip(v.fields, p.fields))


def zq(pc, cls):
    """Truth of the is_zero test on a value of the given class along the path (None when untested)."""
    r = None
    for c in pc:
        if c[0] == "is_zero" and c[3] == cls:
            r = c[4]
    return r


def rules_c04(prop, repo):
    F = repo.F
    out = []
    R = Rule("R-ADD-CASES", "adder: identity operands returned first and unchanged; every formula arm calls double() exactly when both the x- and the y-difference vanish, "
             "never falls through to the chord formula then, and its z carries the x-difference as a factor (opposite points ⇒ z = 0)", floor=3, exhaustive=True)
    b = F.bodies.get("<crate::groups::G<P> as core::ops::Add>::add")
    if b is None:
        R.fail_closed("%s:add:anchor" % prop, "G::add not found")
        return [R.finish()]
    p1, p2 = gpoint("s1"), gpoint("s2")
    b = weight.implementation(repo, b)
    dom, rs = wrun(F, b, weight.by_sig(b, [p1, p2]))
    # identity operands
    R.instance()
    def zt(pc, vid):
        return next((c[4] for c in pc if c[0] == "is_zero" and c[1] == vid), None)
    # every path on which the left operand tested identity hands back the right one untouched (whatever else it asked about the
    # right operand first); every path with the left one not an identity and the right one an identity hands back the left one
    id1 = [(v, pc) for v, pc in rs if zt(pc, p1.fields[2].vid) is True]
    id2 = [(v, pc) for v, pc in rs if zt(pc, p1.fields[2].vid) is False and zt(pc, p2.fields[2].vid) is True]
    # … and no path gets anywhere without having asked both questions (an operand whose identity status was never looked at would
    # be fed to a formula)
    asked = all(zt(pc, p1.fields[2].vid) is not None and (zt(pc, p1.fields[2].vid) is True or zt(pc, p2.fields[2].vid) is not None) for _, pc in rs)
    ok = bool(id1) and all(same_point(v, p2) for v, _ in id1) and bool(id2) and all(same_point(v, p1) for v, _ in id2) and asked
    R.check(ok, "%s:add:identity" % prop, "O + B = B and A + O = A are not the first two exits returning the other operand unchanged (paths: %d / %d)" % (len(id1), len(id2)), b.file_line(), b.rec["path"],
            sample={"O+B": "returns B unchanged" if ok else None, "A+O": "returns A unchanged" if ok else None})
    # arms by representation
    arms = {}
    for v, pc in rs:
        # an arm = one combination of answers to the `z == one()` tests the adder makes (however it orders / nests them)
        tests = {}
        for c in pc:
            if c[0] == "z==1":
                tests[str(sorted(c[1].items()))] = c[2]
        zs = tuple(tests[k] for k in sorted(tests))
        if len(zs) >= 1 and not any(c[0] == "is_zero" and c[3] == "z" and c[4] for c in pc):
            arms.setdefault(zs, []).append((v, pc))
    formula_arms = {k: v for k, v in arms.items() if any(isinstance(x, Adt) and x.variant == "G" for x, _ in v)}
    R.note("arms with their own formulas (z1==1, z2==1): %s; delegating arms: %s" % (sorted(formula_arms), sorted(set(arms) - set(formula_arms))))
    if len(formula_arms) < 2:
        R.fail_closed("%s:add:arms" % prop, "expected at least two formula arms selected by `z == one()` tests, found %s" % sorted(arms), b.file_line())
    for arm, lst in sorted(formula_arms.items()):
        R.instance()
        dbl = [(v, pc) for v, pc in lst if isinstance(v, Adt) and v.variant is None and not same_point(v, p1) and not same_point(v, p2) and any(pc == d[0] or (d[0] and tuple(pc[-len(d[0]):]) == tuple(d[0])) for d in dom.double_calls)]      # (a helper analysed in place records its own part of the path)
        dbl_ok = [1 for v, pc in dbl if zq(pc, ("diff", "x")) is True and zq(pc, ("diff", "y")) is True]
        gen = [(v, pc) for v, pc in lst if isinstance(v, Adt) and v.variant == "G"]
        fall = [pc for v, pc in gen if zq(pc, ("diff", "x")) is not False and zq(pc, ("diff", "y")) is not False]
        hfac = []
        for v, pc in gen:
            z = v.fields[2]
            hv = [c[1] for c in pc if c[0] == "is_zero" and c[3] == ("diff", "x")]
            hfac.append(isinstance(z, W))
        # the x-difference must divide z: find a value of class diff-x among z's factors
        zfac_ok = True
        for v, pc in gen:
            z = v.fields[2]
            if not isinstance(z, W):
                zfac_ok = False
                continue
            if z.kind != "zero" and not any(fid in dom_vids_of_class(dom, rs, ("diff", "x")) for fid in z.factors):
                zfac_ok = False
        # an early exit with the canonical identity is A + (−A): the x-difference must have tested zero on that path (the only other
        # admitted shape is y-difference and y-sum both zero, i.e. y = 0, which no point of an odd-order curve has)
        ident_bad = [pc for v, pc in lst if weight.is_point_form(v) == "identity" and zq(pc, ("diff", "x")) is not True
                     and not (zq(pc, ("diff", "y")) is True and zq(pc, ("sum", "y")) is True)]
        armname = ",".join("z%d==1:%s" % (i + 1, x) for i, x in enumerate(arm))
        key = "%s:add:arm(%s)" % (prop, armname)
        R.check(bool(dbl_ok) and not fall and zfac_ok and gen and not ident_bad, key,
                "adder arm (%s): double() under both differences zero=%s, chord formula reachable with both differences possibly zero=%s, z has the x-difference as a factor=%s, "
                "identity returned without the x-difference having tested zero=%s" %
                (armname, bool(dbl_ok), bool(fall), zfac_ok, bool(ident_bad)), b.file_line(), b.rec["path"],
                sample={"arm": armname, "double_when_equal": bool(dbl_ok), "chord_paths": len(gen), "z_contains_x_difference": zfac_ok, "identity_exits_unjustified": len(ident_bad)})
    for arm in sorted(set(arms) - set(formula_arms)):
        R.instance()
        lst = arms[arm]
        ok = all(isinstance(v, Adt) and v.name == G for v, _ in lst)
        armname = ",".join("z%d==1:%s" % (i + 1, x) for i, x in enumerate(arm))
        R.check(ok, "%s:add:arm(%s)" % (prop, armname), "delegating arm does not return a point", b.file_line(), b.rec["path"], sample={"arm": armname, "delegates": "other + self"})
    out.append(R.finish())

    add_b = F.bodies.get("<crate::groups::G<P> as core::ops::Add>::add")
    adders = {"<crate::groups::G<P> as core::ops::Add>::add"} | ({weight.implementation(repo, add_b).rec["path"]} if add_b is not None else set())

    def is_adder(fk):
        return fk.d in adders or (fk.name == "add" and fk.get("trait") == "core::ops::Add")
    R2 = Rule("R-SUB-NEG", "A − B = A + (−B); negation flips y only and leaves an identity unchanged; operator wrappers forward to the inner operation", floor=4)
    sb = F.bodies.get("<crate::groups::G<P> as core::ops::Sub>::sub")
    R2.instance()
    if sb is None:
        R2.fail_closed("%s:sub:anchor" % prop, "G::sub not found")
    else:
        rv = repo.tb(sb).return_value()

        def negated_other(x):
            x = strip(x)
            if x[0] == "call" and x[1].name == "neg" and len(x[2]) == 1 and strip(x[2][0]) == ("param", 2):
                return True
            # the negation written out: (x, −y, z) of the subtrahend (an identity stays an identity whatever its y)
            if x[0] == "agg" and isinstance(x[1], str) and x[1].endswith("groups::G") and len(x[3]) == 3:
                c = [strip(y) for y in x[3]]
                return c[0] == ("field", ("param", 2), 0) and c[2] == ("field", ("param", 2), 2) and c[1][0] == "call" and c[1][1].name == "neg" and len(c[1][2]) == 1 \
                    and strip(c[1][2][0]) == ("field", ("param", 2), 1)
            return False

        def is_sub(v):
            v = strip(v)
            return v[0] == "call" and is_adder(v[1]) and len(v[2]) == 2 and strip(v[2][0]) == ("param", 1) and negated_other(v[2][1])
        ok = is_sub(rv)
        if not ok:
            # one operator form forwarding to another (`self - &other`): the subtraction is what that one does with these operands
            from core.terms import expand_call
            e, hops = rv, 0
            while not ok and hops < 3 and strip(e)[0] == "call" and strip(e)[1].name == "sub" and (strip(e)[1].get("trait") or "") == "core::ops::Sub":
                e = expand_call(repo, strip(e), lambda cb: cb.name == "sub" and cb.impl_trait == "core::ops::Sub" and "crate::groups::G" in (cb.rec.get("impl_self") or ""))
                if e is None:
                    break
                ok = is_sub(e)
                hops += 1
        if not ok:
            ok, _why = shared.forwards(repo, sb, is_sub, "gsub")
        R2.check(ok, "%s:sub" % prop, "G::sub is not self + (−other): %s" % show(rv, maxdepth=3)[:160], sb.file_line(), sb.rec["path"], sample={"sub": show(rv, maxdepth=3)[:120]})
    nb = F.bodies.get("<crate::groups::G<P> as core::ops::Neg>::neg")
    R2.instance()
    if nb is None:
        R2.fail_closed("%s:neg:anchor" % prop, "G::neg not found")
    else:
        p = gpoint("s")
        dom, rs = wrun(F, nb, [p])
        ok = True
        desc = []
        for v, pc in rs:
            iz = zq(pc, "z")
            if iz is True:
                ok &= same_point(v, p)
                desc.append("identity unchanged")
            else:
                # (where the path knows z = one(), weights are those of the operand with that fact applied)
                syms = set()
                for c in pc:
                    if c[0] == "z==1" and c[2]:
                        syms |= set(c[1])
                want_f = weight.fsub0(p.fields[1].f, syms) if syms else p.fields[1].f
                good = isinstance(v, Adt) and v.name == G and v.fields[0].vid == p.fields[0].vid and v.fields[2].vid == p.fields[2].vid and v.fields[1].vid != p.fields[1].vid and v.fields[1].f == want_f
                ok &= good
                desc.append("(x, −y, z)" if good else repr(v)[:60])
        R2.check(ok and len(rs) >= 2, "%s:neg" % prop, "G::neg is not {identity ↦ itself; (x,y,z) ↦ (x,−y,z)}: %s" % desc, nb.file_line(), nb.rec["path"], sample={"neg": desc})
        # the y transformation is a field negation
        tb = repo.tb(nb)
        negs = [t for _, t in nb.calls() if (t.get("fn") or {}).get("name") == "neg"]
        R2.instance()
        R2.check(len(negs) == 1, "%s:neg:op" % prop, "G::neg applies %d field negations" % len(negs), nb.file_line(), nb.rec["path"], sample={"field_negations": len(negs)})
    # compound / by-reference forms of the point addition forward to the one adder
    for imp in F.impls:
        if imp.get("self_adt") == "crate::groups::G" and imp.get("trait") in ("core::ops::AddAssign", "core::ops::Add") and imp["self_ty"] != "crate::groups::G<P>" or \
           (imp.get("self_adt") == "crate::groups::G" and imp.get("trait") == "core::ops::AddAssign"):
            for item in imp["items"]:
                fb = F.bodies.get(item)
                if fb is None:
                    continue
                R2.instance()
                tbb = repo.tb(fb)
                v = tbb.final_value(("deref", 1)) if imp["trait"].endswith("Assign") else tbb.return_value()
                ok = v[0] == "call" and is_adder(v[1]) and len(v[2]) == 2
                if ok:
                    a0, a1 = strip(v[2][0]), strip(v[2][1])
                    ok = a0 in (("init", ("deref", 1)), ("param", 1)) and a1 in (("param", 2), ("init", ("deref", 2)))
                R2.check(ok, "%s:forward:%s" % (prop, item), "%s is not `self + rhs` through the one adder: %s" % (item, show(v, maxdepth=3)[:140]), fb.file_line(), item, sample={"impl": item})
    for w, inner in (("<crate::G1 as core::ops::Add>::add", "add"), ("<crate::G1 as core::ops::Sub>::sub", "sub"), ("<crate::G1 as core::ops::Neg>::neg", "neg"),
                     ("<crate::G2 as core::ops::Add>::add", "add"), ("<crate::G2 as core::ops::Sub>::sub", "sub"), ("<crate::G2 as core::ops::Neg>::neg", "neg")):
        wb = F.bodies.get(w)
        R2.instance()
        if wb is None:
            R2.fail_closed("%s:wrap:%s" % (prop, w), "%s not found" % w)
            continue
        rv = repo.tb(wb).return_value()
        ok = rv[0] == "agg" and len(rv[3]) == 1 and strip(rv[3][0])[0] == "call" and strip(rv[3][0])[1].name == inner
        if ok:
            a = [strip(x) for x in strip(rv[3][0])[2]]
            ok = a == [("field", ("param", i + 1), 0) for i in range(len(a))]
        R2.check(ok, "%s:wrap:%s" % (prop, w), "%s does not forward to the inner %s on (self.0, other.0): %s" % (w, inner, show(rv, maxdepth=3)[:160]), wb.file_line(), w, sample={"wrapper": w})
    out.append(R2.finish())
    return out


def dom_vids_of_class(dom, rs, cls):
    vids = set()
    for v, pc in rs:
        for c in pc:
            if c[0] == "is_zero" and c[3] == cls:
                vids.add(c[1])
    return vids


def eq_truth_table(repo, b):
    """G::eq over opaque coordinates on the byte machine: every opaque predicate (is_zero of a z, a cross-multiplied comparison)
    is answered both ways, once per path; each path's answer must be the value of
        (z1 = 0 ∧ z2 = 0) ∨ (z1 ≠ 0 ∧ z2 ≠ 0 ∧ x-comparison equal ∧ y-comparison equal)
    and be determined by the predicates that path actually asked.  → (violations, rows)"""
    from core.bytex import Machine, T, Adt as BAdt, Ref as BRef
    F = repo.F
    gfile = (b.rec.get("span") or {}).get("file")
    pol = lambda cb: (cb.rec.get("span") or {}).get("file") == gfile or cb.rec["kind"] in ("Closure", "Ctor")
    pts = [BAdt("crate::groups::G", "G", [T("x%d" % i), T("y%d" % i), T("z%d" % i)]) for i in (1, 2)]
    insts = [i["inst"] for i in F.inst_by_def.get(b.rec["path"], [])] or [None]
    bad, rows = [], []

    def leaves(t, acc):
        if isinstance(t, T) and len(t) == 1 and isinstance(t[0], str) and t[0][:1] in "xyz" and t[0][1:].isdigit():
            acc.add(t[0])
        elif isinstance(t, BAdt):
            for f in t.fields:
                leaves(f, acc)
        elif isinstance(t, tuple):
            for u in t:
                if isinstance(u, (tuple, BAdt)):
                    leaves(u, acc)
        return acc

    def tri_and(*xs):
        if any(x is False for x in xs):
            return False
        return True if all(x is True for x in xs) else None

    def tri_or(*xs):
        if any(x is True for x in xs):
            return True
        return False if all(x is False for x in xs) else None

    def tri_not(x):
        return None if x is None else (not x)
    try:
        outs = Machine(F, pol).run(b, [BRef(0, 0), BRef(0, 1)], holders=pts, inst=insts[0])
    except Exception as e:
        return ["not evaluated: %s" % str(e)[:80]], []
    split = []
    for o in outs:
        if o.kind == "return" and isinstance(o.value, T):
            for ans in (True, False):
                split.append((ans, tuple(o.pc) + ((o.value, ans),), o))
        else:
            split.append((o.value if o.kind == "return" else None, tuple(o.pc), o))
    for val, pc, o in split:
        if o.kind != "return" or not isinstance(val, bool):
            bad.append("path ends in %r" % (o,))
            continue
        z = {1: None, 2: None}
        xe = ye = None
        unread = []
        for atom, ch in pc:
            nm = atom[1].split("::")[-1] if isinstance(atom, T) and atom[0] == "call" and isinstance(atom[1], str) else None
            lv = leaves(atom, set()) if isinstance(atom, T) else set()
            if nm == "is_zero" and lv in ({"z1"}, {"z2"}):
                z[1 if lv == {"z1"} else 2] = bool(ch)
            elif nm in ("eq", "ne") and {"x1", "x2"} <= lv and not ({"y1", "y2"} & lv):
                xe = bool(ch) if nm == "eq" else not bool(ch)
            elif nm in ("eq", "ne") and {"y1", "y2"} <= lv and not ({"x1", "x2"} & lv):
                ye = bool(ch) if nm == "eq" else not bool(ch)
            elif nm in ("eq", "ne") and lv and lv <= {"z1", "z2"} and any(isinstance(a_, T) and a_[0] == "call" and a_[1].split("::")[-1] == "zero" for a_ in atom[3]) and len(lv) == 1:
                k = 1 if lv == {"z1"} else 2
                z[k] = bool(ch) if nm == "eq" else not bool(ch)
            elif nm in ("eq", "ne") and lv in ({"z1"}, {"z2"}) and any(isinstance(a_, T) and a_[0] == "call" and a_[1].split("::")[-1] == "one" and not a_[3] for a_ in atom[3]):
                pass          # asking whether a z is one (a representation class computed up front) says nothing the specification uses
            else:
                unread.append(repr(atom)[:60])
        want = tri_or(tri_and(z[1], z[2]), tri_and(tri_not(z[1]), tri_not(z[2]), xe, ye))
        rows.append({"self=O": z[1], "other=O": z[2], "x equal": xe, "y equal": ye, "result": val})
        if unread:
            bad.append("decides on %s" % unread[:2])
        elif want is None:
            bad.append("answers %s after asking only self=O:%s other=O:%s x:%s y:%s" % (val, z[1], z[2], xe, ye))
        elif want != val:
            bad.append("answers %s where (self=O:%s other=O:%s x equal:%s y equal:%s) means %s" % (val, z[1], z[2], xe, ye, want))
    return bad, rows


def candidate_only_escapes_through_ok(repo, fb, bi, si, L=None, depth=0):
    """an AffineG aggregate built before the checks: it is stored in one local that is afterwards only borrowed immutably (handed to
    the checking helpers) or moved into the `Ok(..)` the function returns — it cannot leave the constructor any other way"""
    st = fb.blocks[bi]["stmts"][si]
    if L is None:
        if st["place"]["p"]:
            return False
        L = st["place"]["l"]
    if depth > 2:
        return False
    for b2, blk in enumerate(fb.blocks):
        for s2, x in enumerate(blk["stmts"]):
            if x["k"] != "assign" or (b2 == bi and s2 == si):
                continue
            if x["place"]["l"] == L:
                return False                                  # written again
            rv = x["rv"]
            if rv["k"] in ("ref", "rawptr") and rv["place"]["l"] == L and rv.get("mut"):
                return False
            ops = []
            if rv["k"] == "use":
                ops = [rv["op"]]
            elif rv["k"] == "aggregate":
                ops = rv["ops"]
            for op in ops:
                if op.get("k") in ("copy", "move") and op["place"]["l"] == L and not op["place"]["p"]:
                    ok_wrap = rv["k"] == "aggregate" and rv.get("agg") == "adt" and rv.get("adt") == "core::result::Result" and rv.get("variant_name") == "Ok"
                    if rv["k"] == "use" and not x["place"]["p"] and x["place"]["l"] != 0:
                        # copied into a temporary: the temporary is bound by the same rule
                        if not candidate_only_escapes_through_ok(repo, fb, b2, s2, x["place"]["l"], depth + 1):
                            return False
                        continue
                    if not ok_wrap:
                        return False
        t = blk["term"]
        if t["k"] == "call":
            for a in t["args"]:
                if a.get("k") in ("copy", "move") and a["place"]["l"] == L and not a["place"]["p"]:
                    return False                              # passed on by value
    return True


# ====================================================================== C15
def rules_c15(prop, repo):
    F = repo.F
    out = []
    R = Rule("R-EQ-TT", "truth table of G::eq: identity cases first; `true` only after both cross-comparisons (x-class and y-class) came out equal", floor=1, exhaustive=True)
    b = F.bodies.get("<crate::groups::G<P> as core::cmp::PartialEq>::eq")
    R.instance()
    if b is None:
        R.fail_closed("%s:eq:anchor" % prop, "G::eq not found")
    else:
        p1, p2 = gpoint("s1"), gpoint("s2")
        dom, rs = wrun(F, b, [("byref", p1), ("byref", p2)])
        errs = sorted(set(dom.errors))
        bad, rows = eq_truth_table(repo, b)
        R.check(not bad and not errs and len(rows) >= 4, "%s:eq:truth-table" % prop, "G::eq: %s %s" % (bad[:2], errs[:2]), b.file_line(), b.rec["path"], sample={"rows": rows[:12]})
    out.append(R.finish())

    R2 = Rule("R-AFFINE-NONE", "to_affine is None ⇔ z = 0 and otherwise yields weight-0 coordinates; to_jacobian sets z = one(); normalize only rewrites through them", floor=3, exhaustive=True)
    b = F.bodies.get("crate::groups::G::<P>::to_affine")
    R2.instance()
    if b is None:
        R2.fail_closed("%s:to_affine:anchor" % prop, "to_affine not found")
    else:
        p = gpoint("s")
        dom, rs = wrun(F, b, [p], inverse_total=False)
        bad = []
        rows = []
        for v, pc in [x for v0, pc0 in rs for x in weight.expand_option(v0, pc0)]:
            zz = [c[4] for c in pc if c[0] == "is_zero" and c[3] == "z"]
            z1 = [c[2] for c in pc if c[0] == "z==1"]
            isnone = isinstance(v, Adt) and v.variant == "None"
            issome = isinstance(v, Adt) and v.variant == "Some"
            rows.append({"z=0": zz, "z=1": z1, "result": "None" if isnone else "Some" if issome else repr(v)[:30]})
            if isnone and not any(zz):
                bad.append("None although z was not found zero")
            if issome:
                if any(zz):
                    bad.append("Some on a path where z is zero")
                lv = weight.leaves(v.fields[0], [])
                if not all(isinstance(x, W) and x.f == form() for x in lv):
                    bad.append("affine coordinates not of weight 0")
                if True in z1 and not (lv[0].vid == p.fields[0].vid and lv[1].vid == p.fields[1].vid):
                    bad.append("z = 1 shortcut does not return (x, y)")
            if not isnone and not issome:
                bad.append("result %r" % (v,))
        R2.check(not bad and not dom.errors and len(rs) >= 2, "%s:to_affine" % prop, "to_affine: %s %s" % (bad[:2], dom.errors[:2]), b.file_line(), b.rec["path"], sample={"rows": rows})
    jb = F.bodies.get("crate::groups::AffineG::<P>::to_jacobian")
    R2.instance()
    if jb is None:
        R2.fail_closed("%s:to_jacobian:anchor" % prop, "to_jacobian not found")
    else:
        rv = repo.tb(jb).return_value()
        from core.terms import expand_call
        for _ in range(2):
            if rv[0] == "call":
                e = expand_call(repo, rv, lambda cb: len(cb.blocks) <= 4 and cb.rec["path"].startswith("crate::groups::"))
                if e is None:
                    break
                rv = e
        ok = rv[0] == "agg" and rv[1] == "crate::groups::G" and strip(rv[3][0]) == ("field", ("param", 1), 0) and strip(rv[3][1]) == ("field", ("param", 1), 1) and strip(rv[3][2])[0] == "call" and strip(rv[3][2])[1].name == "one"
        R2.check(ok, "%s:to_jacobian" % prop, "to_jacobian is not (x, y, one()): %s" % show(rv, maxdepth=3)[:120], jb.file_line(), jb.rec["path"], sample={"to_jacobian": show(rv, maxdepth=3)[:100]})
    from .norm import Norm
    N = Norm(repo)
    for w in ("<crate::G1 as crate::Group>::normalize", "<crate::G2 as crate::Group>::normalize"):
        R2.instance()
        R2.check(w in N.normalizers, "%s:normalize:%s" % (prop, w), "%s does not leave *self unchanged or replace it by to_jacobian(to_affine(*self))" % w, sample={"normalizer": w})
    for w, inner in (("<crate::G1 as crate::Group>::is_zero", "is_zero"), ("<crate::G2 as crate::Group>::is_zero", "is_zero")):
        wb = F.bodies.get(w)
        R2.instance()
        if wb is None:
            R2.fail_closed("%s:is_zero:%s" % (prop, w), "%s not found" % w)
            continue
        rv = repo.tb(wb).return_value()
        ok = rv[0] == "call" and rv[1].name == "is_zero" and strip(rv[2][0]) == ("field", ("init", ("deref", 1)), 0)
        R2.check(ok, "%s:is_zero:%s" % (prop, w), "%s does not forward to the inner is_zero" % w, wb.file_line(), w, sample={"wrapper": w})
    zb = F.bodies.get("<crate::groups::G<P> as ark_ff::Zero>::is_zero")
    R2.instance()
    if zb is None:
        R2.fail_closed("%s:is_zero:inner" % prop, "G::is_zero not found")
    else:
        rv = repo.tb(zb).return_value()
        ok = rv[0] == "call" and rv[1].name == "is_zero" and strip(rv[2][0]) == ("field", ("init", ("deref", 1)), 2)
        R2.check(ok, "%s:is_zero:inner" % prop, "G::is_zero does not test z: %s" % show(rv, maxdepth=3), zb.file_line(), zb.rec["path"], sample={"is_zero": "self.z.is_zero()"})
    for w, inner in (("<crate::G1 as core::convert::From<crate::AffineG1>>::from", None), ("<crate::G2 as core::convert::From<crate::AffineG2>>::from", None)):
        wb = F.bodies.get(w)
        R2.instance()
        if wb is None:
            R2.fail_closed("%s:from-affine:%s" % (prop, w), "%s not found" % w)
            continue
        rv = repo.tb(wb).return_value()
        ok = rv[0] == "agg" and strip(rv[3][0])[0] == "call" and strip(rv[3][0])[1].name == "to_jacobian"
        R2.check(ok, "%s:from-affine:%s" % (prop, w), "%s does not go through to_jacobian" % w, wb.file_line(), w, sample={"wrapper": w})
    out.append(R2.finish())
    return out


# ====================================================================== C09
def degree(t, xs, ys, depth=0):
    """(deg_x, deg_y, mentions_b) of a field term built from the two coordinates."""
    t = strip(t)
    if t in xs:
        return (1, 0, False)
    if t in ys:
        return (0, 1, False)
    if t[0] == "call":
        n = t[1].name
        a = t[2]
        if n == "squared" and len(a) == 1:
            d = degree(a[0], xs, ys)
            return None if d is None else (2 * d[0], 2 * d[1], d[2])
        if n == "mul" and len(a) == 2:
            d1, d2 = degree(a[0], xs, ys), degree(a[1], xs, ys)
            return None if d1 is None or d2 is None else (d1[0] + d2[0], d1[1] + d2[1], d1[2] or d2[2])
        if n == "add" and len(a) == 2:
            d1, d2 = degree(a[0], xs, ys), degree(a[1], xs, ys)
            if d1 is None or d2 is None:
                return None
            return (max(d1[0], d2[0]), max(d1[1], d2[1]), d1[2] or d2[2])
        if n in ("coeff_b", "b") and not a:
            return (0, 0, True)
        if _DEGREE_REPO is not None and depth < 3:
            # a small straight-line helper of the crate (`x.cubed()`): the degree of what it returns
            from core.terms import expand_call
            e = expand_call(_DEGREE_REPO, t, lambda cb: len(cb.blocks) <= 4 and not any(bl["term"]["k"] == "switch" for bl in cb.blocks))
            if e is not None:
                return degree(e, xs, ys, depth + 1)
    return None


_DEGREE_REPO = None


def machine_new_table(prop, repo, R, b):
    from core.bytex import Machine, T, Adt as BAdt
    F = repo.F
    gfile = (b.rec.get("span") or {}).get("file")

    def pol(cb):
        if cb.rec["kind"] in ("Closure", "Ctor"):
            return True
        if (cb.rec.get("span") or {}).get("file") != gfile:
            return False
        out = cb.rec.get("output") or ""
        ins = cb.rec.get("inputs") or []
        if (cb.impl_trait or "").startswith("core::cmp::"):
            return False          # `==` on points is the comparison under study, not a validation phase to look inside
        # validation phases and parameter constants, not group arithmetic
        return out.strip() in ("bool", "()") or out.startswith("core::result::Result") or out.startswith("core::option::Option") or (not ins and len(cb.blocks) <= 1) \
            or (cb.impl_trait == "core::convert::From") or (ins and len(cb.blocks) <= 3 and not any(t_["k"] == "switch" for t_ in (b_["term"] for b_ in cb.blocks)))      # thin converters (to_jacobian)

    def tname(t):
        return t[1].split("::")[-1] if isinstance(t, T) and t[0] == "call" else None

    def has_xy(t):
        if t in (T("x"), T("y")):
            return True
        if isinstance(t, BAdt):
            return any(has_xy(f) for f in t.fields)
        if isinstance(t, tuple):
            return any(has_xy(u) for u in t if isinstance(u, (tuple, BAdt)))
        return False

    def deg(t):
        if not has_xy(t):
            return (0, 0, True)           # a constant of the curve (however it is spelled)
        if t == T("x"):
            return (1, 0, False)
        if t == T("y"):
            return (0, 1, False)
        nm = tname(t)
        if nm == "squared" and len(t[3]) == 1:
            d = deg(t[3][0])
            return None if d is None else (2 * d[0], 2 * d[1], d[2])
        if nm in ("mul", "add") and len(t[3]) == 2:
            d1, d2 = deg(t[3][0]), deg(t[3][1])
            if d1 is None or d2 is None:
                return None
            return (d1[0] + d2[0], d1[1] + d2[1], d1[2] or d2[2]) if nm == "mul" else (max(d1[0], d2[0]), max(d1[1], d2[1]), d1[2] or d2[2])
        if nm in ("coeff_b", "b") and not t[3]:
            return (0, 0, True)
        if isinstance(t, T) and t[0] == "payload":
            return None
        return None
    for params, want_co in (("crate::groups::G2Params", True), ("crate::groups::G1Params", False)):
        inst = "crate::groups::AffineG::<%s>::new" % params
        R.instance()
        if inst not in F.instances:
            R.fail_closed("%s:new:truth-table:%s" % (prop, params), "instance %s not found" % inst)
            continue
        outs = Machine(F, pol).run(b, [T("x"), T("y")], inst=inst)
        bad = []
        rows = []
        saw_ok = False
        for o in outs:
            if o.kind != "return" or not isinstance(o.value, BAdt):
                bad.append("outcome %r" % (o,))
                continue
            curve = sub = None
            for atom, ch in o.pc:
                nm = tname(atom)
                if nm in ("eq", "ne") and len(atom[3]) == 2:
                    ds = {deg(atom[3][0]), deg(atom[3][1])}
                    truth = bool(ch) if nm == "eq" else not bool(ch)
                    if ds == {(0, 2, False), (3, 0, True)}:
                        curve = truth
                    elif any(tname(x) == "zero" for x in atom[3]):
                        sub = truth
                    else:
                        bad.append("comparison of %s" % (sorted(map(str, ds)),))
                elif nm == "is_zero" and len(atom[3]) == 1:
                    sub = bool(ch)
            okv = o.value.variant == "Ok"
            rows.append({"on_curve": curve, "r·P=O": sub, "result": o.value.variant})
            want = bool(curve) and (not want_co or bool(sub))
            if curve is None or okv != want or (okv and want_co and sub is None):
                bad.append(rows[-1])
            saw_ok |= okv
        R.check(not bad and saw_ok, "%s:new:truth-table:%s" % (prop, params), "AffineG::<%s>::new accepts / rejects against the specification: %s" % (params.split("::")[-1], bad[:3]), b.file_line(), b.rec["path"],
                sample={"params": params, "rows": rows[:6]})


def rules_c09(prop, repo):
    F = repo.F
    out = []
    R = Rule("R-NEW-TT", "AffineG::new: Ok ⇔ curve equation ∧ (¬check_order ∨ r·P = O); operands of the curve test have degrees y² vs x³+b; the subgroup test is "
             "(P·(−1) + P) vs O with P = (x, y, one()); G2Params::check_order ≡ true", floor=4, exhaustive=True)
    b = F.bodies.get("crate::groups::AffineG::<P>::new")
    if b is None:
        R.fail_closed("%s:new:anchor" % prop, "AffineG::new not found")
        return [R.finish()]
    global _DEGREE_REPO
    _DEGREE_REPO = repo
    tb = repo.tb(b)
    atoms = paths.collect_atoms(b, tb)
    curve = [a for a in atoms if a[0] == "ord" or (a[0] == "bool" and a[1][0] == "call" and a[1][1].name in ("eq", "ne"))]
    R.instance()
    rows = []
    bad = []
    cmp_atoms = []
    co_atom = None
    zero_atoms = []
    for a in atoms:
        if a[0] == "ord":
            cmp_atoms.append(a)
        elif a[0] == "bool" and a[1][0] == "call" and a[1][1].name == "check_order":
            co_atom = a
        elif a[0] == "bool" and a[1][0] == "call" and a[1][1].name == "is_zero" and len(a[1][2]) == 1:
            zero_atoms.append(a)

    def is_curve(a):
        return degree(a[1], {("param", 1)}, {("param", 2)}) is not None or degree(a[2], {("param", 1)}, {("param", 2)}) is not None
    ca = [a for a in cmp_atoms if is_curve(a)]
    sa = [a for a in cmp_atoms if not is_curve(a)] + zero_atoms      # the subgroup test: `X != G::zero()` or `!X.is_zero()`
    if len(ca) != 1 or len(sa) != 1 or co_atom is None or len(cmp_atoms) + len(zero_atoms) != 2:
        # the tests are not all in this body (split into helper phases): decide the same table on the outcomes of the
        # byte-provenance machine, per parameter set
        machine_new_table(prop, repo, R, b)
    else:
        ca, sa = ca[0], sa[0]

        def in_subgroup(asg):
            return asg[sa] == "E" if sa[0] == "ord" else bool(asg[sa])
        for asg in paths.enumerate_assignments(atoms):
            res = paths.simulate(b, tb, paths.Evaluator(asg))
            v = paths.path_value(b, tb, res.blocks, 0)
            names = {x[2] for x in alts(v) if x[0] == "agg"}
            on_curve = asg[ca] == "E"
            co = bool(asg[co_atom])
            in_sub = in_subgroup(asg)
            want = "Ok" if on_curve and (not co or in_sub) else "Err"
            got = "Ok" if names == {"Ok"} else "Err" if names <= {"Err"} and names else "?"
            rows.append({"on_curve": on_curve, "check_order": co, "r·P=O": in_sub, "result": got})
            if got != want:
                bad.append(rows[-1])
        R.check(not bad, "%s:new:truth-table" % prop, "AffineG::new accepts / rejects against the specification on %s" % bad[:3], b.file_line(), b.rec["path"], sample={"rows": rows[:6], "row_count": len(rows)})
        # degrees
        R.instance()
        d1 = degree(ca[1], {("param", 1)}, {("param", 2)})
        d2 = degree(ca[2], {("param", 1)}, {("param", 2)})
        R.check({d1, d2} == {(0, 2, False), (3, 0, True)}, "%s:new:degree" % prop, "curve test compares degrees %s and %s; expected y² and x³+b" % (d1, d2), b.file_line(), b.rec["path"],
                sample={"lhs(deg_x,deg_y,b)": d1, "rhs": d2})
        # subgroup test operands
        R.instance()
        from core.terms import expand_call
        if sa[0] == "ord":
            l, r_ = strip(sa[1]), strip(sa[2])
            if l[0] == "call" and l[1].name == "zero":
                l, r_ = r_, l
            vs_zero = r_[0] == "call" and r_[1].name == "zero"
        else:
            l = strip(sa[1][2][0])
            vs_zero = True
        ok = False
        desc = show(l, maxdepth=5)[:200]
        if vs_zero and l[0] == "call" and l[1].name == "add" and len(l[2]) == 2:
            m, p = strip(l[2][0]), strip(l[2][1])
            if m[0] != "call" or m[1].name != "mul":
                m, p = p, m
            if m[0] == "call" and m[1].name == "mul" and len(m[2]) == 2:
                pm, sc = strip(m[2][0]), strip(m[2][1])

                def is_p(t):
                    if t[0] == "call":
                        e = expand_call(repo, t, lambda cb: len(cb.blocks) <= 4 and cb.rec["path"].startswith("crate::groups::"))
                        if e is not None:
                            t = e
                    return t[0] == "agg" and t[1] == "crate::groups::G" and strip(t[3][0]) == ("param", 1) and strip(t[3][1]) == ("param", 2) and strip(t[3][2])[0] == "call" and strip(t[3][2])[1].name == "one"
                is_m1 = sc[0] == "call" and sc[1].name == "neg" and strip(sc[2][0])[0] == "call" and strip(sc[2][0])[1].name == "one" and "fp::Fr" in strip(sc[2][0])[1].i
                ok = is_p(pm) and is_p(p) and is_m1
        R.check(ok, "%s:new:subgroup-operands" % prop, "subgroup test is not ((x,y,1)·(−Fr::one()) + (x,y,1)) vs G::zero(): %s" % desc, b.file_line(), b.rec["path"], sample={"test": desc[:140]})
    # check_order per parameter set
    for params, want in (("crate::groups::G2Params", True), ("crate::groups::G1Params", False)):
        R.instance()
        tgt = None
        todo, seen = ["crate::groups::AffineG::<%s>::new" % params], set()
        while todo and tgt is None and len(seen) < 40:
            iname = todo.pop(0)
            if iname in seen:
                continue
            seen.add(iname)
            inst = F.instances.get(iname)
            if inst and inst.get("expanded"):
                for c in inst["calls"]:
                    if c.get("def", "").endswith("check_order"):
                        tgt = c["def"]
                    elif c.get("local") and "AffineG" in c.get("inst", ""):
                        todo.append(c["inst"])
        cb = F.bodies.get(tgt) if tgt else None
        if cb is None:
            # the flag as an associated const of the parameter trait (`P::CHECK_ORDER`): the one bool-typed trait const the
            # constructor (or a phase of it) reads, at the value this parameter set gives it
            import json as _json
            flags = set()
            for iname in seen:
                ib = F.bodies.get((F.instances.get(iname) or {}).get("def"))
                if ib is None:
                    continue
                for blk in ib.blocks:
                    for m_ in re.finditer(r'"ty": "bool", "uneval_def": "([^"<][^"]*)"', _json.dumps(blk)):
                        flags.add(m_.group(1))
            val = F.trait_const_in_instance(next(iter(flags)), "crate::groups::AffineG::<%s>::new" % params) if len(flags) == 1 else None
            if val is None:
                R.fail_closed("%s:check_order:%s" % (prop, params), "check_order for %s not resolved" % params)
                continue
            R.check(bool(val) == want, "%s:check_order:%s" % (prop, params), "%s gives %s = %s; expected %s" % (params, next(iter(flags)), bool(val), want), b.file_line(), b.rec["path"],
                    sample={"params": params, "check_order": bool(val), "resolved_to": "associated const %s" % next(iter(flags))})
            continue
        rv = repo.tb(cb).return_value()
        val = rv[1].get("int") if rv[0] == "const" else None
        R.check(val is not None and bool(int(val)) == want, "%s:check_order:%s" % (prop, params), "%s::check_order returns %s (resolved to %s); expected %s" % (params, val, tgt, want), cb.file_line(), tgt,
                sample={"params": params, "check_order": bool(int(val)) if val is not None else None, "resolved_to": tgt})
    out.append(R.finish())

    R2 = Rule("R-AFFINE-SITES", "affine points are constructed only by the validated constructor (after its checks), by to_affine and by negation; public wrappers wrap only those", floor=4, exhaustive=True)
    allowed = {"crate::groups::AffineG::<P>::new", "crate::groups::G::<P>::to_affine", "<crate::groups::AffineG<P> as core::ops::Neg>::neg"}
    wrap_allowed = {"crate::AffineG1": {"crate::AffineG1::new", "crate::AffineG1::from_jacobian"}, "crate::AffineG2": {"crate::AffineG2::new", "crate::AffineG2::from_jacobian"}}
    for fb in F.fn_bodies():
        if fb.rec.get("derived"):
            continue
        for bi in sorted(fb.reachable()):
            for si, st in enumerate(fb.blocks[bi]["stmts"]):
                if st["k"] != "assign":
                    continue
                rv = st["rv"]
                if rv["k"] == "aggregate" and rv.get("agg") == "adt":
                    if rv["adt"] == "crate::groups::AffineG":
                        R2.instance()
                        ok = fb.rec["path"].split("::{closure")[0] in allowed
                        if ok and fb.rec["path"].endswith("::new"):
                            # dominated by the true edge of the curve test — or built first as the candidate the checks are then run on:
                            # what the constructor hands out, and when, is the truth table's business (R-NEW-TT)
                            ok = any(fb.dominates(s, bi) for s in curve_true_blocks(repo, fb)) or candidate_only_escapes_through_ok(repo, fb, bi, si)
                        R2.check(ok, "%s:affine-site:%s" % (prop, fb.rec["path"]), "an AffineG is built in %s outside the validated paths" % fb.rec["path"], loc_of(fb, bi, si), fb.rec["path"],
                                 sample={"site": fb.rec["path"]})
                    if rv["adt"] in wrap_allowed:
                        R2.instance()
                        here = fb.rec["path"].split("::{closure")[0]
                        ok_site = here in wrap_allowed[rv["adt"]]
                        if not ok_site:
                            # a crate-private pass-through (`fn wrap(inner) -> Self { Self(inner) }`): wraps whatever its users hand it,
                            # so it is as good as they are — every way to reach it from outside the crate must lead through new / from_jacobian
                            ok_site = only_reached_through(F, here, wrap_allowed[rv["adt"]])
                        R2.check(ok_site, "%s:affine-site:%s" % (prop, fb.rec["path"]), "%s wraps an affine point outside new / from_jacobian" % fb.rec["path"],
                                 loc_of(fb, bi, si), fb.rec["path"], sample={"site": fb.rec["path"]})
                for op in shared_ops(rv):
                    if op.get("k") == "const" and "fn" in op and (op["fn"].get("def") in wrap_allowed):
                        R2.instance()
                        R2.check(fb.rec["path"].split("::{closure")[0] in wrap_allowed[op["fn"]["def"]], "%s:affine-site:%s" % (prop, fb.rec["path"]), "%s uses the %s constructor outside new / from_jacobian" % (fb.rec["path"], op["fn"]["def"]),
                                 loc_of(fb, bi, si), fb.rec["path"], sample={"site": fb.rec["path"], "ctor_as_fn": True})
            t = fb.blocks[bi]["term"]
            if t["k"] == "call":
                for op in t["args"]:
                    if op.get("k") == "const" and "fn" in op and (op["fn"].get("def") in wrap_allowed):
                        R2.instance()
                        R2.check(fb.rec["path"].split("::{closure")[0] in wrap_allowed[op["fn"]["def"]], "%s:affine-site:%s" % (prop, fb.rec["path"]), "%s uses the %s constructor outside new / from_jacobian" % (fb.rec["path"], op["fn"]["def"]),
                                 loc_of(fb, bi), fb.rec["path"], sample={"site": fb.rec["path"], "ctor_as_fn": True})
    muts = [p for p in F.bodies if p.startswith(("crate::AffineG1::set_", "crate::AffineG2::set_"))]
    R2.note("observation (outside the property's statement): public coordinate mutators exist on validated affine points: %s" % muts)
    out.append(R2.finish())
    return out


def only_reached_through(F, path, allowed):
    """In the monomorphic call graph (calls and function-item references), is every chain of users of the crate-private function
    `path` cut by one of the `allowed` functions before it reaches anything code outside the crate can name?"""
    if F.is_exported(path):
        return False
    users = {}
    for i in F.raw["instances"]:
        for c in list(i.get("calls") or []) + list(i.get("refs") or []):
            k = c.get("inst") or c.get("def")
            if k:
                users.setdefault(k, set()).add((i["def"], i["inst"]))
    seen, todo = set(), [path]
    found_user = False
    while todo:
        x = todo.pop()
        if x in seen:
            continue
        seen.add(x)
        for (d, inst) in users.get(x, ()):
            found_user = True
            root = d.split("::{closure")[0]
            if root in allowed:
                continue
            if root in F.bodies and F.is_exported(root):
                return False
            # a private function of the crate, or a library adaptor instantiated with the function item (`Option::map::<_, wrap>`):
            # whoever uses that instance is the user
            todo.append(inst)
    return found_user


def curve_true_blocks(repo, fb):
    """Successor blocks on which the curve-equation comparison of AffineG::new is known true."""
    tb = repo.tb(fb)
    out = []
    for bi in sorted(fb.reachable()):
        t = fb.blocks[bi]["term"]
        if t["k"] != "switch":
            continue
        d = tb.operand(t["discr"], bi, len(fb.blocks[bi]["stmts"]))
        # success edge of a validation phase `helper(x, y)?` (what the helper checks is decided by R-NEW-TT on the outcomes)
        dd = d
        if dd[0] == "discr":
            inner = strip(dd[1])
            if inner[0] == "call" and inner[1].name == "branch" and inner[2]:
                inner = strip(inner[2][0])
            if inner[0] == "call" and inner[1].d in repo.F.bodies and (repo.F.bodies[inner[1].d].rec.get("output") or "").startswith("core::result::Result<(), ") \
                    and (repo.F.bodies[inner[1].d].rec.get("span") or {}).get("file") == (fb.rec.get("span") or {}).get("file"):
                for v, tg in t["arms"]:
                    if int(v) == 0:
                        out.append(tg)
        if d[0] == "call" and d[1].name in ("eq", "ne") and degree(d[2][0], {("param", 1)}, {("param", 2)}) is not None:
            want = 0 if d[1].name == "ne" else 1
            tgt = t["otherwise"]
            for v, tg in t["arms"]:
                if int(v) == want:
                    tgt = tg
            if want == 1 and not any(int(v) == 1 for v, _ in t["arms"]):
                tgt = t["otherwise"]
            out.append(tgt)
    return out


def shared_ops(rv):
    k = rv["k"]
    if k in ("use", "repeat", "cast"):
        return [rv["op"]]
    if k == "binop":
        return [rv["a"], rv["b"]]
    if k == "unop":
        return [rv["a"]]
    if k == "aggregate":
        return rv["ops"]
    return []
