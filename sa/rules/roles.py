"""Role resolution: private helpers are identified by what they are (signature, receiver type, position in the module), never
by what they happen to be called. Public API names (types, `from_slice`, `to_compressed`, `miller_loop`, ...) are the anchors
the properties themselves name; everything below them is looked up through this module so that a rename or an extracted
helper does not change any verdict."""
from core.facts import FactsError

G1T = "crate::groups::G<crate::groups::G1Params>"
G2T = "crate::groups::G<crate::groups::G2Params>"
FQ12 = "crate::fields::fq12::Fq12"
FQ2 = "crate::fields::fq2::Fq2"
FQ = "crate::fields::fp::Fq"
TRIPLE = "(%s, %s, %s)" % (FQ2, FQ2, FQ2)
PAIR12 = "(%s, %s)" % (FQ12, FQ12)


def sig(b):
    return tuple(b.rec.get("inputs") or ()), b.rec.get("output")


class PairingRoles:
    """Roles of the functions of the pairing module, by signature."""
    def __init__(self, F):
        self.F = F
        self.mod = "crate::pairings"
        fns = [b for b in F.fn_bodies() if self.in_module(b) and b.rec.get("inputs") is not None]
        self.fns = fns
        by = {}

        def nrm(t):
            # by-value and by-shared-reference parameters are the same role; `&mut` is not
            t = (t or "").strip()
            if t.startswith("&mut "):
                return "&mut " + t[5:].strip()
            return t.lstrip("&").strip()
        for b in fns:
            by.setdefault((tuple(nrm(x) for x in b.rec["inputs"]), b.rec.get("output")), []).append(b)
        self.by_sig = by
        g = lambda ins, out: [b for b in by.get((tuple(nrm(x) for x in ins), out), [])]

        def pair12(out):
            """a (numerator, denominator) pair of Fq12: the tuple, or a local struct of exactly two Fq12 fields"""
            if out == PAIR12:
                return True
            a = F.adts.get(out or "")
            return bool(a) and len(a["variants"]) == 1 and [f["ty"] for f in a["variants"][0]["fields"]] == [FQ12, FQ12]

        def gp(ins):
            return [b for (i2, o2), bs in by.items() for b in bs if i2 == tuple(nrm(x) for x in ins) and pair12(o2)]
        self.tangent_eval = gp(["&" + G2T, "&" + G1T])
        self.chord_eval = gp(["&" + G2T, "&" + G2T, "&" + G1T])
        if not self.chord_eval:
            # the chord evaluation handed precomputed powers of the fixed point's z as extra Fq2 parameters (hoisted out of the loop
            # by the caller): same role; what the extras are is read off the call sites (weight.rule_weight_lines)
            want = tuple(nrm(x) for x in ["&" + G2T, "&" + G2T, "&" + G1T])
            self.chord_eval = [b for (i2, o2), bs in by.items() for b in bs if pair12(o2) and tuple(x for x in i2 if x != FQ2) == want and 0 < sum(1 for x in i2 if x == FQ2) <= 3
                               and i2[:2] == want[:2]]
        def triple_like(out):
            """the three line coefficients: the tuple, or a crate-local struct of exactly three Fq2 fields"""
            if out == TRIPLE:
                return True
            a = F.adts.get(out or "")
            return bool(a) and len(a.get("variants") or []) == 1 and [f["ty"] for f in a["variants"][0]["fields"]] == [FQ2, FQ2, FQ2]
        self.triple_like = triple_like

        def gt(ins):
            return [b for (i2, o2), bs in by.items() for b in bs if i2 == tuple(nrm(x) for x in ins) and triple_like(o2)]
        self.tangent_step = gt(["&mut " + G2T])
        self.chord_step = gt(["&mut " + G2T, "&" + G2T])
        self.twist_frob = g(["&" + G2T], G2T)
        # the same helpers merged into one that hands back several images at once: (&G2) -> (G2, G2, …)
        multi_outs = [("(%s)" % ",".join([G2T.replace(" ", "")] * k)) for k in (2, 3)]
        self.twist_frob_multi = [b for (i2, o2), bs in by.items() for b in bs if i2 == (G2T,) and (o2 or "").replace(" ", "") in multi_outs]
        self.twist_frob_by = g(["&" + G2T, "&" + FQ2], "core::option::Option<%s>" % G2T)
        # the machine-integer power function of Fq12, wherever the maintainer keeps it (pairing module or the field's own file)
        self.pow = [b for b in F.fn_bodies() if b.rec.get("inputs") is not None and tuple(nrm(x) for x in b.rec["inputs"]) == (FQ12, "u128") and b.rec.get("output") == FQ12]
        # builds the sparse Fq12 line value from a stored coefficient triple (whole or destructured) and the G1 point's coordinates
        def strip_ref(t):
            return t.lstrip("&").replace("mut ", "").strip()
        def fq12_like(out):
            """Fq12 itself, or a crate-local newtype around it (a tagged line value)"""
            if out == FQ12:
                return True
            a = F.adts.get(out or "")
            return bool(a) and len(a.get("variants") or []) == 1 and [f["ty"] for f in a["variants"][0]["fields"]] == [FQ12]
        self.sparse = [b for b in fns if fq12_like(b.rec.get("output")) and not any(strip_ref(t) in (FQ12, G1T, G2T) for t in b.rec["inputs"])
                       and any(strip_ref(t) in (TRIPLE, FQ2) or triple_like(strip_ref(t)) for t in b.rec["inputs"]) and any(strip_ref(t) == FQ for t in b.rec["inputs"])]
        self.jac_loop = [b for b in g(["&" + G2T, "&" + G1T], FQ12) if b.vis == "Public"]
        self.prepared_ty = None
        self.producer = None
        self.consumer = None
        for b in F.fn_bodies():
            if b.name == "from" and b.impl_trait == "core::convert::From" and tuple(b.rec.get("inputs") or ()) == (G2T,) and self.in_module(b):
                self.producer = b
                self.prepared_ty = b.rec.get("output")
        if self.prepared_ty:
            c = [b for b in g(["&" + self.prepared_ty, "&" + G1T], FQ12) if b.vis == "Public"]
            self.consumer = c[0] if len(c) == 1 else None
        self.int_helpers = [b for b in fns if b.rec["inputs"] and all(t in ("u128", "u64", "u32", "usize", "u8", "bool") for t in b.rec["inputs"])
                            and b.rec.get("output") in ("bool", "u128", "u64", "u32", "usize", "u8")]
        self.final_exps = [b for b in g(["&" + FQ12], "core::option::Option<%s>" % FQ12) if b.vis == "Public"]

    def in_module(self, b):
        p = b.rec["path"]
        return p.startswith(self.mod + "::") or p.startswith("<" + self.mod + "::")

    def role_of(self, d):
        for nm in ("tangent_eval", "chord_eval", "tangent_step", "chord_step", "twist_frob", "twist_frob_multi", "twist_frob_by", "pow", "sparse"):
            if any(b.rec["path"] == d for b in getattr(self, nm)):
                return nm
        return None

    def one(self, nm):
        v = getattr(self, nm)
        if len(v) != 1:
            raise FactsError("pairing module: expected exactly one function in the role %s, found %s" % (nm, [b.rec["path"] for b in v]))
        return v[0]

    def consts(self):
        """integer / byte-array constants of the pairing module: {path: rec}"""
        return {p: c for p, c in self.F.consts.items() if p.startswith(self.mod + "::")}


def int_helper_paths(F):
    """crate-local free functions / methods whose parameters and result are all plain integers or booleans."""
    ints = ("u128", "u64", "u32", "usize", "u8", "u16", "bool", "i32", "i64")
    out = set()
    for b in F.fn_bodies():
        ins = b.rec.get("inputs")
        if ins is not None and all(t in ints for t in ins) and b.rec.get("output") in ints and b.rec["path"].startswith("crate::") and b.rec["kind"] in ("Fn", "AssocFn"):
            out.add(b.rec["path"])
    return out
