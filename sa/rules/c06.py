"""C06 — Fq and Fr arithmetic is exact integer arithmetic modulo q and r (structural clauses)."""
from core import report
from core.sm9 import Repo
from . import shared, field, consts, ladder, carry
from .c13 import rule_canon_conv
from . import conv2

LADDERS = [("crate::fields::FieldElement::pow", "one", "squared", "mul_assign")]


def ladders(repo):
    """the generic exponentiation, wherever the maintainer keeps it: by default the provided method of the field trait; if that is
    gone, the `pow` that the public `Gt::pow` forwards to (an extension trait with a blanket impl, a free function, …)"""
    F = repo.F
    if LADDERS[0][0] in F.bodies:
        return LADDERS
    w = F.bodies.get("crate::Gt::pow")
    cands = []
    for _, t in (w.calls() if w is not None else []):
        fn = t.get("fn") or {}
        for d in (fn.get("res_def"), fn.get("def")):
            if d in F.bodies and fn.get("name") == "pow" and d not in cands:
                cands.append(d)
    return [(cands[0],) + LADDERS[0][1:]] if len(cands) == 1 else LADDERS


def run(ctx):
    repo = Repo(ctx.dev)
    closed, prim, r_step = shared.classify_u256(repo)
    rules = [consts.rule_const("C06", repo), shared.rule_guard(repo), field.rule_guard_extra("C06", repo), r_step, field.rule_inv_none("C06", repo), field.rule_limb_predicates("C06", repo),
             field.rule_ops_forward("C06", repo, ["crate::fields::fp::Fr", "crate::fields::fp::Fq", "crate::Fr", "crate::Fq"]),
             ladder.rule_ladder("C06", repo, ladders(repo)), field.rule_bits("C06", repo), rule_canon_conv(repo), conv2.rule_scalar_encoders("C06", repo, conv2.make_conv(repo)), carry.rule_carry_chain("C06", repo)]
    return report.emit(
        "C06", ctx.tier, ctx.seed, rules, ctx.started,
        "Montgomery constants (R, R², −p⁻¹) by defining relation and paired with their own type at every modular call site; truth tables of every modulus-boundary comparison over the "
        "ordering domain (conditional subtraction, borrow-add, negation, range check, division, halving, root sign); every modular U256 operation exits through the conditional "
        "subtraction; inverse None ⇔ zero; all operator forms forward to one implementation with operands in order; pow is a left-to-right ladder over canonical bits; a carry pending across the iterations of a Montgomery multiply / square loop is read on every path through the loop body.",
        shared.ASSUMPTIONS,
        ["the values carried inside mul / square / sum_of_products (only that no iteration steps over a pending carry is decided), the binary Euclid inversion, i.e. the numerical results"])
