"""Typestate of Jacobian points (DESIGN §4.B, C01/C03/C16): inferred `affine-only` requirements, their
propagation to callers, and discharge at every call site up to the public API."""
from core.report import Rule
from core.facts import FactsError
from core.terms import strip, alts, walk, show
from core import paths
from . import shared
from .shared import loc_of, type_of_term

GTY = "crate::groups::G<"
WRAPPERS = ("crate::G1", "crate::G2")

# One reasoned exception (DESIGN §5 C01, §6 D5): the G2-side operand of the prepared line function needs to be
# normalised but not non-identity — with z = 0 the accumulator keeps z = 0, every coefficient lands in a proper
# subfield coset and the final exponentiation removes it. Requiring a guard there would alarm on correct code.
NORM_ONLY = {("g_line", 2): "G2-side identity: line values fall in Fq4*·Fq6* cosets and vanish under the final exponentiation"}


def peel(ty):
    ty = ty.strip()
    while ty.startswith("&"):
        ty = ty[1:].strip()
        if ty.startswith("'"):                       # a named lifetime: &'a T
            ty = ty.split(" ", 1)[1].strip() if " " in ty else ty
        if ty.startswith("mut "):
            ty = ty[4:]
    return ty


def is_g(ty):
    return peel(ty).startswith(GTY)


def is_wrapper(ty):
    return peel(ty) in WRAPPERS


class Norm:
    def __init__(self, repo):
        self.repo = repo
        self.F = repo.F
        self.accessors = self._accessors()
        self.normalizers = self._normalizers()
        self.req = {}          # (fn path, param index) -> {'level': 'norm+nonid'|'norm', 'via': [...]}
        self.freq = {}         # (crate-local struct, field index) -> the same, for a point kept in a state struct between calls
        self._zp = {}
        self._infer()

    # -------------------------------------------------------------- roles
    def _accessors(self):
        """G methods that return a reference to coordinate k: {def path: k}."""
        out = {}
        for b in self.F.fn_bodies():
            ins = b.rec.get("inputs") or []
            if len(ins) == 1 and is_g(ins[0]) and (b.rec.get("output") or "").startswith("&"):
                rv = self.repo.tb(b).return_value()
                t = rv
                while t[0] == "ref":
                    t = t[1]
                if t[0] == "field" and strip(t[1]) in (("init", ("deref", 1)), ("param", 1)):
                    out[b.rec["path"]] = t[2]
        if len(out) < 3:
            raise FactsError("coordinate accessors of groups::G not recognised (%d found)" % len(out))
        return out

    def _normalizers(self):
        """Functions `&mut P -> ()` that leave *self unchanged or replace it by to_jacobian(to_affine(*self))."""
        out = {}
        for b in self.F.fn_bodies():
            ins = b.rec.get("inputs") or []
            if len(ins) != 1 or not ins[0].startswith("&mut ") or not (is_g(ins[0]) or is_wrapper(ins[0])):
                continue
            tb = self.repo.tb(b)
            fin = tb.final_value(("deref", 1))
            ok, changed = True, False
            for a in alts(fin):
                if a == ("init", ("deref", 1)):
                    continue
                v = a
                if v[0] == "update" and v[2] == (("f", 0),):
                    v = v[3]
                if v[0] == "call" and v[1].name == "to_jacobian" and "AffineG" in v[1].d:
                    src = [s for s in walk(v[2][0]) if s[0] == "call" and s[1].name == "to_affine"]
                    if src:
                        changed = True
                        continue
                ok = False
            if ok and changed and self._unchanged_only_without_affine_form(b, tb):
                out[b.rec["path"]] = True
        # by-value helpers `fn(G) -> G` returning the argument itself (only when it has no affine form) or to_jacobian(to_affine(arg)),
        # and the `&mut` functions that assign such a helper's result of *self (or of the wrapped point) back
        pure = self._pure_normalizers()
        if pure:
            for b in self.F.fn_bodies():
                ins = b.rec.get("inputs") or []
                if b.rec["path"] in out or len(ins) != 1 or not ins[0].startswith("&mut ") or not (is_g(ins[0]) or is_wrapper(ins[0])):
                    continue
                al = list(alts(self.repo.tb(b).final_value(("deref", 1))))
                good = bool(al)
                for a in al:
                    v = a
                    if v[0] == "update" and v[2] == (("f", 0),):
                        v = v[3]
                    if not (v[0] == "call" and v[1].d in pure and len(v[2]) == 1):
                        good = False
                        break
                    tgt = strip(v[2][0])
                    while tgt[0] == "field" and tgt[2] == 0:
                        tgt = strip(tgt[1])
                    if tgt != ("init", ("deref", 1)):
                        good = False
                        break
                if good:
                    out[b.rec["path"]] = True
        # wrappers that only hand *self (or the wrapped point) to a normaliser are normalisers
        for _ in range(3):
            grew = False
            for b in self.F.fn_bodies():
                ins = b.rec.get("inputs") or []
                if b.rec["path"] in out or len(ins) != 1 or not ins[0].startswith("&mut ") or not (is_g(ins[0]) or is_wrapper(ins[0])):
                    continue
                fin = self.repo.tb(b).final_value(("deref", 1))
                al = list(alts(fin))
                if not al:
                    continue
                good = True
                for a in al:
                    v = a
                    if v[0] == "update" and v[2] == (("f", 0),):
                        v = v[3]
                    if not (v[0] == "mutcall" and v[1].d in out and v[3] == 0 and len(v[2]) == 1):
                        good = False
                        break
                    tgt = strip(v[2][0])
                    while tgt[0] == "field" and tgt[2] == 0:
                        tgt = strip(tgt[1])
                    if tgt != ("init", ("deref", 1)):
                        good = False
                        break
                if good:
                    out[b.rec["path"]] = True
                    grew = True
            if not grew:
                break
        return out

    def _pure_normalizers(self):
        import itertools
        out = {}
        for b in self.F.fn_bodies():
            ins = b.rec.get("inputs") or []
            if len(ins) != 1 or ins[0].strip().startswith("&") or not is_g(ins[0]) or not is_g(b.rec.get("output") or ""):
                continue
            try:
                tb = self.repo.tb(b)
                rv = tb.return_value()
            except Exception:
                continue
            ok, changed = True, False
            for a in alts(rv):
                if strip(a) == ("param", 1):
                    continue
                if a[0] == "call" and a[1].name == "to_jacobian" and "AffineG" in a[1].d and \
                        any(s[0] == "call" and s[1].name == "to_affine" and len(s[2]) == 1 and strip(s[2][0]) == ("param", 1) for s in walk(a[2][0])):
                    changed = True
                    continue
                ok = False
            if not (ok and changed):
                continue
            # the argument may come back as it was only on the path where to_affine() returned None
            atoms = paths.collect_atoms(b, tb)
            datoms = [a for a in atoms if a[0] == "discr"]
            others = [a for a in atoms if a[0] != "discr"]
            aff = [a for a in datoms if any(s[0] == "call" and s[1].name == "to_affine" for s in walk(a[1]))]
            if len(aff) != 1:
                continue
            good = True
            for dc in itertools.product([0, 1], repeat=len(datoms)):
                for asg in paths.enumerate_assignments(others):
                    choice = dict(zip(datoms, dc))
                    res = paths.simulate(b, tb, paths.Evaluator(asg), discr_choice=choice)
                    if res.end != "return":
                        continue
                    v = paths.path_value(b, tb, res.blocks, 0)
                    if strip(v) == ("param", 1) and choice[aff[0]] != 0:
                        good = False
            if good:
                out[b.rec["path"]] = True
        return out

    def _unchanged_only_without_affine_form(self, b, tb):
        """*self may stay as it was only on the path where to_affine() returned None (z = 0)."""
        import itertools
        atoms = paths.collect_atoms(b, tb)
        datoms = [a for a in atoms if a[0] == "discr"]
        others = [a for a in atoms if a[0] != "discr"]
        aff = [a for a in datoms if any(s[0] == "call" and s[1].name == "to_affine" for s in walk(a[1]))]
        if len(aff) != 1:
            return False
        for dc in itertools.product([0, 1], repeat=len(datoms)):
            for asg in paths.enumerate_assignments(others):
                choice = dict(zip(datoms, dc))
                res = paths.simulate(b, tb, paths.Evaluator(asg), discr_choice=choice)
                if res.end != "return":
                    continue
                v = paths.path_value(b, tb, res.blocks, ("deref", 1))
                if v == ("init", ("deref", 1)) and choice[aff[0]] != 0 and not self._tested_identity(asg):
                    return False
        return True

    def _tested_identity(self, asg):
        """an `is_zero(*self)` / `is_zero(self.0)` test came out true on this path (the identity is its own normal form), or
        the z coordinate compared equal to one() (the point is already in normal form)"""
        def is_self(y):
            y = strip(y)
            while y[0] == "field" and y[2] == 0:
                y = strip(y[1])
            return y == ("init", ("deref", 1))

        def is_z_of_self(t):
            t = strip(t)
            if t[0] == "field" and t[2] == 2 and is_self(t[1]):
                return True
            if t[0] == "call" and len(t[2]) == 1 and is_self(t[2][0]):
                if self.accessors.get(t[1].d) == 2:
                    return True
                # wrapper accessor `fn z(&self) -> Fq { Fq(*self.0.z()) }`
                cb = self.F.bodies.get(t[1].d)
                if cb is not None and len(cb.rec.get("inputs") or []) == 1:
                    rv = strip(self.repo.tb(cb).return_value())
                    while rv[0] == "agg" and len(rv[3]) == 1:
                        rv = strip(rv[3][0])
                    return is_z_of_self(rv) if rv[0] in ("field", "call") else False
            return False
        for a, v in asg.items():
            if a[0] == "ord" and v == "E":
                for x, y in ((a[1], a[2]), (a[2], a[1])):
                    y = strip(y)
                    if y[0] == "call" and y[1].name == "one" and not y[2] and is_z_of_self(x):
                        return True
        for a, v in asg.items():
            if v == 1 and a[0] == "bool" and a[1][0] == "call" and a[1][1].name == "is_zero" and len(a[1][2]) == 1:
                y = strip(a[1][2][0])
                while y[0] == "field" and y[2] == 0:
                    y = strip(y[1])
                if y == ("init", ("deref", 1)):
                    return True
        return False

    # -------------------------------------------------------------- direct reads
    def coord_reads(self, body, p):
        """Set of coordinate indices of parameter p that body reads itself (field projection or accessor call)."""
        reads = set()
        whole = []      # (bb, callee fn, argpos) where p is passed on unchanged
        tb = self.repo.tb(body)
        pty = body.locals[p]["ty"]
        byref = pty.strip().startswith("&")
        base_terms = {("param", p), ("init", ("deref", p))}

        def is_p(t):
            return strip(t) in base_terms

        for bi in sorted(body.reachable()):
            blk = body.blocks[bi]
            for si, st in enumerate(blk["stmts"]):
                if st["k"] != "assign":
                    continue
                for pl in places_read(st["rv"]):
                    if pl["l"] != p:
                        continue
                    proj = pl["p"]
                    if byref and proj[:1] == ["deref"]:
                        proj = proj[1:]
                    if proj and isinstance(proj[0], dict) and "f" in proj[0]:
                        reads.add(proj[0]["f"])
                    elif not proj and st["rv"]["k"] == "use" and not byref:
                        pass
            t = blk["term"]
            if t["k"] == "call" and "fn" in t:
                args = tb.call_args(bi)
                d = t["fn"].get("res_def") or t["fn"].get("def")
                for ai, a in enumerate(args):
                    if is_p(a):
                        if d in self.accessors:
                            reads.add(self.accessors[d])
                        else:
                            whole.append((bi, t["fn"], ai))
        # whole-value copies `let mut t = *self` that are then used: follow one level — reads through the copy
        for bi in sorted(body.reachable()):
            blk = body.blocks[bi]
            for si, st in enumerate(blk["stmts"]):
                if st["k"] == "assign" and st["rv"]["k"] == "use" and not st["place"]["p"]:
                    op = st["rv"]["op"]
                    if op.get("k") in ("copy", "move") and op["place"]["l"] == p and op["place"]["p"] == (["deref"] if byref else []):
                        reads.add("copied")
        return reads, whole

    def _infer(self):
        F = self.F
        cands = []
        for b in F.fn_bodies():
            ins = b.rec.get("inputs") or []
            for i, ty in enumerate(ins):
                if is_g(ty) and not ty.startswith("&mut "):
                    cands.append((b, i + 1))
        info = {}
        for b, p in cands:
            if b.rec["path"] in self.accessors:
                continue
            reads, whole = self.coord_reads(b, p)
            info[(b.rec["path"], p)] = (b, reads, whole)
            xy = reads & {0, 1}
            if xy and 2 not in reads and "copied" not in reads:
                lvl = "norm" if (b.name, p) in NORM_ONLY else "norm+nonid"
                self.req[(b.rec["path"], p)] = {"level": lvl, "why": "reads coordinate(s) %s of `%s` and never z" % (sorted(xy), b.local_name(p)), "direct": True}
        # propagate through unchanged (or z-preservingly mapped) parameters
        changed = True
        rounds = 0
        while changed and rounds < 10:
            changed = False
            rounds += 1
            for b in F.fn_bodies():
                tb = None
                for bi, t in b.calls():
                    fn = t.get("fn")
                    if not fn:
                        continue
                    d = fn.get("res_def") or fn.get("def")
                    for ai in range(len(t["args"])):
                        r = self.req.get((d, ai + 1))
                        if r is None:
                            continue
                        tb = tb or self.repo.tb(b)
                        arg = tb.call_args(bi)[ai]
                        ps = {self.base_param(b, a) for a in alts(strip(arg))}
                        if None in ps or len(ps) != 1:
                            sf = {self.struct_field(b, a) for a in alts(strip(arg))}
                            if None not in sf and len(sf) == 1:
                                k = sf.pop()
                                curf = self.freq.get(k)
                                if curf is None or (curf["level"] == "norm" and r["level"] == "norm+nonid"):
                                    self.freq[k] = {"level": r["level"], "why": "field %d of %s is handed to %s (param %d)" % (k[1], k[0], d, ai + 1)}
                                    changed = True
                            continue
                        p = ps.pop()
                        path = b.rec["path"]
                        cur = self.req.get((path, p))
                        lvl = r["level"]
                        # reached only where the parameter's z compared equal to one(): normalised (and not an identity) right here
                        if self._guarded_z_one(b, tb, p, bi):
                            continue
                        # a non-identity guard on the parameter that dominates this call discharges that half locally
                        if lvl == "norm+nonid" and self._guarded_nonzero(b, tb, [("param", p), ("init", ("deref", p))], bi):
                            lvl = "norm"
                        if cur is None or (cur["level"] == "norm" and lvl == "norm+nonid"):
                            self.req[(path, p)] = {"level": lvl, "why": "passes `%s` (unchanged up to z-preserving maps) to %s (param %d)" % (b.local_name(p), d, ai + 1),
                                                   "direct": False, "via": (d, ai + 1)}
                            changed = True
                # a state struct with a required field is built here from one of this function's own parameters: the requirement moves on
                for bi2, si2, adt2, ops2 in self.constructions(b):
                    for (sp_, fi_), rf in list(self.freq.items()):
                        if sp_ != adt2 or fi_ >= len(ops2):
                            continue
                        tb = tb or self.repo.tb(b)
                        term = tb.operand(ops2[fi_], bi2, si2)
                        ps = {self.base_param(b, a) for a in alts(strip(term))}
                        if None in ps or len(ps) != 1:
                            continue
                        p = ps.pop()
                        cur = self.req.get((b.rec["path"], p))
                        if cur is None or (cur["level"] == "norm" and rf["level"] == "norm+nonid"):
                            self.req[(b.rec["path"], p)] = {"level": rf["level"], "why": "stores `%s` in field %d of %s, from where it %s" % (b.local_name(p), fi_, sp_.split("::")[-1], rf["why"]),
                                                            "direct": False, "via": (sp_, fi_)}
                            changed = True

    def constructions(self, b):
        """[(block, statement index, struct path, operands)] for every crate-local struct literal in `b`"""
        out = []
        for bi, blk in enumerate(b.blocks):
            for si, st in enumerate(blk["stmts"]):
                if st["k"] == "assign" and st["rv"]["k"] == "aggregate" and st["rv"].get("agg") == "adt" and st["rv"].get("adt") in self.F.adts:
                    out.append((bi, si, st["rv"]["adt"], st["rv"]["ops"]))
        return out

    def struct_field(self, body, t):
        """(struct path, field index) when the term reads a point (or a reference to one) out of a field of a crate-local struct that
        is never assigned after construction (a loop state object carrying its fixed argument)"""
        t = strip(t)
        for _ in range(4):
            if t[0] in ("deref", "ref"):
                t = strip(t[1])
        if t[0] != "field":
            return None
        sty = peel(type_of_term(self.F, body, t[1]) or "").split("<")[0]
        adt = self.F.adts.get(sty)
        if not adt or adt.get("kind") != "Struct" or sty in WRAPPERS or is_g(sty):
            return None
        flds = adt["variants"][0]["fields"]
        if t[2] >= len(flds) or not is_g(peel(flds[t[2]].get("ty") or "")):
            return None
        if flds[t[2]].get("vis") == "Public" or self._field_assigned(sty, t[2]):
            return None
        return (sty, t[2])

    def _field_assigned(self, sty, fi):
        key = (sty, fi)
        cache = self.__dict__.setdefault("_fa", {})
        if key not in cache:
            from core.sm9 import place_types
            hit = False
            for b in self.F.fn_bodies():
                for blk in b.blocks:
                    for st in blk["stmts"]:
                        if st["k"] != "assign":
                            continue
                        for pl in (st["place"], st["rv"].get("place") if st["rv"]["k"] in ("ref", "rawptr") and st["rv"].get("mut") else None):
                            if not pl:
                                continue
                            for j, e in enumerate(pl["p"]):
                                if isinstance(e, dict) and e.get("f") == fi:
                                    try:
                                        base = (place_types(b, {"l": pl["l"], "p": pl["p"][:j]})[-1] or "").split("<")[0].strip()
                                    except Exception:
                                        continue
                                    if base == sty:
                                        hit = True
            cache[key] = hit
        return cache[key]

    def _guarded_z_one(self, b, tb, p, bi):
        """every path of `b` that reaches block `bi` answered `param.z == one()` with equal (finite enumeration of the branch atoms)"""
        key = (b.rec["path"], p, bi)
        cache = self.__dict__.setdefault("_gz1", {})
        if key in cache:
            return cache[key]
        cache[key] = False
        try:
            atoms = paths.collect_atoms(b, tb)
        except Exception:
            return False
        if len(atoms) > 10:
            return False
        bases = (("param", p), ("init", ("deref", p)))
        targets = []
        for a in atoms:
            if a[0] != "ord":
                continue
            for x, y in ((a[1], a[2]), (a[2], a[1])):
                x, y = strip(x), strip(y)
                if x[0] == "field" and x[2] == 2 and strip(x[1]) in bases and y[0] == "call" and y[1].name == "one" and not y[2]:
                    targets.append(a)
        if not targets:
            return False
        reached = False
        for asg in paths.enumerate_assignments(atoms):
            res = paths.simulate(b, tb, paths.Evaluator(asg))
            if bi not in res.blocks:
                continue
            reached = True
            if not any(asg.get(t_) == "E" for t_ in targets):
                return False
        cache[key] = reached
        return reached

    # -------------------------------------------------------------- z-preserving maps
    def z_preserving(self, d):
        """A function G -> G (or Option<G>) whose result's z is the receiver's z, copied or conjugated: it maps
        normalised points to normalised points and keeps z = 0 ⇔ z = 0."""
        if d in self._zp:
            return self._zp[d]
        self._zp[d] = False
        b = self.F.bodies.get(d)
        if b is None:
            return False
        ins = b.rec.get("inputs") or []
        if not ins or not is_g(ins[0]) or GTY not in (b.rec.get("output") or ""):
            return False
        rv = self.repo.tb(b).return_value()
        base = {("param", 1), ("init", ("deref", 1))}

        def zsrc(t):
            t = strip(t)
            if t[0] == "field" and t[2] == 2 and strip(t[1]) in base:
                return True
            if t[0] == "call" and t[1].d in self.accessors and self.accessors[t[1].d] == 2 and strip(t[2][0]) in base:
                return True
            if t[0] == "call" and t[1].name == "unitary_inverse" and len(t[2]) == 1:
                return zsrc(t[2][0])
            return False
        found = 0
        for a in alts(rv):
            a0 = strip(a)
            if a0 in base:
                continue
            cons = [s for s in walk(a) if (s[0] == "call" and s[1].d == "crate::groups::G::<P>::new") or (s[0] == "agg" and s[1] == "crate::groups::G")]
            if not cons:
                if (a0[0] == "agg" and a0[2] == "None") or (a0[0] == "call" and a0[1].name == "from_residual"):
                    continue
                return False
            for c in cons:
                z = c[2][2] if c[0] == "call" else c[3][2]
                if not zsrc(z):
                    return False
                found += 1
        self._zp[d] = found > 0
        return self._zp[d]

    # -------------------------------------------------------------- state of an argument
    def state_of(self, body, tb, term, site_bb):
        """(norm, nonid, description) for the point a term designates at a call site."""
        t = strip(term)
        norm_all, nonid_all = True, True
        descs = []
        res = [self._state1(body, tb, a, site_bb) + (a,) for a in alts(t)]
        for n, z, d, a in res:
            if not n and self._normalised_or_identity(body, tb, a, [x[3] for x in res if x[0]], site_bb):
                n = True
                d += " (reaches the call only over an is_zero edge; normalised otherwise)"
            if not n and self._none_arm_of_to_affine(body, tb, a, site_bb):
                n = True
                d += " (reaches the call only where its to_affine() answered None: the identity, its own normal form — R-AFFINE-NONE)"
            if not n or not z:
                bp = self.base_param(body, a)
                if bp is not None and self._guarded_z_one(body, tb, bp, site_bb):
                    n = z = True
                    d += " (reaches the call only where its z compared equal to one())"
            norm_all &= n
            nonid_all &= z
            descs.append(d)
        return norm_all, nonid_all, "; ".join(descs)

    def _unwrap(self, body, y):
        y = strip(y)
        while y[0] == "field" and y[2] == 0 and peel(type_of_term(self.F, body, y[1]) or "") in WRAPPERS:
            y = strip(y[1])
        return y

    def _normalised_or_identity(self, body, tb, raw, normed, site_bb):
        """`raw` is the un-normalised alternative of a merge whose other alternatives are normalizer results on the same
        value: sound iff every path to the call site runs through the normalizer call or over the true edge of
        `is_zero(raw)` (the identity is its own normal form)."""
        raw = self._unwrap(body, self._through(body, strip(raw)))
        nblocks = set()
        for a in normed:
            cur = self._unwrap(body, self._through(body, strip(a)))
            while cur[0] == "mutcall" and cur[1].d in self.normalizers and cur[3] == 0:
                nblocks.add(cur[4])
                cur = self._unwrap(body, cur[2][0])
            if cur != raw:
                return False
        if not nblocks:
            return False
        cut = set()       # (from, to) edges on which is_zero(raw) holds
        for bi in sorted(body.reachable()):
            term = body.blocks[bi]["term"]
            if term["k"] != "switch":
                continue
            d = tb.operand(term["discr"], bi, len(body.blocks[bi]["stmts"]))
            neg = False
            while d[0] == "unop" and d[1] == "Not":
                d = d[2]
                neg = not neg
            if d[0] != "call" or d[1].name != "is_zero" or len(d[2]) != 1 or self._unwrap(body, d[2][0]) != raw:
                continue
            want = 0 if neg else 1
            tgt = term["otherwise"]
            for val, tg in term["arms"]:
                if int(val) == want:
                    tgt = tg
            others = {tg for val, tg in term["arms"]} | {term["otherwise"]}
            if len(others) == 2:
                cut.add((bi, tgt))
        if not cut:
            return False
        succ = body.succ()
        seen, todo = set(), [0]
        while todo:
            x = todo.pop()
            if x in seen or x in nblocks:
                continue
            seen.add(x)
            if x == site_bb:
                return False
            for y in succ[x]:
                if (x, y) not in cut:
                    todo.append(y)
        return True

    def _none_arm_of_to_affine(self, body, tb, raw, site_bb):
        """the call site is dominated by the None arm of a `match raw.to_affine()`: on that arm the point is the identity"""
        raw = self._unwrap(body, self._through(body, strip(raw)))
        for bi in sorted(body.reachable()):
            term = body.blocks[bi]["term"]
            if term["k"] != "switch":
                continue
            d = strip(tb.operand(term["discr"], bi, len(body.blocks[bi]["stmts"])))
            if d[0] != "discr":
                continue
            c = strip(d[1])
            if c[0] != "call" or c[1].name != "to_affine" or "groups::G" not in c[1].d or len(c[2]) != 1 or self._unwrap(body, strip(c[2][0])) != raw:
                continue
            tgt = next((tg for val, tg in term["arms"] if int(val) == 0), None)          # Option::None has discriminant 0
            if tgt is None and not any(int(v) == 0 for v, _ in term["arms"]):
                tgt = term["otherwise"]
            if tgt is not None and body.pred()[tgt] == [bi] and body.dominates(tgt, site_bb):
                return True
        return False

    def base_param(self, body, t):
        """If the term designates (a z-preserving image of) an unchanged G-typed parameter of `body`, that parameter."""
        t = self._through(body, strip(t))
        if t[0] == "param" and is_g(body.locals[t[1]]["ty"]):
            return t[1]
        if t[0] == "init" and is_g(body.locals[t[1][1]]["ty"]):
            return t[1][1]
        return None

    def _through(self, body, t):
        for _ in range(12):
            t = strip(t)
            if t[0] == "call" and t[1].name in ("unwrap", "expect") and t[1].d.startswith("core::option::Option"):
                t = t[2][0]
            elif t[0] == "field" and t[2] == 0 and strip(t[1])[0] == "down" and strip(t[1])[3] == "Some":
                t = strip(t[1])[1]
            elif t[0] == "call" and self.z_preserving(t[1].d):
                t = t[2][0]
            elif t[0] == "call" and t[1].name == "neg" and len(t[2]) == 1 and GTY in (type_of_term(self.F, body, t) or ""):
                # resolved Neg for G: checked z-preserving by definition path
                if self.z_preserving(t[1].d):
                    t = t[2][0]
                else:
                    return t
            else:
                return t
        return t

    def _state1(self, body, tb, t, site_bb):
        t = self._through(body, strip(t))
        while t[0] == "field" and t[2] == 0 and peel(type_of_term(self.F, body, t[1]) or "") in WRAPPERS:
            t = strip(t[1])
        if t[0] == "call":
            if t[1].name == "to_jacobian" and "AffineG" in t[1].d:
                return True, True, "to_jacobian(affine)"
            if t[1].name == "one" and (t[1].get("trait") or "").endswith(("GroupElement", "GroupParams", "Group")):
                return True, True, "generator"
        chain = [t]
        cur = t
        norm = False
        while cur[0] == "mutcall" and cur[1].d in self.normalizers and cur[3] == 0:
            norm = True
            cur = strip(cur[2][0])
            while cur[0] == "field" and cur[2] == 0 and peel(type_of_term(self.F, body, cur[1]) or "") in WRAPPERS:
                cur = strip(cur[1])
            chain.append(cur)
        # copies `let mut g = *g1`
        base = chain[-1]
        nonid = self._guarded_nonzero(body, tb, chain, site_bb)
        return norm, nonid, "%s%s of %s" % ("normalised" if norm else "as given", ", guarded non-identity" if nonid else "", show(base, maxdepth=2))

    def _guarded_nonzero(self, body, tb, chain, site_bb):
        cset = set(chain)
        for bi in sorted(body.reachable()):
            term = body.blocks[bi]["term"]
            if term["k"] != "switch":
                continue
            d = tb.operand(term["discr"], bi, len(body.blocks[bi]["stmts"]))
            neg = False
            while d[0] == "unop" and d[1] == "Not":
                d = d[2]
                neg = not neg
            if d[0] != "call" or d[1].name != "is_zero" or len(d[2]) != 1:
                continue
            y = strip(d[2][0])
            while y[0] == "field" and y[2] == 0 and peel(type_of_term(self.F, body, y[1]) or "") in WRAPPERS:
                y = strip(y[1])
            if y not in cset:
                continue
            # edge on which is_zero is false
            want = 1 if neg else 0
            tgt = term["otherwise"]
            for val, tg in term["arms"]:
                if int(val) == want:
                    tgt = tg
            if want == 1 and not any(int(v) == 1 for v, _ in term["arms"]):
                tgt = term["otherwise"]
            if body.pred()[tgt] == [bi] and body.dominates(tgt, site_bb):
                return True
        return False


def places_read(rv):
    out = []
    k = rv["k"]
    if k in ("ref", "discr", "rawptr"):
        out.append(rv["place"])
    for op in shared_ops(rv):
        if op.get("k") in ("copy", "move"):
            out.append(op["place"])
    return out


def shared_ops(rv):
    k = rv["k"]
    if k in ("use", "repeat", "cast"):
        return [rv["op"]]
    if k == "binop":
        return [rv["a"], rv["b"]]
    if k == "unop":
        return [rv["a"]]
    if k == "aggregate":
        return rv["ops"]
    return []


def rule_norm(prop, repo, N=None):
    F = repo.F
    N = N or Norm(repo)
    R = Rule("R-NORM", "every affine-only consumer (inferred: reads x/y of a Jacobian operand, never z) is fed a normalised — and, on the G1 side, "
             "non-identity — operand on all paths; requirements on unchanged parameters lift to callers and must be discharged below the public API", floor=4)
    direct = {k: v for k, v in N.req.items() if v.get("direct")}
    for (path, p), r in sorted(N.req.items()):
        R.note("requirement %s on %s param %d: %s" % (r["level"], path, p, r["why"]))
    for (name, p), reason in NORM_ONLY.items():
        hits = [k for k in direct if F.bodies[k[0]].name == name and k[1] == p]
        if hits:
            R.assume("%s param %d" % (hits[0][0], p), reason)
        else:
            R.note("stale exception entry: no direct requirement on %s param %d" % (name, p))
    R.instance(len(direct))
    # every call site of a function with a requirement
    for b in F.fn_bodies():
        tb = None
        for bi, t in b.calls():
            fn = t.get("fn")
            if not fn:
                continue
            d = fn.get("res_def") or fn.get("def")
            for ai in range(len(t["args"])):
                r = N.req.get((d, ai + 1))
                if r is None:
                    continue
                tb = tb or repo.tb(b)
                arg = tb.call_args(bi)[ai]
                # (image of) an unchanged G-typed parameter of the caller: lifted, checked at *its* callers
                ps = {N.base_param(b, a) for a in alts(strip(arg))}
                if None not in ps and all((b.rec["path"], pl) in N.req for pl in ps):
                    continue
                sf = {N.struct_field(b, a) for a in alts(strip(arg))}
                if None not in sf and all(k in N.freq for k in sf):
                    continue          # read out of a state struct's fixed field: checked where that struct is built
                norm, nonid, desc = N.state_of(b, tb, arg, bi)
                callee = F.bodies.get(d)
                pname = callee.local_name(ai + 1) if callee else str(ai + 1)
                missing = []
                if not norm:
                    missing.append("normalised")
                if r["level"] == "norm+nonid" and not nonid:
                    missing.append("non-identity")
                key = "%s:repr-requirement:%s→%s(%s):%s" % (prop, b.rec["path"], (callee.name if callee else d), pname, "+".join(missing))
                R.check(not missing, key,
                        "%s passes an operand that is not known %s to the affine-only parameter `%s` of %s (%s); operand: %s" %
                        (b.rec["path"], " and ".join(missing), pname, d, r["why"], desc),
                        loc_of(b, bi), b.rec["path"],
                        sample={"caller": b.rec["path"], "callee": d, "param": pname, "needs": r["level"], "operand": desc})
    # where a state struct with a required field is built, the stored operand must be in the required state
    for b in F.fn_bodies():
        tb = None
        for bi2, si2, adt2, ops2 in N.constructions(b):
            for (sp_, fi_), rf in N.freq.items():
                if sp_ != adt2 or fi_ >= len(ops2):
                    continue
                tb = tb or repo.tb(b)
                term = tb.operand(ops2[fi_], bi2, si2)
                ps = {N.base_param(b, a) for a in alts(strip(term))}
                if None not in ps and all((b.rec["path"], pl) in N.req for pl in ps):
                    continue
                R.instance()
                norm, nonid, desc = N.state_of(b, tb, term, bi2)
                missing = ([] if norm else ["normalised"]) + (["non-identity"] if rf["level"] == "norm+nonid" and not nonid else [])
                R.check(not missing, "%s:repr-requirement:%s→%s.%d:%s" % (prop, b.rec["path"], sp_.split("::")[-1], fi_, "+".join(missing)),
                        "%s stores an operand that is not known %s in field %d of %s (%s); operand: %s" % (b.rec["path"], " and ".join(missing), fi_, sp_, rf["why"], desc),
                        loc_of(b, bi2), b.rec["path"], sample={"builder": b.rec["path"], "struct": sp_, "field": fi_, "needs": rf["level"]})
    # nothing may remain on a public, wrapper-typed boundary: wrapper values are arbitrary (state ⊤)
    for (path, p), r in N.req.items():
        b = F.bodies[path]
        if is_wrapper(b.locals[p]["ty"]):
            R.violation("%s:repr-requirement:%s(%s):public" % (prop, path, b.local_name(p)),
                        "public function %s requires its argument `%s` to be %s" % (path, b.local_name(p), r["level"]), b.file_line(), path)
    return R.finish(), N


def entry_points(F):
    """Public pairing entry points (return Gt, take wrapper points) and the internal functions they delegate to
    (return Fq12, take Jacobian points): an identity test in any of them must lead to `one`."""
    out = []
    for b in F.fn_bodies():
        ins = b.rec.get("inputs") or []
        if b.rec.get("output") == "crate::Gt" and b.rec["path"] in F.reachable_items and any(is_wrapper(x) for x in ins):
            out.append(b)
        elif b.rec.get("output") == "crate::fields::fq12::Fq12" and sum(1 for x in ins if is_g(x)) >= 2 and b.rec["kind"] == "Fn":
            out.append(b)
    return out


def one_shaped(F, body, t):
    t = strip(t)
    if t[0] == "call" and t[1].name == "one":
        return True
    if t[0] == "agg" and t[1] == "crate::Gt" and len(t[3]) == 1:
        return one_shaped(F, body, t[3][0])
    return False


def rule_id_guard(prop, repo, N):
    """e(O,Q)=e(P,O)=1: on every path of an entry point on which an operand is the identity, the result is `one`."""
    F = repo.F
    R = Rule("R-ID-GUARD", "pairing entry points return exactly `one` on their identity edges; the G1 operand of every affine-only Miller loop is "
             "identity-guarded (see R-NORM)", floor=3, exhaustive=True)
    eps = entry_points(F)
    for b in eps:
        if b.rec["path"] == "crate::pairings::pairing":
            continue        # handled below through its to_affine() match
        R.instance()
        tb = repo.tb(b)
        atoms = paths.collect_atoms(b, tb)
        zatoms = [a for a in atoms if a[0] == "bool" and a[1][0] == "call" and a[1][1].name == "is_zero"]
        rows = 0
        bad = []
        early = []
        # (the converse below is only read when `is_zero` is the one way this function asks about the identity: another spelling —
        # `to_affine().is_none()` — would make "no is_zero answered yes" mean nothing)
        def mentions_identity(t):
            return any(x[0] in ("call", "mutcall") and getattr(x[1], "name", "") in ("to_affine", "is_none", "is_some", "is_one", "eq", "ne") for x in walk(t))
        only_zero_tests = not any(mentions_identity(a[1]) for a in atoms if a not in zatoms and isinstance(a[1], tuple))
        for asg in paths.enumerate_assignments(atoms):
            res = paths.simulate(b, tb, paths.Evaluator(asg))
            if res.end != "return":
                continue
            rows += 1
            if any(asg[a] for a in zatoms):
                v = paths.path_value(b, tb, res.blocks, 0)
                if not all(one_shaped(F, b, x) for x in alts(v)):
                    bad.append(show(v, maxdepth=3)[:160])
            elif zatoms and only_zero_tests:
                # … and only there: with no operand the identity, `one` is not the pairing value (non-degeneracy), so a path that
                # hands out the literal `one` although every identity test answered "no" gives up on a valid input
                v = paths.path_value(b, tb, res.blocks, 0)
                if all(one_shaped(F, b, x) for x in alts(v)):
                    early.append({show(a[1], maxdepth=2)[:60]: bool(v2) for a, v2 in asg.items() if a not in zatoms})
        R.check(not bad and not early, "%s:identity-result:%s" % (prop, b.rec["path"]),
                ("%s returns something other than one on an identity edge: %s" % (b.rec["path"], bad[:1])) if bad else
                ("%s returns the literal one on a path where no operand tested identity (%s)" % (b.rec["path"], early[:1])),
                b.file_line(), b.rec["path"], sample={"entry": b.rec["path"], "identity_tests": len(zatoms), "paths": rows})
    # the Jacobian entry point guards through to_affine(): both None arms must yield one
    pb = F.bodies.get("crate::pairings::pairing")
    if pb is None:
        R.fail_closed("%s:identity-result:anchor" % prop, "pairings::pairing not found")
    else:
        R.instance()
        tb = repo.tb(pb)
        atoms = paths.collect_atoms(pb, tb)
        datoms = [a for a in atoms if a[0] == "discr"]
        bad = []
        rows = 0
        import itertools
        for combo in itertools.product([0, 1], repeat=len(datoms)):
            choice = dict(zip(datoms, combo))
            res = paths.simulate(pb, tb, paths.Evaluator({}), discr_choice=choice)
            if res.end != "return":
                continue
            rows += 1
            called = [c[1].name for c in res.calls]
            v = paths.path_value(pb, tb, res.blocks, 0)
            if "miller_loop" not in called:
                if not all(one_shaped(F, pb, x) for x in alts(v)):
                    bad.append((choice and list(combo), show(v, maxdepth=3)[:120]))
            else:
                if any(c == 0 for c in combo):
                    bad.append((list(combo), "Miller loop entered although an operand has no affine form"))
        if len(datoms) < 2:
            # the two `to_affine()` answers are combined without a `match` in this body (`zip` / `map` / `unwrap_or_else`): the same
            # table read off the outcomes of the abstract machine (closures looked into, everything else opaque)
            from core.bytex import Machine, T as BT, Ref as BRef
            bad, rows, seen_none = [], 0, set()
            try:
                outs = Machine(F, lambda cb: cb.rec["kind"] in ("Closure", "Ctor")).run(pb, [BRef(0, 0), BRef(0, 1)], holders=[BT("p"), BT("q")])
            except Exception as e:
                outs = []
                bad.append(("machine", str(e)[:80]))
            for o in outs:
                ta = [(a, c) for a, c in o.pc if isinstance(a, BT) and a[0] == "call" and a[1].split("::")[-1] == "to_affine" and len(a[3]) == 1 and a[3][0] in (BT("p"), BT("q"))]
                nones = {a[3][0][0] for a, c in ta if c == "None"}
                if o.kind == "panic" and not nones and len(ta) == 2:
                    continue          # the `expect` on the final exponentiation of a Miller value (C01's assumed producer)
                rows += 1
                txt = repr(o.value)
                if nones:
                    seen_none |= nones
                    if not (o.kind == "return" and isinstance(o.value, BT) and o.value[0] == "call" and o.value[1].split("::")[-1] == "one" and not o.value[3]):
                        bad.append((sorted(nones), "%s %s" % (o.kind, txt[:100])))
                    elif "miller_loop" in txt:
                        bad.append((sorted(nones), "Miller loop entered although an operand has no affine form"))
                elif len(ta) != 2 or "miller_loop" not in txt:
                    bad.append(([], "%s %s" % (o.kind, txt[:100])))
            if seen_none != {"p", "q"}:
                bad.append(("coverage", "no path on which %s has no affine form" % sorted({"p", "q"} - seen_none)))
            datoms = [None, None] if not bad else datoms
        R.check(not bad and len(datoms) >= 2, "%s:identity-result:crate::pairings::pairing" % prop,
                "pairings::pairing: identity arms do not all return one / skip the Miller loop: %s" % bad[:2], pb.file_line(), pb.rec["path"],
                sample={"entry": pb.rec["path"], "to_affine_tests": len(datoms), "paths": rows})
    # Gt::one() really is Fq12::one()
    gb = F.bodies.get("crate::Gt::one")
    R.instance()
    if gb is None:
        R.fail_closed("%s:identity-result:Gt::one" % prop, "Gt::one not found")
    else:
        rv = repo.tb(gb).return_value()
        R.check(rv[0] == "agg" and rv[1] == "crate::Gt" and strip(rv[3][0])[0] == "call" and strip(rv[3][0])[1].name == "one" and "Fq12" in strip(rv[3][0])[1].i,
                "%s:identity-result:crate::Gt::one" % prop, "Gt::one() is not Gt(Fq12::one()): %s" % show(rv, maxdepth=3), gb.file_line(), gb.rec["path"],
                sample={"fn": "crate::Gt::one", "returns": show(rv, maxdepth=3)})
    return R.finish()


def rule_prep_immut(prop, repo):
    """A prepared value can be reused in any order: its consumers take &self and the type has no interior mutability."""
    F = repo.F
    R = Rule("R-PREP-IMMUT", "G2Prepared is Freeze, its consumers take `&self`, the crate has no unsafe code and no mutable statics", floor=3)
    adt = F.adts.get("crate::pairings::G2Prepared")
    R.instance()
    if adt is None:
        R.fail_closed("%s:prepared:anchor" % prop, "G2Prepared not found")
        return R.finish()
    R.check(adt.get("freeze") is True, "%s:prepared:freeze" % prop, "G2Prepared is not Freeze (interior mutability): a call could change what a later call observes",
            sample={"type": "G2Prepared", "freeze": adt.get("freeze"), "fields": [(f["name"], f["ty"], f["vis"]) for f in adt["variants"][0]["fields"]]})
    for f in adt["variants"][0]["fields"]:
        R.instance()
        R.check(f["vis"] != "Public", "%s:prepared:field:%s" % (prop, f["name"]), "G2Prepared.%s is public: coefficients can be altered between calls" % f["name"])
    n = 0
    for b in F.fn_bodies():
        ins = b.rec.get("inputs") or []
        if b.rec["path"] in F.reachable_items and any("G2Prepared" in x for x in ins):
            n += 1
            R.instance()
            R.check(not any(x.startswith("&mut ") and "G2Prepared" in x for x in ins), "%s:prepared:mut:%s" % (prop, b.rec["path"]),
                    "%s takes the prepared value by &mut" % b.rec["path"], b.file_line(), b.rec["path"], sample={"consumer": b.rec["path"], "inputs": ins})
    R.instance()
    R.check(F.raw.get("lint_unsafe_code") == "Forbid", "%s:prepared:unsafe" % prop, "crate does not forbid unsafe code")
    muts = [s["path"] for s in F.raw["statics"] if s["mutable"]]
    R.instance()
    R.check(not muts, "%s:prepared:static-mut" % prop, "mutable statics exist: %s" % muts, sample={"mutable_statics": muts})
    return R.finish()
