"""Exponent-effect analysis of the final exponentiation (DESIGN §4.I): every Fq12 primitive acts on the discrete
logarithm of its input by a fixed affine map modulo q^12 − 1; the straight-line chains compose to a plain integer."""
from core.report import Rule
from core.facts import FactsError
from core.absexec import AbsExec, Adt, Tup, Ref, TOP, deref_value, store_through
from . import shared

FQ12 = "crate::fields::fq12::Fq12"


class ExpDomain:
    def __init__(self, repo, trust_pow=True, pow_path=None):
        self.repo = repo
        self.pow_path = pow_path
        self.q = repo.P.q
        self.M = self.q ** 12 - 1
        self.trust_pow = trust_pow
        self.used = set()
        self.pow_seen = set()

    def E(self, n):
        return ("E", n % self.M)

    def variant_index(self, ex, name):
        return {"None": 0, "Some": 1, "Continue": 0, "Break": 1, "Ok": 0, "Err": 1}.get(name)

    def select_inline_results(self, ex, rs):
        # paths of a callee on which its input tested zero are outside the domain of the abstraction
        keep = [r for r in rs if not r[1].env.get("__zero")]
        return keep or rs

    def refine(self, ex, fr, cond, truth):
        if cond[1] == "iszero" and truth:
            fr.env["__zero"] = True

    def val(self, ex, v):
        v = deref_value(ex, v)
        if isinstance(v, tuple) and v and v[0] == "E":
            return v[1]
        return None

    def call(self, ex, fk, args, term, fr):
        n = fk.name
        i = fk.i
        if fr is not None:
            self.__dict__.setdefault("visited", set()).add(fr.body.path)
        if "Fq12" in i or "fq12" in fk.d:
            if n == "mul" and len(args) == 2:
                a, b = self.val(ex, args[0]), self.val(ex, args[1])
                self.used.add("mul")
                return self.E(a + b) if a is not None and b is not None else TOP
            if n == "mul_assign" and len(args) == 2:
                a, b = self.val(ex, args[0]), self.val(ex, args[1])
                self.used.add("mul")
                store_through(ex, args[0], self.E(a + b) if a is not None and b is not None else TOP)
                return Tup([])
            if n == "squared" and len(args) == 1:
                a = self.val(ex, args[0])
                self.used.add("squared")
                return self.E(2 * a) if a is not None else TOP
            if n == "inverse" and len(args) == 1:
                a = self.val(ex, args[0])
                self.used.add("inverse")
                return Adt("core::option::Option", "Some", [self.E(-a)]) if a is not None else TOP
            if n == "unitary_inverse" and len(args) == 1:
                a = self.val(ex, args[0])
                self.used.add("unitary_inverse")
                return self.E(a * self.q ** 6) if a is not None else TOP
            if n == "frobenius_map" and len(args) == 2:
                a = self.val(ex, args[0])
                k = args[1]
                self.used.add("frobenius_map")
                sp = (term or {}).get("span") or {}
                if fr is not None:
                    self.__dict__.setdefault("frob_sites", {}).setdefault((fr.body.path, sp.get("line"), sp.get("col")), set()).add(k if isinstance(k, int) and not isinstance(k, bool) else None)
                if a is not None and isinstance(k, int) and 0 <= k <= 12:
                    return self.E(a * self.q ** k)
                return TOP
            if fk.d == self.pow_path and len(args) == 2 and isinstance(args[1], int) and self.trust_pow:
                a = self.val(ex, args[0])
                self.used.add("pow")
                self.pow_seen.add(args[1])
                return self.E(a * args[1]) if a is not None else TOP
            if n == "one" and not args:
                return self.E(0)
            if n == "is_zero" and len(args) == 1 and self.val(ex, args[0]) is not None:
                # x = 0 is outside the domain of the exponent abstraction: returning None there is the specified behaviour
                return ("cond", "iszero", None, False)
            if n in ("clone",) and len(args) == 1:
                return deref_value(ex, args[0])
        if n in ("unwrap", "expect") and args:
            v = deref_value(ex, args[0])
            if isinstance(v, Adt) and v.variant == "Some":
                return v.fields[0]
            return TOP
        if n == "branch" and fk.get("trait") == "core::ops::Try" and args:
            v = deref_value(ex, args[0])
            if isinstance(v, Adt) and v.variant in ("Some", "Ok"):
                return Adt("core::ops::ControlFlow", "Continue", [v.fields[0]])
            return TOP
        if n == "map" and fk.d.startswith("core::option::Option") and len(args) == 2:
            v = deref_value(ex, args[0])
            clo = args[1]
            if isinstance(v, Adt) and v.variant == "Some" and isinstance(clo, Adt) and clo.name.startswith("closure:"):
                cb = ex.F.bodies.get(clo.name[len("closure:"):])
                if cb is not None:
                    sub = AbsExec(ex.F, self, inline=ex.inline)
                    rs = sub.run(cb, [clo, v.fields[0]])
                    if len(rs) == 1:
                        return Adt("core::option::Option", "Some", [rs[0][0]])
            return TOP
        return NotImplemented


def observed_frobenius_powers(repo):
    """The final-exponentiation entry points executed once in the exponent domain (tables and interpreters run out concretely):
    → ({(function, line, col) of a frobenius_map call: set of integer powers it was reached with, None for an unknown one},
       set of functions the executions went through)"""
    if getattr(repo, "_obs_frob", None) is not None:
        return repo._obs_frob
    F = repo.F
    from .roles import PairingRoles
    from core.absexec import same_module_inline, Frame
    chains = chain_functions(F)
    entries = [b for p, b in chains.items() if (b.rec.get("output") or "").startswith("core::option::Option<") and b.vis == "Public"]
    powb = PairingRoles(F).pow
    pow_path = powb[0].rec["path"] if len(powb) == 1 else None
    sites, visited = {}, set()
    for b in entries:
        smi = same_module_inline(F, b.rec["path"])
        dom = ExpDomain(repo, pow_path=pow_path)
        ex = AbsExec(F, dom, inline=lambda d: smi(d) and d != pow_path)
        hf = Frame(b, [])
        hf.env[0] = dom.E(1)
        try:
            ex.run(b, [Ref(hf, 0)])
        except FactsError:
            continue
        for k, v in (getattr(dom, "frob_sites", None) or {}).items():
            sites.setdefault(k, set()).update(v)
        visited |= getattr(dom, "visited", set()) | {b.rec["path"]}
    repo._obs_frob = (sites, visited)
    return repo._obs_frob


def chain_functions(F):
    """Fq12 methods (&self) -> Fq12 | Option<Fq12> defined next to the pairing code that only combine the primitives."""
    out = {}
    for b in F.fn_bodies():
        if b.rec.get("impl_self_adt") == FQ12 and not b.impl_trait and b.rec["path"].startswith("crate::pairings::"):
            out[b.rec["path"]] = b
    return out


def rule_exp(prop, repo):
    F, P = repo.F, repo.P
    q, r = P.q, P.r
    M = q ** 12 - 1
    target = M // r
    R = Rule("R-EXP", "both final-exponentiation routines raise their input to exactly (q^12−1)/r: exponent effects of the Fq12 primitives composed along the chains "
             "(integers mod q^12−1), and Fq12::pow(c) is x^c for every literal c used", floor=4, exhaustive=True)
    if M % r:
        raise FactsError("r does not divide q^12-1")
    chains = chain_functions(F)
    entries = [b for p, b in chains.items() if (b.rec.get("output") or "").startswith("core::option::Option<") and b.vis == "Public"]
    if len(entries) < 2:
        R.fail_closed("%s:exp:anchor" % prop, "expected two public final-exponentiation routines on Fq12, found %s" % [b.rec["path"] for b in entries])
    from .roles import PairingRoles
    from core.absexec import same_module_inline
    roles = PairingRoles(F)
    powb = roles.pow
    pow_path = powb[0].rec["path"] if len(powb) == 1 else None
    if entries:
        smi = same_module_inline(F, entries[0].rec["path"])
        inline = lambda d: smi(d) and d != pow_path
    else:
        inline = lambda d: False
    lits = set()
    for b in entries:
        R.instance()
        dom = ExpDomain(repo, pow_path=pow_path)
        ex = AbsExec(F, dom, inline=inline)
        fr_args = [dom.E(1)]
        holder = {}
        # pass self by reference: a one-slot frame
        from core.absexec import Frame
        hf = Frame(b, [])
        hf.env[0] = dom.E(1)
        try:
            rs = ex.run(b, [Ref(hf, 0)])
        except FactsError as e:
            R.fail_closed("%s:exp:%s" % (prop, b.rec["path"]), str(e))
            continue
        lits |= dom.pow_seen
        vals = []
        for v, frx in rs:
            if isinstance(v, Adt) and v.variant == "Some" and isinstance(v.fields[0], tuple) and v.fields[0][0] == "E":
                vals.append(v.fields[0][1])
            elif isinstance(v, Adt) and v.variant == "None" and frx.env.get("__zero"):
                continue      # input tested zero: None is the specified result
            else:
                vals.append(None)
        ok = len(vals) >= 1 and all(x is not None and x % M == target % M for x in vals)
        R.check(ok, "%s:exp:%s" % (prop, b.rec["path"]),
                "%s raises x to an exponent ≠ (q^12−1)/r (paths: %s; exponent ≡ %s·(q^12−1)/r mod r?)" % (b.rec["path"], len(vals), [None if x is None else (x * pow(target, -1, r)) % r if x % r else 0 for x in vals][:2]),
                b.file_line(), b.rec["path"],
                sample={"fn": b.rec["path"], "primitives": sorted(dom.used), "exponent_bits": vals[0].bit_length() if vals and vals[0] else None, "equals_(q^12-1)/r": ok})
    # first chunk alone = (q^6−1)(q^2+1)
    fc = [b for p, b in chains.items() if b.name.endswith("first_chunk")]
    for b in fc:
        R.instance()
        dom = ExpDomain(repo, pow_path=pow_path)
        ex = AbsExec(F, dom, inline=inline)
        from core.absexec import Frame
        hf = Frame(b, [])
        hf.env[0] = dom.E(1)
        rs = ex.run(b, [Ref(hf, 0)])
        vals = [v.fields[0][1] if isinstance(v, Adt) and v.variant in ("Some", "Ok") and isinstance(v.fields[0], tuple) else None for v, frx in rs
                if not (isinstance(v, Adt) and v.variant in ("None", "Err") and frx.env.get("__zero"))]
        want = ((q ** 6 - 1) * (q ** 2 + 1)) % M
        R.check(vals and all(x == want for x in vals), "%s:exp:%s" % (prop, b.rec["path"]), "easy part is not x^((q^6−1)(q^2+1))", b.file_line(), b.rec["path"],
                sample={"fn": b.rec["path"], "equals_(q^6-1)(q^2+1)": True})
    # Fq12::pow(c): abstract execution with every exponent the chains passed to it, propagated through its loop
    if pow_path:
        pb = powb[0]
        for c in sorted(lits | {0, 1, 2, 3}):
            R.instance()
            dom = ExpDomain(repo, trust_pow=False, pow_path=pow_path)
            ex = AbsExec(F, dom, inline=lambda d: smi(d) and d != pow_path)
            from core.absexec import Frame
            hf = Frame(pb, [])
            hf.env[0] = dom.E(1)
            try:
                rs = ex.run(pb, [Ref(hf, 0), c])
            except FactsError as e:
                R.fail_closed("%s:exp:pow:%d" % (prop, c), str(e))
                continue
            vals = [v[1] if isinstance(v, tuple) and v and v[0] == "E" else None for v, _ in rs]
            R.check(len(vals) == 1 and vals[0] == c % M, "%s:exp:pow(%s)" % (prop, hex(c)), "Fq12::pow(%s) yields exponent %s over %d path(s)" % (hex(c), [hex(v) if v is not None else None for v in vals][:2], len(vals)),
                    pb.file_line(), pb.rec["path"], sample={"fn": pb.rec["path"], "exponent": hex(c), "result_exponent_equal": True})
    else:
        R.fail_closed("%s:exp:pow:anchor" % prop, "Fq12::pow(u128) not found")
    return R.finish()
