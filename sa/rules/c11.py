"""C11 — Gt is a commutative group of order r and pow is exponentiation (structural clauses)."""
from core import report
from core.report import Rule
from core.sm9 import Repo
from core.terms import strip, show
from . import shared, field, conv2, norm, ladder, mono, support

LADDERS = [("crate::fields::FieldElement::pow", "one", "squared", "mul_assign")]


def ladders(repo):
    """the generic exponentiation, wherever the maintainer keeps it: by default the provided method of the field trait; if that is
    gone, the `pow` that the public `Gt::pow` forwards to (an extension trait with a blanket impl, a free function, …)"""
    F = repo.F
    if LADDERS[0][0] in F.bodies:
        return LADDERS
    w = F.bodies.get("crate::Gt::pow")
    cands = []
    for _, t in (w.calls() if w is not None else []):
        fn = t.get("fn") or {}
        for d in (fn.get("res_def"), fn.get("def")):
            if d in F.bodies and fn.get("name") == "pow" and d not in cands:
                cands.append(d)
    return [(cands[0],) + LADDERS[0][1:]] if len(cands) == 1 else LADDERS


def machine_forward(repo, b, op):
    """The wrapper's outcomes, read off the byte-provenance machine: Gt(inner_op(self.0, other.0)) / Option mapped back."""
    from core.bytex import Machine, T, Adt as BAdt, Ref as BRef
    from .conv2 import Conv, strip_newtypes
    cv = Conv(repo)
    ins = b.rec.get("inputs") or []
    holders, args = [], []
    for i, ty in enumerate(ins):
        v = T("self") if i == 0 else T("arg", i + 1)
        if ty.strip().startswith("&"):
            holders.append(v)
            args.append(BRef(0, len(holders) - 1))
        else:
            args.append(v)
    outs = Machine(repo.F, cv.policy).run(b, args, holders=holders)

    def inner_call(t, name, nargs):
        if not (isinstance(t, T) and t[0] == "call" and t[1].split("::")[-1] == name and len(t[3]) == nargs):
            return False
        want = [T("field", T("self") if i == 0 else T("arg", i + 1), 0, "0") for i in range(nargs)]
        got = [x[:3] if isinstance(x, T) and x[0] == "field" else x for x in t[3]]
        return got == [w[:3] for w in want]
    if op in ("mul", "pow"):
        return len(outs) == 1 and outs[0].kind == "return" and inner_call(strip_newtypes(outs[0].value), op, 2)
    if op == "inverse":
        if len(outs) != 2 or any(o.kind != "return" or len(o.pc) != 1 for o in outs):
            return False
        for o in outs:
            atom, ch = o.pc[0]
            if not inner_call(atom, "inverse", 1):
                return False
            if ch == "Some":
                if not (isinstance(o.value, BAdt) and o.value.variant == "Some" and strip_newtypes(o.value.fields[0]) == T("payload", atom, "Some")):
                    return False
            elif not (isinstance(o.value, BAdt) and o.value.variant == "None"):
                return False
        return True
    return False


def rule_gt_forward(repo):
    F = repo.F
    R = Rule("R-GT-FORWARD", "Gt operations forward to the Fq12 operation on the wrapped values (mul in order, pow with the scalar's inner value, inverse mapped back)", floor=4)
    specs = {
        "<crate::Gt as core::ops::Mul>::mul": lambda rv: rv[0] == "agg" and strip(rv[3][0])[0] == "call" and strip(rv[3][0])[1].name == "mul" and [strip(a) for a in strip(rv[3][0])[2]] == [("field", ("param", 1), 0), ("field", ("param", 2), 0)],
        "crate::Gt::pow": lambda rv: rv[0] == "agg" and strip(rv[3][0])[0] == "call" and strip(rv[3][0])[1].name == "pow" and "FieldElement" in strip(rv[3][0])[1].i and strip(strip(rv[3][0])[2][0]) == ("field", ("init", ("deref", 1)), 0) and
        # (the scalar's inner value — handed over as it is, or already taken out of Montgomery form where `pow` expects the integer)
        (strip(strip(rv[3][0])[2][1]) == ("field", ("param", 2), 0) or shared.is_canon_conv(strip(rv[3][0])[2][1], "crate::fields::fp::Fr") == ("field", ("param", 2), 0)),
        "crate::Gt::inverse": lambda rv: rv[0] == "call" and rv[1].name == "map" and strip(rv[2][0])[0] == "call" and strip(rv[2][0])[1].name == "inverse" and strip(strip(rv[2][0])[2][0]) == ("field", ("init", ("deref", 1)), 0),
        "crate::Gt::to_slice": lambda rv: rv[0] == "call" and rv[1].d == "crate::fields::fq12::Fq12::to_slice" and strip(rv[2][0]) == ("field", ("param", 1), 0),
    }
    opof = {"<crate::Gt as core::ops::Mul>::mul": "mul", "crate::Gt::pow": "pow", "crate::Gt::inverse": "inverse", "crate::Gt::to_slice": None}
    for path, pred in specs.items():
        b = F.bodies.get(path)
        R.instance()
        if b is None:
            R.fail_closed("C11:gt:%s" % path, "%s not found" % path)
            continue
        rv = repo.tb(b).return_value()
        ok, _ = shared.forwards(repo, b, pred, opof[path])
        if not ok and opof[path]:
            ok = machine_forward(repo, b, opof[path])
        R.check(ok, "C11:gt:%s" % path, "%s does not forward as specified: %s" % (path, show(rv, maxdepth=3)[:160]), b.file_line(), path, sample={"fn": path, "is": show(rv, maxdepth=2)[:100]})
    return R.finish()


def run(ctx):
    repo = Repo(ctx.dev)
    r_lay, _ = conv2.rule_layout("C11", repo, conv2.make_conv(repo), ["crate::fields::fq2::Fq2::to_slice", "crate::fields::fq4::Fq4::to_slice", "crate::fields::fq12::Fq12::to_slice", "crate::Gt::to_slice"])
    N = norm.Norm(repo)
    rules = [shared.rule_eq_derived(repo, ["crate::Gt", "crate::fields::fq12::Fq12", "crate::fields::fq4::Fq4", "crate::fields::fq2::Fq2", "crate::fields::fp::Fq", "crate::u256::U256"]),
             r_lay, shared.rule_red(repo), rule_gt_forward(repo), field.rule_tower_consts("C11", repo), field.rule_zero_cover("C11", repo), field.rule_tower_shapes("C11", repo), ladder.rule_ladder("C11", repo, ladders(repo)), field.rule_bits("C11", repo),
             field.rule_ops_forward("C11", repo, ["crate::fields::fq12::Fq12", "crate::fields::fq4::Fq4"]),
             field.rule_shortcuts("C11", repo, ["crate::fields::fq12::Fq12", "crate::fields::fq4::Fq4", "crate::fields::fq2::Fq2"]), mono.rule_shortcut_formulas("C11", repo, ["crate::fields::fq12::Fq12", "crate::fields::fq4::Fq4", "crate::fields::fq2::Fq2"]), support.rule_shortcut_supports("C11", repo, ["crate::fields::fq12::Fq12", "crate::fields::fq4::Fq4", "crate::fields::fq2::Fq2"])]
    return report.emit(
        "C11", ctx.tier, ctx.seed, rules, ctx.started,
        "== on Gt is the derived comparison of all 12 Fq limbs; the 384-byte layout is an exact tiling c2‖c1‖c0 / c1‖c0 / imag‖real, hence injective; limbs are canonical (typestate "
        "Reduced) so g == h ⇔ encodings equal and every limb < q; Gt::one is the tower one; Gt ops forward in order; pow is a left-to-right ladder over the canonical scalar bits.",
        shared.ASSUMPTIONS,
        ["products, powers and inverses in Fq12 (Karatsuba, CH-SQR2, norm-based inverse), i.e. all group-law values"])
