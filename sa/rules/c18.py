"""C18 — results do not depend on the build profile."""
from core import report
from core.sm9 import Repo
from . import shared, profile, conv2 as convert
from .c08 import SPEC as C08_SPEC
from .c13 import SPEC as C13_SPEC, TOTAL_EXTRA


def run(ctx):
    repo_d, repo_r = Repo(ctx.dev), Repo(ctx.rel)
    rules = [profile.rule_profile_diff("C18", repo_d, repo_r, convert.make_conv)]
    # identical outcome maps of every byte-level entry point in both profiles
    spec = dict(C08_SPEC)
    spec.update(C13_SPEC)
    res = {}
    convs = {"dev": convert.make_conv(repo_d), "rel": convert.make_conv(repo_r)}
    convert.share_length_domains(convs["dev"], convs["rel"], list(spec) + TOTAL_EXTRA)
    for cfg, repo in (("dev", repo_d), ("rel", repo_r)):
        ls = convs[cfg]
        res[cfg] = {}
        for path in list(spec) + TOTAL_EXTRA:
            b = repo.F.bodies.get(path)
            if b is not None:
                res[cfg][path] = ls.explore(b)
    r = report.Rule("R-PROFILE-EQ", "every byte-level entry point has the same (accept / reject / panic) outcome for every abstract input in the dev and release MIR", floor=20, exhaustive=True)
    for path in sorted(set(res["dev"]) | set(res["rel"])):
        r.instance()
        a, b = res["dev"].get(path, {}), res["rel"].get(path, {})
        diff = convert.outcome_map_diff(a, b)
        r.check(not diff, "C18:profile-dependent:%s" % path, "%s behaves differently in dev and release for %d abstract inputs, e.g. %s" % (path, len(diff), diff[:4]), fn=path,
                sample={"entry": path, "points_compared": len(set(a) | set(b))} if r.instances % 6 == 1 else None)
    rules.append(r.finish())
    return report.emit(
        "C18", ctx.tier, ctx.seed, rules, ctx.started,
        "The set of profile-dependent sites is computed as MIR(dev) minus MIR(release): integer-overflow assertions and debug_assert! panics. Every overflow assertion is discharged by an "
        "interval abstract interpretation (type-seeded ranges, constants propagated, literal-bounded loops unrolled, other loops abstracted by forgetting everything written in them, "
        "index helpers analysed in each caller's context); every debug_assert! is decided over the abstract input domain or is a listed numerical self-check whose condition is "
        "side-effect free; all byte-level entry points have identical outcome maps in both profiles.",
        shared.ASSUMPTIONS + ["two numerical self-checks in u512.rs (division identity) are assumed true", "dependencies (ark-ff, byteorder) are compiled with opt-level 3 in both profiles; their own debug assertions are not analysed"],
        ["truth of the two numerical self-checks in u512.rs"])
