"""C10 — point encodings round-trip and follow the SM9 byte formats (structural clauses)."""
from core import report
from core.sm9 import Repo
from . import shared, conv2


ENCODERS = ["crate::fields::fq2::Fq2::to_slice", "crate::Fq2::to_slice", "crate::G1::to_slice", "crate::G2::to_slice", "crate::G1::to_uncompressed", "crate::G2::to_uncompressed",
            "crate::G1::to_compressed", "crate::G2::to_compressed"]


def run(ctx):
    rules = []
    for cfg in ("dev", "rel"):
        repo = Repo(ctx.facts(cfg))
        cv = conv2.make_conv(repo)
        r, got = conv2.rule_layout("C10", repo, cv, ENCODERS)
        r.rid += "[%s]" % cfg
        rules.append(r)
        if cfg == "dev":
            rules.append(conv2.rule_is_even("C10", repo, cv))
            rules.append(conv2.rule_decoder_layout("C10", repo, cv))
            rules.append(conv2.rule_parity_decoder("C10", repo, cv, {"crate::G1::from_compressed": 33, "crate::G2::from_compressed": 65}))
    return report.emit(
        "C10", ctx.tier, ctx.seed, rules, ctx.started,
        "Byte-provenance abstract execution of the six point encoders, Fq2::to_slice and the eight decoders: every emitted byte is byte k of the big-endian image of the "
        "canonical value of the component the SM9 layout puts there (runs tile the output exactly, all from the affine conversion of self), tag byte 4 / 2+parity of the "
        "canonical (real part of) affine y on every path; decoders read each component from the same byte range, most significant byte first; decoder parity selection.",
        shared.ASSUMPTIONS,
        ["that the affine conversion divides correctly (C15 decides its weight-homogeneity and None ⇔ z=0); coordinates below q follows from C07's canonical-representation invariant"])
