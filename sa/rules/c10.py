"""C10 — point encodings round-trip and follow the SM9 byte formats (structural clauses)."""
from core import report
from core.sm9 import Repo
from . import shared, layout, convert


def run(ctx):
    rules = []
    for cfg in ("dev", "rel"):
        repo = Repo(ctx.facts(cfg))
        ls = convert.make_lensim(repo)
        r, got = layout.rule_layout("C10", repo, layout.std_tables(repo.P)[:1] + layout.point_tables())
        r.rid += "[%s]" % cfg
        rules.append(r)
        if cfg == "dev":
            rules.append(layout.rule_wrappers("C10", repo, [("crate::Fq2::to_slice", "crate::fields::fq2::Fq2::to_slice")]))
            rules.append(layout.rule_prefix_fill("C10", repo))
            rules.append(layout.rule_parity_encoder("C10", repo, ls))
            rules.append(layout.rule_decoder_layout("C10", repo, ls))
            rules.append(layout.rule_affine_first("C10", repo))
            rules.append(convert.rule_parity_decoder("C10", repo, ls, {"crate::G1::from_compressed": 33, "crate::G2::from_compressed": 65}))
    return report.emit(
        "C10", ctx.tier, ctx.seed, rules, ctx.started,
        "Layout extraction from the MIR of the six point encoders and of Fq2::to_slice (destination byte range → source component, exact tiling), comparison with the SM9 "
        "layout table and with the decoders' ranges; every serialised coordinate comes from the affine conversion of self; prefix constants; parity bit evaluated for both "
        "parities on the canonical (real part of) affine y, encoder and decoder truth tables.",
        shared.ASSUMPTIONS,
        ["that the affine conversion divides correctly (C15 decides its weight-homogeneity and None ⇔ z=0); coordinates below q follows from C07's canonical-representation invariant"])
