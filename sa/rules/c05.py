"""C05 — scalar multiplication is the Z_r-module action (narrow structural clauses)."""
from core import report
from core.sm9 import Repo
from . import shared, field, consts, ladder

LADDERS = [("<crate::groups::G<P> as core::ops::Mul<crate::fields::fp::Fr>>::mul", "zero", "double", "add_assign")]


def run(ctx):
    repo = Repo(ctx.dev)
    rules = [consts.rule_generators("C05", repo), ladder.rule_ladder("C05", repo, LADDERS), field.rule_bits("C05", repo), field.rule_comm("C05", repo)]
    return report.emit(
        "C05", ctx.tier, ctx.seed, rules, ctx.started,
        "Generator literals on the curve/twist with order exactly r (analyser arithmetic on the literals); the scalar leaves Montgomery form before the bit scan (every instance of the "
        "generic conversion resolved); bits produced from 255 down after skipping leading zeros; the loop is a left-to-right ladder: neutral start, unconditional double, add of the base "
        "guarded by the scanned bit; k*P delegates to P*k.",
        shared.ASSUMPTIONS + ["ark_ff BigInt::get_bit(n) is bit n counted from the least significant bit"],
        ["the values produced by double/add (C04 decides their structure), hence distributivity and compatibility laws"])
