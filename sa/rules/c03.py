"""C03 — all pairing entry points agree and ignore the projective representative (structural clauses)."""
from core import report
from core.sm9 import Repo
from . import shared, norm, miller, profile, conv2
from .roles import PairingRoles


def run(ctx):
    rules = []
    for cfg in ("dev", "rel"):
        repo = Repo(ctx.facts(cfg))
        r, N = norm.rule_norm("C03", repo)
        r.rid += "[%s]" % cfg
        rules.append(r)
        if cfg == "dev":
            rules.append(norm.rule_id_guard("C03", repo, N))
            rules.append(norm.rule_prep_immut("C03", repo))
            rules.extend(miller.rules("C03", repo))
    # the wrapper layer of the pairing entry points cannot panic on any operand, identities included (release MIR); the Miller /
    # final-exponentiation module itself is numerical and out of this rule, the one `expect` on its result is an assumption
    repo_rel = Repo(ctx.rel)
    Fr_ = repo_rel.F
    roles = PairingRoles(Fr_)
    entries = [p for p in ("crate::pairing", "crate::fast_pairing", "crate::<impl crate::pairings::G2Prepared>::pairing",
                           "crate::<impl core::convert::From<crate::G2> for crate::pairings::G2Prepared>::from") if p in Fr_.bodies]
    fe = {b.rec["path"]: "the Miller value of points of the groups is a product of non-zero line values, hence invertible (numerical; not decided here)" for b in roles.final_exps}
    rules.append(profile.rule_nopanic_core("C03", repo_rel, entries, conv2.make_conv, skip=lambda d: roles.in_module(Fr_.bodies[d]) if d in Fr_.bodies else False,
                                           assumed_producers=fe, include_api=True))
    return report.emit(
        "C03", ctx.tier, ctx.seed, rules, ctx.started,
        "Typestate over Jacobian points: affine-only parameters are inferred (reads x/y, never z), requirements lift through unchanged / z-preservingly mapped "
        "parameters, and every call site up to the public wrappers must supply a normalised (G1 side: also identity-guarded) operand on all paths; identity edges "
        "return one; a prepared G2 value is immutable through &self (Freeze, no unsafe, no interior mutability).",
        shared.ASSUMPTIONS + ["one reasoned exception: the G2-side operand of the prepared line function needs normalisation only (DESIGN §6 D5)"],
        ["equality of the numerical results of the three algorithms (Miller-loop and tower arithmetic)"])
