"""C03 — all pairing entry points agree and ignore the projective representative (structural clauses)."""
from core import report
from core.sm9 import Repo
from . import shared, norm, miller


def run(ctx):
    rules = []
    for cfg in ("dev", "rel"):
        repo = Repo(ctx.facts(cfg))
        r, N = norm.rule_norm("C03", repo)
        r.rid += "[%s]" % cfg
        rules.append(r)
        if cfg == "dev":
            rules.append(norm.rule_id_guard("C03", repo, N))
            rules.append(norm.rule_prep_immut("C03", repo))
            rules.extend(miller.rules("C03", repo))
    return report.emit(
        "C03", ctx.tier, ctx.seed, rules, ctx.started,
        "Typestate over Jacobian points: affine-only parameters are inferred (reads x/y, never z), requirements lift through unchanged / z-preservingly mapped "
        "parameters, and every call site up to the public wrappers must supply a normalised (G1 side: also identity-guarded) operand on all paths; identity edges "
        "return one; a prepared G2 value is immutable through &self (Freeze, no unsafe, no interior mutability).",
        shared.ASSUMPTIONS + ["one reasoned exception: the G2-side operand of the prepared line function needs normalisation only (DESIGN §6 D5)"],
        ["equality of the numerical results of the three algorithms (Miller-loop and tower arithmetic)"])
