"""Horner-form abstract interpretation of the binary ladders (C05, C06, C11): scalar multiplication and exponentiation.

The accumulator is abstracted to a linear form a·n + b in the (unknown) multiple n it holds when an iteration starts; one
pass through the loop body — `for`, `while` or the closure of a `fold` — must map n to 2n when the scanned bit is clear and
to 2n + 1 when it is set, starting from the neutral element. Which bits are scanned, and in which order, is R-BITS."""
from core.report import Rule
from core.facts import FactsError
from core.absexec import AbsExec, Adt, Tup, Ref, TOP, Frame, deref_value, store_through, same_module_inline, natural_loops
from .shared import loc_of


class Acc:
    def __init__(self, a, b):
        self.a, self.b = a, b

    def __repr__(self):
        return "acc(%d·n+%d)" % (self.a, self.b)


BASE = ("base",)
SCALAR = ("scalar",)
LEADBITS = ("bits", "lead1")


class HornerDomain:
    sound_loops = True

    def __init__(self, F, dbl_names, comb_names, neutral_names):
        self.F = F
        self.dbl, self.comb, self.neutral = set(dbl_names), set(comb_names), set(neutral_names)
        self.inits = []          # accumulator values arriving at a loop head from outside
        self.steps = []          # (a, b, bit truth or None) arriving over a back edge / returned by a fold closure
        self.errors = []

    def variant_index(self, ex, name):
        return {"None": 0, "Some": 1, "Continue": 0, "Break": 1}.get(name)

    def havoc(self, ex, fr, l):
        ty = fr.body.locals[l]["ty"]
        cur = fr.env.get(l, TOP)
        if isinstance(cur, Acc):
            return Acc(1, 0)
        if cur in (("bits",), LEADBITS, BASE, SCALAR):
            return cur           # the iterator stays an (opaque) iterator over the scalar's bits; operands are not reassigned
        return TOP

    def at_head(self, ex, fr, bb, written):
        if not fr.env.get("__looping") and fr.env.get("__lead") == 1 and ("iszero", "scalar", False) in fr.env.get("__pc", ()):
            # (… and the loop is entered only where that `next()` was seen to be Some: a scalar of zero has no leading bit)
            # the leading bit — known to be set — was taken off the iterator before the loop: an accumulator that starts as the
            # base holds the multiple 1 = 2·0 + 1, what the first pass of the plain ladder would have produced
            for l in written:
                if fr.env.get(l) == BASE:
                    fr.env[l] = Acc(0, 1)
        accs = [(l, fr.env.get(l)) for l in written if isinstance(fr.env.get(l), Acc)]
        if not accs:
            return
        bit = fr.env.get("__bit")
        if fr.env.get("__looping"):
            # only the variables that carried an accumulator into the loop are accumulators (not the temporaries of the body)
            for l, v in accs:
                if l in fr.env.get("__acc_locals", ()):
                    self.steps.append((v.a, v.b, bit))
        else:
            fr.env["__acc_locals"] = tuple(l for l, _ in accs)
            for l, v in accs:
                # the multiple 1 is a legitimate start only when the (set) leading bit was taken off the iterator before the loop
                self.inits.append((v.a, v.b) if (v.a, v.b) != (0, 1) or fr.env.get("__lead") == 1 else ("1 without the leading bit consumed", v.a, v.b))
        fr.env["__looping"] = True
        fr.env["__looped"] = True
        fr.env.pop("__bit", None)

    def refine(self, ex, fr, cond, truth):
        what = cond[1]
        val = truth != cond[3]
        if what == "bit":
            fr.env["__bit"] = val
        elif what == "variant?":
            if cond[2][1] == ("lead",):
                # the iterator without leading zeros is empty exactly when the scalar is zero
                pc = list(fr.env.get("__pc", ()))
                pc.append(("iszero", "scalar", cond[2][2][truth] == "None"))
                fr.env["__pc"] = tuple(pc)
        else:
            pc = list(fr.env.get("__pc", ()))
            pc.append((what, cond[2], val))
            fr.env["__pc"] = tuple(pc)

    def call(self, ex, fk, args, term, fr):
        n = fk.name
        a = [deref_value(ex, x) for x in args]
        if n in self.neutral and not a:
            return Acc(0, 0)
        if n in self.dbl and len(a) == 1 and isinstance(a[0], Acc):
            return Acc(2 * a[0].a, 2 * a[0].b)
        if n in self.comb and len(a) == 2:
            x, y = a
            if isinstance(x, Acc) and y == BASE or (x == BASE and isinstance(y, Acc)):
                acc = x if isinstance(x, Acc) else y
                r = Acc(acc.a, acc.b + 1)
                if n.endswith("_assign"):
                    store_through(ex, args[0], r)
                    return Tup([])
                return r
            if isinstance(x, Acc) or isinstance(y, Acc):
                self.errors.append("accumulator combined with %r, not with the base" % ((y if isinstance(x, Acc) else x),))
                if n.endswith("_assign"):
                    store_through(ex, args[0], TOP)
                    return Tup([])
                return TOP
        if n in ("clone",) and len(a) == 1:
            return a[0]
        # the scalar and its bits
        if a and a[0] == SCALAR and n in ("into", "from", "raw", "into_u256", "clone", "deref", "borrow", "as_ref") and len(a) == 1:
            return SCALAR
        if a and a[0] == SCALAR and len(a) == 1 and n in ("is_zero", "is_one"):
            return ("cond", "is" + n[3:], "scalar", False)
        if a and a[0] == BASE and len(a) == 1 and n in ("is_zero", "is_one"):
            return ("cond", "is" + n[3:], "base", False)
        if n in ("eq", "ne") and len(a) == 2 and SCALAR in a:
            o = a[1] if a[0] == SCALAR else a[0]
            if isinstance(o, tuple) and o[:1] == ("scalar-const",):
                return ("cond", "is" + o[1], "scalar", n == "ne")
        if n in ("one", "zero") and not a:
            return ("scalar-const", n)
        if a and a[0] == SCALAR and len(a) == 1:
            # any other unary method of the scalar that yields an iterator / view of its bits
            out = (self.F.bodies.get(fk.d).rec.get("output") if self.F.bodies.get(fk.d) else "") or ""
            if n == "bits_without_leading_zeros":
                return LEADBITS          # R-BITS: the bit iterator with its leading zeros skipped — the first bit it yields is set
            if "Iter" in out or "iter" in n or "bits" in n:
                return ("bits",)
            return NotImplemented
        if a and a[0] == ("bits",) and n == "skip_while" and len(a) == 2:
            cbd = ex.F.bodies.get(a[1].name[len("closure:"):]) if isinstance(a[1], Adt) and str(a[1].name).startswith("closure:") else None
            if cbd is not None and not list(cbd.calls()) and any(st["k"] == "assign" and st["rv"]["k"] == "unop" and st["rv"]["op"] == "Not" for blk in cbd.blocks for st in blk["stmts"]):
                return LEADBITS          # skip_while(|b| !b)
            return ("bits",)
        if a and a[0] == LEADBITS and n in ("into_iter", "iter", "by_ref", "peekable", "fuse"):
            return LEADBITS
        if a and a[0] == LEADBITS and n == "next" and not (fr is not None and fr.env.get("__looping")):
            # taken off before any loop: None ⇔ the scalar is zero, otherwise the (set) leading bit
            store_through(ex, args[0], ("bits",))
            fr.env["__lead"] = fr.env.get("__lead", 0) + 1
            return Adt("core::option::Option", ("?", ("lead",), {0: "None", 1: "Some"}), [True])
        if a and isinstance(a[0], Adt) and isinstance(a[0].variant, tuple) and a[0].variant[:2] == ("?", ("lead",)) and n in ("is_none", "is_some") and len(a) == 1:
            return ("cond", "iszero", "scalar", n == "is_some")
        if a and a[0] == LEADBITS:
            a = [("bits",)] + list(a[1:])
        if a and a[0] == ("bits",) and n in ("into_iter", "iter", "by_ref", "rev", "skip_while", "peekable", "fuse"):
            return ("bits",)
        if a and a[0] == ("bits",) and n == "next":
            return Adt("core::option::Option", ("?", ("bits",), {0: "None", 1: "Some"}), [("cond", "bit", None, False)])
        if a and a[0] == ("bits",) and n == "fold" and len(a) == 3:
            init, clo = a[1], args[2]
            if isinstance(init, Acc):
                self.inits.append((init.a, init.b))
            cb = ex.F.bodies.get(clo.name[len("closure:"):]) if isinstance(clo, Adt) and str(clo.name).startswith("closure:") else None
            if cb is None:
                self.errors.append("fold over the bits with something that is not a closure")
                return TOP
            sub = AbsExec(ex.F, self, ex.max_steps, ex.max_paths, ex.inline)
            sub.depth = getattr(ex, "depth", 0) + 1
            sub.root_path = getattr(ex, "root_path", None)
            fr0 = [clo, Acc(1, 0), ("cond", "bit", None, False)]
            rs = sub.run_shared(cb, fr0)
            for v, f2 in rs:
                if isinstance(v, Acc):
                    self.steps.append((v.a, v.b, f2.env.get("__bit")))
                else:
                    self.errors.append("the fold closure returns %r" % (v,))
            fr.env["__looped"] = True
            return Acc(1, 0)
        if a and a[0] == ("bits",) and n == "for_each":
            return NotImplemented
        return NotImplemented


def rule_ladder(prop, repo, which):
    F = repo.F
    R = Rule("R-LADDER", "scalar multiplication / exponentiation is a left-to-right binary ladder: the accumulator starts at the neutral element and one pass of the loop body (or fold "
             "closure) maps the multiple n it holds to 2n when the bit is clear and 2n+1 when it is set (Horner-form abstract interpretation); every exit returns the accumulator "
             "or an algebraic identity of the operation under the matching operand test", floor=len(which), exhaustive=True)
    for path, neutral, dbl, comb in which:
        b = F.bodies.get(path)
        R.instance()
        if b is None:
            R.fail_closed("%s:ladder:%s" % (prop, path), "%s not found" % path)
            continue
        from .weight import implementation
        b = implementation(repo, b)
        dom = HornerDomain(F, {dbl, "double", "squared", "square"} if dbl in ("double", "squared") else {dbl}, {comb, comb.replace("_assign", ""), comb.replace("_assign", "") + "_assign", "add_jacobian"}, {neutral})
        ex = AbsExec(F, dom, inline=same_module_inline(F, b.rec["path"]), max_steps=100000, max_paths=256)
        ins = b.rec.get("inputs") or []
        args = []
        for i, ty in enumerate(ins):
            v = BASE if i == 0 else SCALAR
            if ty.strip().startswith("&"):
                hf = Frame(b, [])
                hf.env[0] = v
                args.append(Ref(hf, 0))
            else:
                args.append(v)
        why = []
        try:
            rs = ex.run(b, args)
        except FactsError as e:
            rs = []
            why.append(str(e))
        why += sorted(set(dom.errors))[:3]
        if not dom.inits or any(i not in ((0, 0), (0, 1)) for i in dom.inits):
            why.append("accumulator does not start at %s() (enters the loop as %s)" % (neutral, dom.inits[:2]))
        st = set(dom.steps)
        if st != {(2, 0, False), (2, 1, True)}:
            why.append("one iteration maps n to %s; a ladder needs n ↦ 2n (bit clear) and n ↦ 2n+1 (bit set)" % sorted(("%d·n+%d" % (a, c), "bit=%s" % bt) for a, c, bt in st))
        for v, fr in rs:
            pc = fr.env.get("__pc", ())
            looped = fr.env.get("__looped")
            ok = isinstance(v, Acc) and (v.a, v.b) == (1, 0) and looped
            if not ok and isinstance(v, Acc) and (v.a, v.b) == (0, 0):
                ok = any(c in (("iszero", "scalar", True), ("iszero", "base", True)) for c in pc) if neutral == "zero" else any(c == ("iszero", "scalar", True) or c == ("isone", "base", True) for c in pc)
            if not ok and v == BASE:
                ok = any(c in (("isone", "scalar", True),) for c in pc) or (neutral == "zero" and ("iszero", "base", True) in pc) or (neutral == "one" and ("isone", "base", True) in pc)
            if not ok:
                why.append("returns %r%s, which is neither the ladder accumulator nor an identity of the operation under the matching test" % (v, (" under %s" % (pc,)) if pc else ""))
        if not rs:
            why.append("no returning path")
        R.check(not why, "%s:ladder:%s" % (prop, path), "%s: %s" % (path, "; ".join(why[:3])), b.file_line(), path,
                sample={"fn": path, "neutral": neutral, "iteration": "n ↦ 2n / 2n+1", "exits": len(rs)})
    return R.finish()


# ====================================================================== decimal parser (C13)
class Mult:
    """k · one() for a literal k"""
    def __init__(self, k):
        self.k = k

    def __repr__(self):
        return "%d·1" % self.k


DMULT = ("digit·1",)


class Dec:
    """a·n + b + c·d  (n: value accumulated so far, d: the digit just read)"""
    def __init__(self, a, b, c):
        self.a, self.b, self.c = a, b, c

    def __repr__(self):
        return "dec(%d·n+%d+%d·d)" % (self.a, self.b, self.c)


class DecimalDomain:
    sound_loops = True

    def __init__(self, F):
        self.F = F
        self.inits, self.steps, self.errors, self.radix = [], [], [], []

    def variant_index(self, ex, name):
        return {"None": 0, "Some": 1, "Continue": 0, "Break": 1}.get(name)

    def havoc(self, ex, fr, l):
        cur = fr.env.get(l, TOP)
        if isinstance(cur, (Mult, Dec)) and l in fr.env.get("__acc_locals", (l,)):
            return Dec(1, 0, 0)
        if cur in (("chars",),) or isinstance(cur, Tup):
            return cur
        return TOP

    def at_head(self, ex, fr, bb, written):
        accs = [(l, fr.env.get(l)) for l in written if isinstance(fr.env.get(l), (Mult, Dec))]
        if fr.env.get("__looping"):
            if fr.env.get("__nodigit"):
                self.errors.append("the loop continues after a character that is not a digit")
            for l, v in accs:
                if l in fr.env.get("__acc_locals", ()):
                    self.steps.append((v.a, v.b, v.c) if isinstance(v, Dec) else ("const", v.k, 0))
        else:
            fr.env["__acc_locals"] = tuple(l for l, _ in accs)
            for l, v in accs:
                self.inits.append(v.k if isinstance(v, Mult) else repr(v))
        fr.env["__looping"] = True
        fr.env["__looped"] = True

    def refine(self, ex, fr, cond, truth):
        if cond[1] == "variant?":
            tag = cond[2][1]
            meaning = cond[2][2][truth]
            if tag == ("digit?",) and meaning == "None":
                fr.env["__nodigit"] = True
            if tag == ("fold?",) and meaning == "None":
                fr.env["__foldnone"] = True

    def lin(self, v):
        if isinstance(v, Mult):
            return Dec(0, v.k, 0)
        if v == DMULT:
            return Dec(0, 0, 1)
        if isinstance(v, Dec):
            return v
        return None

    def call(self, ex, fk, args, term, fr):
        n = fk.name
        a = [deref_value(ex, x) for x in args]
        if n == "zero" and not a:
            return Mult(0)
        if n == "one" and not a:
            return Mult(1)
        if n in ("add", "add_assign", "mul", "mul_assign") and len(a) == 2:
            x, y = self.lin(a[0]), self.lin(a[1])
            r = TOP
            if x is not None and y is not None:
                if n.startswith("add"):
                    r = Dec(x.a + y.a, x.b + y.b, x.c + y.c)
                else:
                    kx = x.b if (x.a, x.c) == (0, 0) else None
                    ky = y.b if (y.a, y.c) == (0, 0) else None
                    if ky is not None:
                        r = Dec(x.a * ky, x.b * ky, x.c * ky)
                    elif kx is not None:
                        r = Dec(y.a * kx, y.b * kx, y.c * kx)
                if isinstance(r, Dec) and (r.a, r.c) == (0, 0):
                    r = Mult(r.b)
                elif isinstance(r, Dec) and (r.a, r.b, r.c) == (0, 0, 1):
                    r = DMULT
            if n.endswith("_assign"):
                store_through(ex, args[0], r)
                return Tup([])
            return r
        if n in ("clone",) and len(a) == 1:
            return a[0]
        if n == "chars" and len(a) == 1:
            return ("chars",)
        if a and a[0] == ("chars",) and n in ("into_iter", "by_ref", "peekable", "fuse"):
            return ("chars",)
        if a and a[0] == ("chars",) and n == "next":
            return Adt("core::option::Option", ("?", ("char?",), {0: "None", 1: "Some"}), [("char",)])
        if n == "to_digit" and len(a) == 2 and a[0] == ("char",):
            self.radix.append(a[1])
            return Adt("core::option::Option", ("?", ("digit?",), {0: "None", 1: "Some"}), [("digit",)])
        if a and a[0] == ("digit",) and len(a) == 1 and n in ("from", "into"):
            return ("digit",)
        if a and a[0] == ("digit",) and len(a) == 1 and n in ("try_from", "try_into"):
            return Adt("core::result::Result", "Ok", [("digit",)])
        if n in ("unwrap", "expect", "unwrap_or_default") and a and isinstance(a[0], Adt) and a[0].variant in ("Some", "Ok") and a[0].fields:
            return a[0].fields[0]
        if n == "branch" and fk.get("trait") == "core::ops::Try" and len(a) == 1 and isinstance(a[0], Adt) and a[0].name == "core::option::Option":
            v = a[0]
            if isinstance(v.variant, tuple):
                return Adt("core::ops::ControlFlow", ("?", v.variant[1], {0: "Some", 1: "None"} if False else {0: "Some", 1: "None"}), list(v.fields))
            return Adt("core::ops::ControlFlow", "Continue" if v.variant == "Some" else "Break", list(v.fields))
        if n == "from_residual":
            return Adt("core::option::Option", "None", [])
        if n == "successors" and len(a) == 2 and isinstance(a[0], Adt) and a[0].variant in ("Some", "None"):
            return ("succ", a[0], args[1])
        if n == "take" and len(a) == 2 and isinstance(a[0], tuple) and a[0][:1] == ("succ",) and isinstance(a[1], int) and a[1] <= 64:
            # iter::successors(first, f).take(k): first, f(first), f(f(first)), … — k elements, or fewer once f says None
            from core.absexec import CoreIter, call_value, Frame, Ref as _Ref
            items, cur = [], a[0][1]
            while len(items) < a[1] and isinstance(cur, Adt) and cur.variant == "Some" and cur.fields:
                items.append(cur.fields[0])
                if len(items) == a[1]:
                    break
                hf = Frame(fr.body, [])
                hf.env[0] = cur.fields[0]
                cur = deref_value(ex, call_value(ex, a[0][2], [_Ref(hf, 0)]))
            if isinstance(cur, Adt) and cur.variant in ("Some", "None"):
                return CoreIter(items)
            return TOP
        if n == "collect" and len(a) == 1:
            from core.absexec import CoreIter
            if isinstance(a[0], CoreIter):
                return Tup(a[0].items[a[0].pos:])
        if n == "len" and len(a) == 1 and isinstance(a[0], Tup):
            return len(a[0].items)
        if n in ("index", "index_mut") and len(a) == 2 and isinstance(a[0], Tup):
            if isinstance(a[1], int) and 0 <= a[1] < len(a[0].items):
                return a[0].items[a[1]]
            if isinstance(a[1], Adt) and "ops::range::Range" in a[1].name.replace("ops::Range", "ops::range::Range") and all(isinstance(x, int) for x in a[1].fields):
                # a sub-table by a literal range (`&small[..10]`)
                L, nm, f = len(a[0].items), a[1].name.split("::")[-1], list(a[1].fields)
                lo, hi = {"Range": (f + [None, None])[:2], "RangeTo": [0, (f + [None])[0]], "RangeFrom": [(f + [None])[0], L], "RangeFull": [0, L]}.get(nm, [None, None])
                if isinstance(lo, int) and isinstance(hi, int) and 0 <= lo <= hi <= L:
                    return Tup(list(a[0].items[lo:hi]))
            if a[1] == ("digit",):
                ok = len(a[0].items) >= 10 and all(isinstance(x, Mult) and x.k == i for i, x in enumerate(a[0].items[:10]))
                if not ok:
                    self.errors.append("digit table is not [0·1, 1·1, …, 9·1]: %r" % (a[0].items[:11],))
                return DMULT if ok else TOP
        if n in ("try_fold",) and a and a[0] == ("chars",) and len(a) == 3:
            init, clo = a[1], args[2]
            if isinstance(init, Mult):
                self.inits.append(init.k)
            cb = ex.F.bodies.get(clo.name[len("closure:"):]) if isinstance(clo, Adt) and str(clo.name).startswith("closure:") else None
            if cb is None:
                self.errors.append("try_fold with something that is not a closure")
                return TOP
            sub = AbsExec(ex.F, self, ex.max_steps, ex.max_paths, ex.inline)
            sub.depth = getattr(ex, "depth", 0) + 1
            sub.root_path = getattr(ex, "root_path", None)
            for v, f2 in sub.run_shared(cb, [clo, Dec(1, 0, 0), ("char",)]):
                if isinstance(v, Adt) and v.variant == "Some" and isinstance(v.fields[0], Dec):
                    d = v.fields[0]
                    if f2.env.get("__nodigit"):
                        self.errors.append("the closure goes on after a character that is not a digit")
                    self.steps.append((d.a, d.b, d.c))
                elif isinstance(v, Adt) and v.variant == "None" and f2.env.get("__nodigit"):
                    pass
                else:
                    self.errors.append("the try_fold closure returns %r%s" % (v, "" if f2.env.get("__nodigit") else " although the character is a digit"))
            fr.env["__looped"] = True
            return Adt("core::option::Option", ("?", ("fold?",), {0: "None", 1: "Some"}), [Dec(1, 0, 0)])
        return NotImplemented

    def cast(self, ex, fr, rv, v):
        return v

    def index(self, ex, v, i):
        if isinstance(v, Tup) and i == ("digit",):
            ok = len(v.items) >= 10 and all(isinstance(x, Mult) and x.k == k for k, x in enumerate(v.items[:10]))
            if not ok:
                self.errors.append("digit table is not [0·1, 1·1, …, 9·1]")
            return DMULT if ok else TOP
        return TOP


def rule_decimal(prop, repo):
    """from_str: value ← 10·value + digit for every character, starting from zero, None at the first non-digit."""
    F = repo.F
    R = Rule("R-STR", "decimal parser: the accumulator starts at zero and every character maps the value n to 10·n + d (d its decimal digit, radix 10); the first character that is "
             "not a digit ends the parse with None (positional-notation abstract interpretation: loop or try_fold alike)", floor=2, exhaustive=True)
    from .weight import implementation
    for ap in repo.fp_types():
        path = ap + "::from_str"
        b = F.bodies.get(path)
        R.instance()
        if b is None:
            R.fail_closed("%s:str:%s:anchor" % (prop, path), "%s not found" % path)
            continue
        b2 = implementation(repo, b)
        dom = DecimalDomain(F)
        ex = AbsExec(F, dom, inline=same_module_inline(F, b2.rec["path"]), max_steps=200000, max_paths=512)
        why = []
        try:
            rs = ex.run(b2, [("str",)])
        except FactsError as e:
            rs = []
            why.append(str(e))
        why += sorted(set(dom.errors))[:3]
        if dom.inits != [0] * len(dom.inits) or not dom.inits:
            why.append("the accumulator does not start at zero (%s)" % dom.inits[:3])
        if set(dom.steps) != {(10, 0, 1)}:
            why.append("one character maps n to %s; positional decimal notation needs n ↦ 10·n + d" % sorted(set(dom.steps)))
        if any(r != 10 for r in dom.radix) or not dom.radix:
            why.append("to_digit radix %s" % dom.radix[:2])
        seen_some = False
        for v, fr in rs:
            if fr.env.get("__nodigit"):
                if not (isinstance(v, Adt) and v.variant == "None"):
                    why.append("returns %r on the path where a character is not a digit" % (v,))
                continue
            payload = v.fields[0] if isinstance(v, Adt) and v.fields else None
            good = isinstance(v, Adt) and v.name == "core::option::Option" and (v.variant == "Some" or isinstance(v.variant, tuple)) and \
                ((isinstance(payload, Dec) and (payload.a, payload.b, payload.c) == (1, 0, 0)) or (isinstance(payload, Mult) and payload.k == 0 and not fr.env.get("__looped")))
            if good:
                seen_some = True
            elif not (isinstance(v, Adt) and v.variant == "None" and fr.env.get("__foldnone")):
                why.append("returns %r" % (v,))
        if not seen_some:
            why.append("no path returns the accumulated value")
        R.check(not why, "%s:str:%s" % (prop, path), "%s: %s" % (path, "; ".join(why[:3])), b.file_line(), path,
                sample={"fn": path, "step": "n ↦ 10·n + d", "radix": 10, "non_digit": "None at once"})
    # public FromStr maps None to Err and Some(v) to Ok(wrapper(v))
    from . import shared as _sh
    from core.terms import strip as _strip
    for w, inner in (("<crate::Fr as core::str::FromStr>::from_str", "crate::fields::fp::Fr::from_str"), ("<crate::Fq as core::str::FromStr>::from_str", "crate::fields::fp::Fq::from_str")):
        wb = F.bodies.get(w)
        R.instance()
        if wb is None:
            R.fail_closed("%s:str:%s:anchor" % (prop, w), "%s not found" % w)
            continue
        from core.bytex import Machine, T as BT, Adt as BAdt
        from .conv2 import Conv, strip_newtypes
        cv = Conv(repo)
        outs = Machine(F, cv.policy).run(wb, [BT("s")])
        ok = len(outs) == 2 and all(o.kind == "return" and len(o.pc) == 1 for o in outs)
        if ok:
            for o in outs:
                atom, ch = o.pc[0]
                isinner = isinstance(atom, BT) and atom[0] == "call" and atom[1] == inner and atom[3] == (BT("s"),)
                if ch == "Some":
                    ok = ok and isinner and isinstance(o.value, BAdt) and o.value.variant == "Ok" and strip_newtypes(o.value.fields[0]) == BT("payload", atom, "Some")
                else:
                    ok = ok and isinner and isinstance(o.value, BAdt) and o.value.variant == "Err"
        R.check(ok, "%s:str:%s" % (prop, w), "%s is not {inner::from_str(s): Some(v) ↦ Ok(wrap(v)), None ↦ Err}: %s" % (w, [repr(o)[:100] for o in outs][:2]), wb.file_line(), w, sample={"wrapper": w})
    return R.finish()
