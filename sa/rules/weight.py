"""Jacobian weight (units-of-measure) analysis (DESIGN §4.G).

Under (x,y,z) ↦ (λ²x, λ³y, λz) the coordinates carry weights 2, 3, 1 per operand; a field value's abstract value is a
linear form over one symbol per Jacobian operand. A weight-consistent formula is covariant under every λ, hence the
denoted point / line value does not depend on the representative. The analysis knows nothing about which
homogeneous formula is the right one.
"""
from core.report import Rule
from core.facts import FactsError
from core.absexec import AbsExec, Adt, Tup, Ref, TOP, Frame, deref_value, store_through
from . import shared

G = "crate::groups::G"
AFF = "crate::groups::AffineG"


def form(d=None):
    return tuple(sorted((k, v) for k, v in (d or {}).items() if v))


def fadd(a, b):
    d = dict(a)
    for k, v in b:
        d[k] = d.get(k, 0) + v
    return form(d)


def fscale(a, n):
    return form({k: v * n for k, v in a})


def fsub0(a, syms):
    return form({k: v for k, v in a if k not in syms})


class W:
    """A field value of known weight. kind: 'var' | 'zero' | 'one' | 'const'."""
    _n = 0

    def __init__(self, f, kind="var", origin=None, cls=None, factors=None):
        self.f = f
        self.kind = kind
        self.origin = origin
        self.cls = cls                      # 'x' | 'y' | 'z' | ('diff', c) | ('sum', c): coordinate class up to powers of z
        W._n += 1
        self.vid = W._n
        self.factors = frozenset(factors or ()) | {self.vid}

    def __repr__(self):
        if self.kind == "zero":
            return "0"
        if self.kind == "one":
            return "1"
        return "w%s" % (dict(self.f) or "0")

    def variant(self, f=None, kind=None):
        """The same value (same identity, class and factors) with refined weight / zero-ness."""
        w = W.__new__(W)
        w.f = self.f if f is None else f
        w.kind = self.kind if kind is None else kind
        w.origin, w.cls, w.vid, w.factors = self.origin, self.cls, self.vid, self.factors
        return w


class Mix:
    """u + v with different weights (only legal inside the (u+v)² − u² − v² idiom)."""
    def __init__(self, u, v, squared=False, removed=()):
        self.u, self.v, self.squared, self.removed = u, v, squared, tuple(removed)
        self.kind = "mix"

    def __repr__(self):
        return "mix(%r,%r,sq=%s,removed=%d)" % (self.u, self.v, self.squared, len(self.removed))


class WeightDomain:
    UNARY_SAME = ("double", "triple", "neg", "div2", "unitary_inverse", "mul_by_nonresidue", "clone", "neg_inplace")

    def __init__(self, F):
        self.F = F
        self.errors = []
        self.cur_site = None
        self.ops = 0
        self.double_calls = []
        self.inverse_total = True

    def err(self, term, msg):
        sp = term.get("span", {}) if term else {}
        self.errors.append(("%s:%s" % (sp.get("file"), sp.get("line")), msg))

    def variant_index(self, ex, name):
        return {"None": 0, "Some": 1, "Continue": 0, "Break": 1}.get(name)

    def v(self, ex, x):
        return deref_value(ex, x)

    # aggregates of field values stay as Adt / Tup; G points are Adt(G, None, [x,y,z])
    def aggregate(self, ex, adt, variant, ops):
        return NotImplemented

    def same(self, term, a, b, what):
        """Weight of a ± b / a == b; reports an inhomogeneity."""
        if not isinstance(a, W) or not isinstance(b, W):
            return None
        if a.kind == "zero":
            return b.f
        if b.kind == "zero":
            return a.f
        if a.f != b.f:
            self.err(term, "%s of values with different Jacobian weights %s and %s" % (what, dict(a.f), dict(b.f)))
            return None
        return a.f

    def call(self, ex, fk, args, term, fr):
        n = fk.name
        self.ops += 1
        a = [self.v(ex, x) for x in args]
        # ---------- constants
        if not a and n in ("zero", "one", "coeff_b", "i"):
            if n == "zero":
                if "groups::G" in fk.i or fk.get("trait", "").endswith("Zero") and "G<" in fk.i:
                    return Adt(G, None, [W(form(), "zero"), W(form(), "one"), W(form(), "zero")])
                return W(form(), "zero")
            if n == "one":
                return W(form(), "one")
            return W(form(), "const")
        if n in ("unwrap", "expect") and a:
            if isinstance(a[0], Adt) and a[0].variant == "Some":
                return a[0].fields[0]
            if isinstance(a[0], W):
                return a[0]
            return TOP
        if n == "new" and fk.d.endswith("Fq::new") or (n == "new" and "fields::fp::" in fk.d):
            return Adt("core::option::Option", "Some", [W(form(), "const")])
        if n == "deref" and fk.get("trait") == "core::ops::Deref":
            return W(form(), "const")
        if n in ("from_str", "from_slice") and "fields::fp" in fk.d:
            return Adt("core::option::Option", "Some", [W(form(), "const")])
        if n == "branch" and fk.get("trait") == "core::ops::Try" and a:
            if isinstance(a[0], Adt) and a[0].variant in ("Some",):
                return Adt("core::ops::ControlFlow", "Continue", [a[0].fields[0]])
            if isinstance(a[0], Adt) and isinstance(a[0].variant, tuple) and a[0].variant[0] == "?":
                return Adt("core::ops::ControlFlow", ("?", a[0].variant[1], {0: "Some", 1: "None"}), [a[0].fields[0]])
            return TOP
        if n == "from_residual":
            return Adt("core::option::Option", "None", [])
        # ---------- field arithmetic by role (names of the FieldElement / operator traits)
        if n in ("mul", "scale", "mul_inplace", "scale_fq") and len(a) == 2:
            x, y = a
            if isinstance(x, Mix) or isinstance(y, Mix):
                self.err(term, "a sum of differently weighted terms is multiplied (outside the (u+v)²−u²−v² idiom)")
                return TOP
            if isinstance(x, W) and isinstance(y, W):
                if x.kind == "zero" or y.kind == "zero":
                    return W(form(), "zero")
                cls = None
                if x.cls == "z" and y.cls == "z":
                    cls = "z"
                elif y.cls == "z" or (y.cls is None and y.kind in ("one", "const")):
                    cls = x.cls
                elif x.cls == "z" or (x.cls is None and x.kind in ("one", "const")):
                    cls = y.cls
                return W(fadd(x.f, y.f), cls=cls, factors=x.factors | y.factors)
            return TOP
        if n in ("mul_assign",) and len(a) == 2:
            x, y = a
            r = W(fadd(x.f, y.f)) if isinstance(x, W) and isinstance(y, W) else TOP
            store_through(ex, args[0], r)
            return Tup([])
        if n == "squared" and len(a) == 1:
            x = a[0]
            if isinstance(x, Mix) and not x.squared:
                return Mix(x.u, x.v, True)
            if isinstance(x, W):
                if x.kind == "zero":
                    return W(form(), "zero")
                return W(fscale(x.f, 2), origin=("sq", x.vid), cls="z" if x.cls == "z" else None, factors=x.factors)
            return TOP
        if n in self.UNARY_SAME and len(a) == 1 and not (isinstance(a[0], Adt) and a[0].name == G):
            x = a[0]
            if isinstance(x, W):
                return W(x.f, "zero" if x.kind == "zero" else "var", origin=x.origin if n in ("clone",) else None, cls=x.cls, factors=x.factors)
            if isinstance(x, Adt) and x.name == G and n == "neg":
                return NotImplemented
            if isinstance(x, Mix):
                if n == "double" and x.squared and len(x.removed) == 2:
                    pass
                self.err(term, "a sum of differently weighted terms escapes the (u+v)²−u²−v² idiom")
            return NotImplemented if isinstance(x, Adt) else TOP
        if n == "inverse" and len(a) == 1:
            x = a[0]
            if isinstance(x, W):
                if self.inverse_total:
                    return Adt("core::option::Option", "Some", [W(fscale(x.f, -1), cls=x.cls)])
                return Adt("core::option::Option", ("?", x, {0: "None", 1: "Some"}), [W(fscale(x.f, -1), cls=x.cls)])
            return TOP
        if n in ("add", "sub", "add_inplace", "sub_inplace") and len(a) == 2:
            x, y = a
            if isinstance(x, Adt) and x.name == G:
                return self.point_add(ex, term, x, y)
            if isinstance(x, Mix) and x.squared and isinstance(y, W) and n.startswith("sub"):
                # (u+v)² − u² − v²  ⇒ 2uv
                for cand in (x.u, x.v):
                    if y.origin == ("sq", cand.vid) and cand.vid not in x.removed:
                        rem = x.removed + (cand.vid,)
                        if len(rem) == 2:
                            return W(fadd(x.u.f, x.v.f))
                        return Mix(x.u, x.v, True, rem)
                self.err(term, "subtraction from (u+v)² of something that is not u² or v²")
                return TOP
            if isinstance(x, W) and isinstance(y, W):
                if x.kind != "zero" and y.kind != "zero" and x.f != y.f and n.startswith("add"):
                    return Mix(x, y)
                f = self.same(term, x, y, "sum/difference")
                if x.kind == "zero" and y.kind == "zero":
                    return W(form(), "zero")
                if f is None:
                    return TOP
                c = x.cls if x.cls == y.cls and x.cls in ("x", "y") else None
                return W(f, origin=("diff",) if n.startswith("sub") else None, cls=(("diff" if n.startswith("sub") else "sum"), c) if c else None)
            if isinstance(x, Mix) or isinstance(y, Mix):
                self.err(term, "a sum of differently weighted terms is added/subtracted outside the idiom")
            return TOP
        if n in ("add_assign", "sub_assign") and len(a) == 2:
            x, y = a
            if isinstance(x, Adt) and x.name == G:
                store_through(ex, args[0], self.point_add(ex, term, x, y))
                return Tup([])
            f = self.same(term, x, y, "sum/difference") if isinstance(x, W) and isinstance(y, W) else None
            store_through(ex, args[0], W(f) if f is not None else TOP)
            return Tup([])
        if n in ("eq", "ne") and len(a) == 2:
            x, y = a
            if isinstance(x, W) and isinstance(y, W):
                if x.kind == "one" and y.kind == "var":
                    x, y = y, x
                if y.kind == "one" and x.kind == "var":
                    # `z == 1` makes that operand dimensionless; `z² == 1` (or any other power) does not pin z and is
                    # a representation-dependent test
                    if len(x.f) == 1 and x.f[0][1] == 1:
                        return ("cond", "eq1", x.f, n == "ne")
                    if x.f == form():
                        return ("cond", "cmp", (x, y), n == "ne")
                    self.err(term, "a quantity of Jacobian weight %s is compared with the constant one" % dict(x.f))
                    return TOP
                if x.kind == "var" and y.kind == "var" and x.f != y.f and len(x.f) == 1 and len(y.f) == 1 and x.f[0][1] == y.f[0][1] == 1:
                    # `z1 == z2`: on the true edge both operands share one scale
                    return ("cond", "unify", (x.f[0][0], y.f[0][0]), n == "ne")
                self.same(term, x, y, "comparison")
                return ("cond", "cmp", (x, y), n == "ne")
            if isinstance(x, Adt) and isinstance(y, Adt) and x.name == G:
                return ("cond", "pointcmp", (x, y), n == "ne")
            return TOP
        if n == "is_zero" and len(a) == 1:
            x = a[0]
            if isinstance(x, W):
                if x.kind == "zero":
                    return True
                return ("cond", "iszero", x, False)
            if isinstance(x, Adt) and x.name == G and isinstance(x.fields[2], W):
                if x.fields[2].kind == "zero":
                    return True
                return ("cond", "iszero", x.fields[2], False)
            return TOP
        if n == "is_one" and len(a) == 1:
            x = a[0]
            if isinstance(x, W) and x.kind == "var":
                return ("cond", "eq1", x.f, False)
            return TOP
        # ---------- points
        if n == "double" and len(a) == 1 and isinstance(a[0], Adt) and a[0].name == G:
            self.double_calls.append((fr.env.get("__pc", ()), term.get("span", {}).get("line")))
            z = a[0].fields[2]
            if isinstance(z, W):
                k = fscale(z.f, 4)
                return Adt(G, None, [W(fscale(k, 2)), W(fscale(k, 3)), W(k)])
            return TOP
        if n == "neg" and len(a) == 1 and isinstance(a[0], Adt) and a[0].name == G:
            return a[0]
        if n == "new" and len(a) == 3 and "groups::G" in fk.d:
            return Adt(G, None, a)
        if n == "new" and len(a) == 2 and ("Fq2" in fk.i or "Fq4" in fk.i):
            return Adt("fq", None, a)
        if n == "new" and len(a) == 3 and "Fq12" in fk.i:
            return Adt("fq", None, a)
        if fk.d.startswith("crate::groups::G::<P>::") and n in ("x", "y", "z") and len(a) == 1 and isinstance(a[0], Adt):
            return a[0].fields["xyz".index(n)]
        if n == "to_jacobian" and len(a) == 1 and isinstance(a[0], Adt):
            return Adt(G, None, [a[0].fields[0], a[0].fields[1], W(form(), "one")])
        return NotImplemented

    fork_on_inline = True

    def merge_callee(self, ex, fr, cfr):
        """the caller continues on one path of an inlined callee: take over that path's assumptions and re-apply the facts
        they imply (a value found zero, a z found one) to the caller's own values"""
        pc = list(fr.env.get("__pc", ()))
        for c in cfr.env.get("__pc", ()):
            if c[0] == "is_zero":
                if any(d[0] == "is_zero" and d[1] == c[1] and d[4] != c[4] for d in pc):
                    fr.env["__dead"] = True
                if c[4]:
                    for env in self._envs(fr):
                        for l, v in list(env.items()):
                            if l != "__pc":
                                env[l] = self.zero_vid(v, c[1])
            elif c[0] == "z==1":
                if any(d[0] == "z==1" and d[1] == c[1] and d[2] != c[2] for d in pc):
                    fr.env["__dead"] = True
                if c[2]:
                    syms = set(c[1])
                    for env in self._envs(fr):
                        for l, v in list(env.items()):
                            if l != "__pc":
                                env[l] = self.subst0(v, syms)
            pc.append(c)
        fr.env["__pc"] = tuple(pc)

    def recursive_call(self, ex, fk, args, term, fr):
        """the adder calling itself with swapped operands: its summary"""
        a = [deref_value(ex, x) for x in args]
        if len(a) == 2 and all(isinstance(x, Adt) and x.name == G for x in a):
            return self.point_add(ex, term, a[0], a[1])
        return TOP

    def point_add(self, ex, term, p, q):
        """Summary of the general adder for callers: scale 3(s1+s2) (generic arm; special cases are degenerate paths)."""
        if isinstance(q, Adt) and q.name == G and isinstance(p.fields[2], W) and isinstance(q.fields[2], W):
            k = fscale(fadd(p.fields[2].f, q.fields[2].f), 3)
            return Adt(G, None, [W(fscale(k, 2)), W(fscale(k, 3)), W(k)])
        return TOP

    def set_field(self, ex, cur, i, val):
        # writing one component of an all-zero tower element (`let mut num = Fq12::zero(); num.c0 = …`)
        if isinstance(cur, W) and cur.kind == "zero":
            fs = [W(form(), "zero") for _ in range(i + 1)]
            fs[i] = val
            return Adt("fq", "zeroinit", fs)
        return TOP

    def pad(self, ex, cur):
        return W(form(), "zero") if cur.name == "fq" and cur.variant == "zeroinit" else TOP

    def field(self, ex, v, i):
        if isinstance(v, W) and v.kind == "zero":
            return W(form(), "zero")
        return TOP

    def _envs(self, fr):
        """The frame's own environment plus those of the holder frames its references point to."""
        out = [fr.env]
        seen = {id(fr)}
        for v in list(fr.env.values()):
            if isinstance(v, Ref) and id(v.frame) not in seen and v.frame.body is fr.body:
                seen.add(id(v.frame))
                out.append(v.frame.env)
        return out

    def refine(self, ex, fr, cond, truth):
        _, what, f, negated = cond
        pc = list(fr.env.get("__pc", ()))
        if what == "eq1":
            if any(c[0] == "z==1" and c[1] == dict(f) and c[2] != (truth != negated) for c in pc):
                fr.env["__dead"] = True
            pc.append(("z==1", dict(f), truth != negated))
            if truth != negated:
                syms = {k for k, _ in f}
                for env in self._envs(fr):
                    for l, v in list(env.items()):
                        if l != "__pc":
                            env[l] = self.subst0(v, syms)
        elif what == "unify":
            a, b2 = f
            pc.append(("z1==z2", truth != negated))
            if truth != negated:
                for env in self._envs(fr):
                    for l, v in list(env.items()):
                        if l != "__pc":
                            env[l] = self.rename(v, b2, a)
        elif what == "cmp":
            x, y = f
            pc.append(("cmp", x.cls, y.cls, dict(x.f), truth != negated))
        elif what == "pointcmp":
            pc.append(("pointcmp", truth != negated))
        elif what == "variant?":
            w = f[1]
            meaning = f[2][truth]
            pc.append(("is_zero", w.vid, dict(w.f), w.cls, meaning == "None"))
            if meaning == "None":
                for env in self._envs(fr):
                    for l, v in list(env.items()):
                        if l != "__pc":
                            env[l] = self.zero_vid(v, w.vid)
            # fix the variant in the environment so that later projections see Some / Continue
            for l, v in list(fr.env.items()):
                if isinstance(v, Adt) and isinstance(v.variant, tuple) and v.variant[0] == "?" and v.variant[1] is w:
                    name = {"core::option::Option": {"Some": "Some", "None": "None"}, "core::ops::ControlFlow": {"Some": "Continue", "None": "Break"}}[v.name][meaning]
                    fr.env[l] = Adt(v.name, name, v.fields)
        elif what == "iszero":
            w = f
            if any(c[0] == "is_zero" and c[1] == w.vid and c[4] != (truth != negated) for c in pc):
                fr.env["__dead"] = True
            pc.append(("is_zero", w.vid, dict(w.f), w.cls, truth != negated))
            if truth != negated:
                for env in self._envs(fr):
                    for l, v in list(env.items()):
                        if l != "__pc":
                            env[l] = self.zero_vid(v, w.vid)
        fr.env["__pc"] = tuple(pc)

    def rename(self, v, old, new):
        if isinstance(v, W):
            if any(k == old for k, _ in v.f):
                d = {}
                for k, c in v.f:
                    k2 = new if k == old else k
                    d[k2] = d.get(k2, 0) + c
                return v.variant(f=form(d))
            return v
        if isinstance(v, Adt):
            return Adt(v.name, v.variant, [self.rename(x, old, new) for x in v.fields])
        if isinstance(v, Tup):
            return Tup([self.rename(x, old, new) for x in v.items])
        return v

    def zero_vid(self, v, vid):
        if isinstance(v, W):
            return v.variant(kind="zero") if v.vid == vid else v
        if isinstance(v, Adt):
            return Adt(v.name, v.variant, [self.zero_vid(x, vid) for x in v.fields])
        if isinstance(v, Tup):
            return Tup([self.zero_vid(x, vid) for x in v.items])
        return v

    def subst0(self, v, syms):
        if isinstance(v, W):
            nf = fsub0(v.f, syms)
            if nf != v.f:
                return v.variant(f=nf)
            return v
        if isinstance(v, Adt):
            return Adt(v.name, v.variant, [self.subst0(x, syms) for x in v.fields])
        if isinstance(v, Tup):
            return Tup([self.subst0(x, syms) for x in v.items])
        if isinstance(v, Mix):
            return Mix(self.subst0(v.u, syms), self.subst0(v.v, syms), v.squared, v.removed)
        return v


def gpoint(sym):
    if sym is None:     # dimensionless (normalised / affine) operand
        return Adt(G, None, [W(form(), cls="x"), W(form(), cls="y"), W(form(), "one", cls="z")])
    return Adt(G, None, [W(form({sym: 2}), cls="x"), W(form({sym: 3}), cls="y"), W(form({sym: 1}), cls="z")])


def leaves(v, out):
    if isinstance(v, W):
        out.append(v)
    elif isinstance(v, (Adt,)):
        for x in v.fields:
            leaves(x, out)
    elif isinstance(v, Tup):
        for x in v.items:
            leaves(x, out)
    else:
        out.append(v)
    return out


def is_point_form(v):
    """(x,y,z) of weights (2k,3k,k) for one linear form k; identity literal (0,1,0) accepted."""
    if not isinstance(v, Adt) or v.name != G or len(v.fields) != 3:
        return None
    x, y, z = v.fields
    if not all(isinstance(c, W) for c in (x, y, z)):
        return None
    if z.kind == "zero":
        return "identity"
    k = z.f
    okx = x.kind == "zero" or x.f == fscale(k, 2)
    oky = y.kind == "zero" or y.f == fscale(k, 3)
    return dict(k) if okx and oky else None


def run_fn(F, body, args, inline=None):
    dom = WeightDomain(F)
    from core.absexec import same_module_inline
    ex = AbsExec(F, dom, inline=inline or same_module_inline(F, body.rec["path"]), max_paths=512)
    frames = []
    rargs = []
    for a in args:
        if isinstance(a, tuple) and a and a[0] == "byref":
            hf = Frame(body, [])
            hf.env[0] = a[1]
            rargs.append(Ref(hf, 0))
        else:
            rargs.append(a)
    rs = ex.run(body, rargs)
    return dom, rs


def implementation(repo, body, depth=0):
    """A trait method that only hands its parameters, in order, to one crate-local function is analysed through that
    function (`fn add(self, o) { self.add_impl(&o) }`)."""
    from core.terms import strip
    if depth > 3:
        return body
    rv = repo.tb(body).return_value()
    if rv[0] == "call" and len(rv[2]) == body.arg_count and rv[1].d in repo.F.bodies and rv[1].d != body.rec["path"]:
        ok = all(strip(a) in (("param", i + 1), ("init", ("deref", i + 1))) for i, a in enumerate(rv[2]))
        tgt = repo.F.bodies[rv[1].d]
        if ok and (tgt.rec.get("span") or {}).get("file") == (body.rec.get("span") or {}).get("file"):
            return implementation(repo, tgt, depth + 1)
    return body


def expand_option(v, pc=()):
    """An Option whose Some-ness still hangs on `x is zero` stands for both outcomes: [(value, extra path condition)]."""
    if isinstance(v, Adt) and v.name == "core::option::Option" and isinstance(v.variant, tuple) and v.variant and v.variant[0] == "?":
        w = v.variant[1]
        return [(Adt(v.name, "None", []), tuple(pc) + (("is_zero", w.vid, dict(w.f), w.cls, True),)),
                (Adt(v.name, "Some", list(v.fields)), tuple(pc) + (("is_zero", w.vid, dict(w.f), w.cls, False),))]
    return [(v, tuple(pc))]


def by_sig(body, vals):
    """arguments for run_fn / wrun according to the by-value / by-reference signature of `body`"""
    ins = body.rec.get("inputs") or []
    return [("byref", v) if i < len(ins) and ins[i].strip().startswith("&") else v for i, v in enumerate(vals)]


def find(F, pred):
    bs = [b for b in F.fn_bodies() if pred(b)]
    return bs


def rule_weight_group(prop, repo):
    """add / double / neg / eq / to_affine / to_jacobian of groups::G are weight-homogeneous on every arm."""
    F = repo.F
    R = Rule("R-WEIGHT", "Jacobian formulas are weight-homogeneous on every arm (covariant under (λ²x, λ³y, λz) for all λ): results are (2k,3k,k), "
             "compared quantities have equal weights, affine outputs have weight 0", floor=5)

    def get(path):
        b = F.bodies.get(path)
        if b is None:
            R.fail_closed("%s:weight:%s:anchor" % (prop, path), "%s not found" % path)
        return b

    def report(b, dom, key, ok, why, sample):
        errs = sorted(set(dom.errors))
        R.check(ok and not errs, key, "%s: %s%s" % (b.rec["path"], why if not ok else "", ("; inhomogeneous operations: %s" % errs[:3]) if errs else ""), b.file_line(), b.rec["path"], sample=sample)

    b = get("<crate::groups::G<P> as core::ops::Add>::add")
    if b:
        R.instance()
        b = implementation(repo, b)
        dom, rs = run_fn(F, b, by_sig(b, [gpoint("s1"), gpoint("s2")]))
        ks = []
        bad = []
        for v, _ in rs:
            k = is_point_form(v)
            if k is None:
                bad.append(repr(v)[:120])
            else:
                ks.append(k)
        report(b, dom, "%s:weight:add" % prop, not bad and len(rs) >= 8, "some arm does not return a point of weights (2k,3k,k): %s" % bad[:2],
               {"fn": "G::add", "arms": len(rs), "scales_k": [str(k) for k in ks][:10], "field_ops": dom.ops})
    b = get("<crate::groups::G<P> as crate::groups::GroupElement>::double")
    if b:
        R.instance()
        hf = ("byref", gpoint("s"))
        dom, rs = run_fn(F, b, [hf])
        ks = [is_point_form(v) for v, _ in rs]
        report(b, dom, "%s:weight:double" % prop, len(rs) >= 1 and all(k is not None for k in ks) and {"s": 4} in ks, "doubling does not return weights (2k,3k,k) on every path (k = 4s on the general one): %s" % ks,
               {"fn": "G::double", "k": str(ks[:1]), "idiom": "(u+v)²−u²−v² ⇒ 2uv recognised through value numbering"})
    b = get("<crate::groups::G<P> as core::ops::Neg>::neg")
    if b:
        R.instance()
        dom, rs = run_fn(F, b, [gpoint("s")])
        ks = [is_point_form(v) for v, _ in rs]
        # on a path where z compared equal to one() the operand's own scale is 1 (weight {}), and so must the result's be
        okn = [k in ({"s": 1}, "identity") or (k == {} and any(c[0] == "z==1" and c[2] for c in fr_.env.get("__pc", ()))) for k, (_, fr_) in zip(ks, rs)]
        report(b, dom, "%s:weight:neg" % prop, len(rs) >= 1 and all(okn), "negation changes the scale: %s" % ks, {"fn": "G::neg", "k": str(ks)})
    b = get("<crate::groups::G<P> as core::cmp::PartialEq>::eq")
    if b:
        R.instance()
        dom, rs = run_fn(F, b, [("byref", gpoint("s1")), ("byref", gpoint("s2"))])
        report(b, dom, "%s:weight:eq" % prop, len(rs) >= 3, "unexpected shape", {"fn": "G::eq", "paths": len(rs), "field_ops": dom.ops, "comparisons_balanced": not dom.errors})
    b = get("crate::groups::G::<P>::to_affine")
    if b:
        R.instance()
        dom, rs = run_fn(F, b, [gpoint("s")])
        bad = []
        somes = 0
        for v, _ in [x for v0, fr0 in rs for x in expand_option(v0)]:
            if isinstance(v, Adt) and v.variant == "Some":
                somes += 1
                lv = leaves(v.fields[0], [])
                if not all(isinstance(x, W) and x.f == form() for x in lv):
                    bad.append(repr(v)[:100])
        report(b, dom, "%s:weight:to_affine" % prop, not bad and somes >= 2, "affine coordinates are not of weight 0: %s" % bad[:2], {"fn": "G::to_affine", "some_paths": somes})
    return R.finish()


def extra_z_powers(repo, b):
    """For a line evaluation (T, X, extra Fq2 …, P): {parameter index: k} when at every call site the extra argument is z(X)^k of
    the very point X passed as the second argument (through z-preserving maps: `-Q` has Q's z), else None."""
    from core.terms import strip
    from .norm import Norm
    F = repo.F
    N = Norm(repo)
    ins = b.rec.get("inputs") or []
    extras = [i for i, t in enumerate(ins) if "Fq2" in t and "groups::G<" not in t]
    if not extras:
        return {}

    def zsrc(t):
        for _ in range(8):
            t = strip(t)
            if t[0] == "call" and t[2] and (N.z_preserving(t[1].d) or (t[1].name == "neg" and N.z_preserving(t[1].d))):
                t = t[2][0]
            else:
                break
        return strip(t)

    def power(t, src, depth=0):
        t = strip(t)
        if depth > 6:
            return None
        if (t[0] == "call" and t[1].name == "z" and len(t[2]) == 1 and zsrc(t[2][0]) == src) or (t[0] == "field" and t[2] == 2 and zsrc(t[1]) == src):
            return 1
        if t[0] == "call" and t[1].name == "squared" and len(t[2]) == 1:
            k = power(t[2][0], src, depth + 1)
            return None if k is None else 2 * k
        if t[0] == "call" and t[1].name == "mul" and len(t[2]) == 2:
            k1, k2 = power(t[2][0], src, depth + 1), power(t[2][1], src, depth + 1)
            return None if k1 is None or k2 is None else k1 + k2
        return None
    out = {}
    sites = 0
    for cb in F.fn_bodies():
        tb = None
        for bb, t in cb.calls():
            if (t.get("fn") or {}).get("res_def") != b.rec["path"]:
                continue
            tb = tb or repo.tb(cb)
            a = tb.call_args(bb)
            if len(a) != len(ins):
                return None
            sites += 1
            src = zsrc(a[1])
            for i in extras:
                k = power(a[i], src)
                if k is None or out.setdefault(i, k) != k:
                    return None
    return out if sites else None


def rule_weight_lines(prop, repo):
    F = repo.F
    R = Rule("R-WEIGHT-LINES", "line / tangent evaluations and twist-Frobenius maps are weight-homogeneous: num and den slots of equal weight, prepared coefficients a common-factor "
             "triple, (2k,3k,k) preserved by π, π²", floor=4)

    from .roles import PairingRoles
    roles = PairingRoles(F)

    def one(role):
        bs = getattr(roles, role)
        if len(bs) != 1:
            R.fail_closed("%s:weight:%s:anchor" % (prop, role), "no unique function in the role %s: %s" % (role, [b.rec["path"] for b in bs]))
            return None
        return bs[0]

    def uniform(vs):
        ws = [x for x in vs if isinstance(x, W) and x.kind != "zero"]
        oth = [x for x in vs if not isinstance(x, W)]
        return (not oth) and len({w.f for w in ws}) <= 1, ws

    for role, args in (("tangent_eval", [gpoint("s"), gpoint(None)]),
                       ("chord_eval", [gpoint("s1"), gpoint("s2"), gpoint(None)])):
        b = one(role)
        if not b:
            continue
        name = b.name
        if role == "chord_eval" and len(b.rec.get("inputs") or []) > 3:
            pw = extra_z_powers(repo, b)
            if pw is None:
                R.instance()
                R.fail_closed("%s:weight:%s:extras" % (prop, name), "%s takes extra field parameters that are not, at every call site, powers of the z of the point passed next to them" % name)
                continue
            pts = [gpoint("s1"), gpoint("s2"), gpoint(None)]
            args, k = [], 0
            for i, ty in enumerate(b.rec["inputs"]):
                if i in pw:
                    args.append(W(form({"s2": pw[i]}), cls="z"))
                else:
                    args.append(pts[k])
                    k += 1
        args = by_sig(b, args)
        R.instance()
        dom, rs = run_fn(F, b, args)
        ok = len(rs) == 1
        desc = None
        if ok:
            v = rs[0][0]
            lv = leaves(v, [])
            ok, ws = uniform(lv)
            desc = sorted({str(dict(w.f)) for w in ws})
            ok = ok and len(ws) >= 4
        errs = sorted(set(dom.errors))
        R.check(ok and not errs, "%s:weight:%s" % (prop, name), "%s: numerator / denominator slots have weights %s; inhomogeneous operations %s" % (name, desc, errs[:3]), b.file_line(), b.rec["path"],
                sample={"fn": name, "slot_weight": desc, "field_ops": dom.ops})
    for role, args in (("tangent_step", [gpoint("s")]), ("chord_step", [gpoint("s"), gpoint(None)])):
        b = one(role)
        if not b:
            continue
        name = b.name
        args = by_sig(b, args)
        R.instance()
        dom, rs = run_fn(F, b, args)
        ok = len(rs) == 1
        desc = None
        if ok:
            lv = leaves(rs[0][0], [])
            ok, ws = uniform(lv)
            desc = sorted({str(dict(w.f)) for w in ws})
            ok = ok and len(ws) == 3
        errs = sorted(set(dom.errors))
        R.check(ok and not errs, "%s:weight:%s" % (prop, name), "%s: coefficient triple has weights %s; inhomogeneous operations %s" % (name, desc, errs[:3]), b.file_line(), b.rec["path"],
                sample={"fn": name, "triple_weight": desc})
    for b in list(roles.twist_frob) + list(getattr(roles, "twist_frob_multi", [])) + list(roles.twist_frob_by):
        name = b.name
        R.instance()
        args = by_sig(b, [gpoint("s")] + ([W(form(), "const")] if b in roles.twist_frob_by else []))
        dom, rs = run_fn(F, b, args)
        ks = []
        for v, _ in rs:
            if isinstance(v, Adt) and v.variant == "Some":
                v = v.fields[0]
            for pt in (v.items if isinstance(v, Tup) else [v]):
                if isinstance(pt, Adt) and pt.name == G:
                    ks.append(is_point_form(pt))
        errs = sorted(set(dom.errors))
        R.check(ks and all(k == {"s": 1} for k in ks) and not errs, "%s:weight:%s" % (prop, name), "%s does not preserve (2s,3s,s): %s %s" % (name, ks, errs[:2]), b.file_line(), b.rec["path"],
                sample={"fn": name, "k": str(ks)})
    return R.finish()
