"""Resolution of accessor calls / field projections to readable component paths (used by the conversion-layer rules)."""
from core.terms import strip
from .shared import type_of_term


class Access:
    """Resolves accessor calls / field projections to a readable component path relative to a function's input."""
    def __init__(self, repo):
        self.repo = repo
        self.F = repo.F
        self._acc = {}

    def field_name(self, ty, idx):
        import re
        m = re.match(r"^([A-Za-z0-9_:]+)", ty or "")
        adt = self.F.adts.get(ty) or (self.F.adts.get(m.group(1)) if m else None)
        if adt and idx < len(adt["variants"][0]["fields"]):
            return adt["variants"][0]["fields"][idx]["name"]
        return str(idx)

    def accessor(self, d):
        """If `d` is an accessor (&Self → component, possibly re-wrapped), its component path (list of names)."""
        if d in self._acc:
            return self._acc[d]
        self._acc[d] = None
        b = self.F.bodies.get(d)
        if b is None or len(b.rec.get("inputs") or []) != 1:
            return None
        rv = self.repo.tb(b).return_value()
        p = self.path(b, rv, allow_param=True)
        if p is not None and p and p[0] == "self":
            self._acc[d] = p[1:]
        return self._acc[d]

    def path(self, body, t, allow_param=False):
        """Component path of a term: ['self', 'c1'] / ['affine(self)', 'x'] …; None if not a pure projection."""
        t = strip(t)
        if t[0] in ("param", "init"):
            l = t[1] if t[0] == "param" else t[1][1]
            return ["self"] if l == 1 else ["arg%d" % l]
        if t[0] == "field":
            base = self.path(body, t[1])
            if base is None:
                return None
            ty = type_of_term(self.F, body, t[1])
            ty = (ty or "").lstrip("&").replace("mut ", "").strip()
            nm = self.field_name(ty, t[2])
            return base if nm == "0" else base + [nm]
        if t[0] == "agg" and isinstance(t[1], str) and t[1].startswith("crate::") and len(t[3]) == 1:
            return self.path(body, t[3][0])      # re-wrapping in a newtype
        if t[0] == "call":
            fk = t[1]
            if fk.name in ("unwrap", "expect") and len(t[2]) >= 1:
                inner = strip(t[2][0])
                if inner[0] == "call" and inner[1].name == "from_jacobian":
                    base = self.path(body, inner[2][0])
                    return None if base is None else ["affine(%s)" % ".".join(base)]
                return self.path(body, inner)
            if fk.name in ("clone", "into", "from", "as_ref", "borrow", "deref") and len(t[2]) == 1 and not fk.d.startswith("crate::fields::fp::<impl core::convert::From"):
                return self.path(body, t[2][0])
            if len(t[2]) == 1:
                acc = self.accessor(fk.d)
                if acc is not None:
                    base = self.path(body, t[2][0])
                    return None if base is None else base + acc
        return None
