"""C18 — profile-dependent sites (DESIGN §4.D, §5 C18): the overflow assertions and debug_assert! blocks that exist only in
the dev-profile MIR, each discharged by interval analysis (constants propagated, loops with literal bounds unrolled,
other loops abstracted soundly), shown failing for an abstract input (violation), or listed with a reason."""
import re
from core.report import Rule
from core.facts import FactsError
from core.terms import strip
from core.absexec import AbsExec, Adt, Tup, Ref, TOP, Frame, deref_value, store_through
from core.sm9 import place_types
from . import shared
from .shared import loc_of

INT_RANGES = {"u8": (0, 2 ** 8 - 1), "u16": (0, 2 ** 16 - 1), "u32": (0, 2 ** 32 - 1), "u64": (0, 2 ** 64 - 1), "usize": (0, 2 ** 64 - 1),
              "u128": (0, 2 ** 128 - 1), "i32": (-2 ** 31, 2 ** 31 - 1), "i64": (-2 ** 63, 2 ** 63 - 1), "isize": (-2 ** 63, 2 ** 63 - 1), "bool": (0, 1)}

# numerical self-checks: their truth is an arithmetic identity, not a shape of the code (DESIGN §5 C18 (iii))
ASSUMED_DEBUG_ASSERTS = {
    "crate::u512::U512::new": "!carry: c1·modulo + c0 < 2^512 whenever c1, c0 < 2^256 (numerical; only reached from divrem's own debug self-check)",
    "crate::u512::U512::divrem": "q·modulo + r == self, the division identity (numerical self-check; condition is side-effect free)",
}
# overflow sites the interval engine cannot bound, with the reason they cannot overflow
ASSUMED_OVERFLOW = {}


class Rng:
    __slots__ = ("lo", "hi")

    def __init__(self, lo, hi):
        self.lo, self.hi = lo, hi

    def __repr__(self):
        return "[%s,%s]" % (self.lo if abs(self.lo) < 10 ** 6 else "2^%d" % self.lo.bit_length(), self.hi if abs(self.hi) < 10 ** 6 else "~2^%d" % self.hi.bit_length())


INT_TYPES = ("u8", "u16", "u32", "u64", "u128", "usize", "i8", "i16", "i32", "i64", "i128", "isize")


def ty_range(ty):
    return INT_RANGES.get((ty or "").strip())


class Iter:
    def __init__(self, items, pos=0, anywhere=False):
        self.items, self.pos = list(items), pos
        self.anywhere = anywhere          # inside an abstracted loop: somewhere in the sequence, not known where


def _join_vals(vals):
    """least upper bound of element values of a finite sequence (integers to a range, pairs component-wise)"""
    vals = [TOP if v is OPAQUE else v for v in vals]
    if not vals:
        return TOP
    if all(isinstance(v, (int, Rng)) and not isinstance(v, bool) for v in vals):
        lo = min(v if isinstance(v, int) else v.lo for v in vals)
        hi = max(v if isinstance(v, int) else v.hi for v in vals)
        return lo if lo == hi else Rng(lo, hi)
    if all(isinstance(v, Tup) and len(v.items) == len(vals[0].items) for v in vals):
        return Tup([_join_vals([v.items[i] for v in vals]) for i in range(len(vals[0].items))])
    return TOP


OPAQUE = ("elem",)


_INT_NAMES = ("u8", "u16", "u32", "u64", "u128", "usize", "i8", "i16", "i32", "i64", "i128", "isize")


def inherits_overflow_checks(fn):
    """(operation, integer type) when the callee is a std arithmetic function marked #[rustc_inherit_overflow_checks] — the operator
    traits on integers called as functions, Iterator::sum / product over integers, integer pow: it panics on overflow exactly when
    the *calling* crate is built with overflow checks, i.e. in a dev profile only.  None otherwise."""
    d = fn.get("def") or ""
    targs = [str(x).lstrip("&").strip() for x in (fn.get("args") or [])]
    ops = {"core::ops::Add::add": "add", "core::ops::Sub::sub": "sub", "core::ops::Mul::mul": "mul", "core::ops::AddAssign::add_assign": "add",
           "core::ops::SubAssign::sub_assign": "sub", "core::ops::MulAssign::mul_assign": "mul"}
    if d in ops and targs and targs[0] in _INT_NAMES:
        return ops[d], targs[0]
    if d in ("core::iter::Iterator::sum", "core::iter::Iterator::product"):
        ty = next((x for x in targs if x in _INT_NAMES), None)
        if ty:
            return d.split("::")[-1], ty
    m = re.match(r"^core::num::<impl (\w+)>::pow$", d)
    if m and m.group(1) in _INT_NAMES:
        return "pow", m.group(1)
    return None


class RangeDomain:
    sound_loops = True

    def __init__(self, F):
        self.F = F
        self.sites = {}       # (fn path, bb) -> {'kind', 'proved': n, 'unknown': n, 'fails': n, 'detail': ...}
        self.notes = []
        self.inherit = {}     # (fn path, bb) of a call into std arithmetic that inherits the caller's overflow checks -> status
        self.panics = {}      # (fn path, bb) of a diverging call the abstract execution reached -> {root}
        self.completed = set()   # roots whose abstract execution ran to the end

    def aggregate(self, ex, adt, variant, ops):
        """observes constructions of the structs whose private fields are being given invariants"""
        watch = getattr(self, "watch_adts", None)
        if watch and adt in watch:
            self.constructed.setdefault(adt, []).append(list(ops))
        return NotImplemented

    def _inherit_call(self, ex, fk, args, term, fr, ih):
        """a std arithmetic function compiled with the *caller's* overflow checks (`<u64 as Add>::add`, `Iterator::sum`, `pow`):
        bounded operands are proved not to overflow, anything else is recorded as an undecided dev-only panic site"""
        op, ty = ih
        rng = ty_range(ty)
        bb = next((i for i, blk in enumerate(fr.body.blocks) if blk["term"] is term), None)
        a = [deref_value(ex, x) for x in args]

        def iv(v):
            if isinstance(v, bool):
                return (int(v), int(v))
            if isinstance(v, int):
                return (v, v)
            if isinstance(v, Rng):
                return (v.lo, v.hi)
            return None
        res = None
        if rng:
            if op in ("add", "sub", "mul") and len(a) == 2 and iv(a[0]) and iv(a[1]):
                (l1, h1), (l2, h2) = iv(a[0]), iv(a[1])
                cands = {"add": (l1 + l2, h1 + h2), "sub": (l1 - h2, h1 - l2), "mul": (min(l1 * l2, l1 * h2, h1 * l2, h1 * h2), max(l1 * l2, l1 * h2, h1 * l2, h1 * h2))}[op]
                res = cands
            elif op in ("sum", "product") and len(a) == 1 and isinstance(a[0], Iter) and all(iv(x) for x in a[0].items[a[0].pos:]):
                items = [iv(x) for x in a[0].items[a[0].pos:]]
                if op == "sum":
                    res = (sum(x[0] for x in items), sum(x[1] for x in items))
                else:
                    lo = hi = 1
                    for x in items:
                        lo, hi = lo * x[0], hi * x[1]
                    res = (lo, hi) if all(x[0] >= 0 for x in items) else None
            elif op == "pow" and len(a) == 2 and iv(a[0]) and iv(a[1]) and iv(a[0])[0] >= 0 and iv(a[1])[1] <= 256:
                res = (iv(a[0])[0] ** iv(a[1])[0], iv(a[0])[1] ** iv(a[1])[1])
        ok = res is not None and rng is not None and rng[0] <= res[0] and res[1] <= rng[1]
        st = self.inherit.setdefault((fr.body.path, bb), {"proved": 0, "unknown": 0, "detail": None})
        if ok:
            st["proved"] += 1
            return self.mk(*res)
        st["unknown"] += 1
        st["detail"] = "%s on %s" % (op, [repr(x)[:30] for x in a])
        return Rng(*rng) if rng else TOP

    def on_closure(self, ex, fr, path, ops):
        """what a closure captured where it was built (used when its body has to be analysed on its own, handed to a library adaptor)"""
        # (a captured reference to an integer local is kept as the value it has at this moment: the local moves on — a loop
        # counter — while every closure built from it saw one value of it)
        snap = []
        for o in ops:
            v = deref_value(ex, o) if isinstance(o, Ref) else o
            if isinstance(o, Ref) and isinstance(v, (int, Rng)) and not isinstance(v, bool):
                hf = Frame(fr.body, [])
                hf.env[0] = v
                snap.append(Ref(hf, 0))
            else:
                snap.append(o)
        self.__dict__.setdefault("closure_envs", {}).setdefault(path, []).append(snap)

    def on_write(self, ex, fr, pl, val):
        """observes stores into the watched private integer fields (field-invariant inference)"""
        watch = getattr(self, "watch", None)
        if not watch:
            return
        last = pl["p"][-1]
        if not (isinstance(last, dict) and "f" in last):
            return
        tys = place_types(fr.body, {"l": pl["l"], "p": pl["p"][:-1]})
        head = (tys[-1] or "").split("<")[0].strip()
        key = (head, last["f"])
        if key in watch:
            if isinstance(val, bool):
                val = int(val)
            if isinstance(val, int):
                lo, hi = val, val
            elif isinstance(val, Rng):
                lo, hi = val.lo, val.hi
            else:
                r = ty_range(last.get("ty") or "")
                lo, hi = r if r else (None, None)
            self.observed.setdefault(key, []).append((lo, hi))

    # ------------------------------------------------------------ helpers
    def iv(self, ex, fr, operand, val):
        """Interval of an operand value; falls back to the operand's static type."""
        if isinstance(val, bool):
            return (int(val), int(val))
        if isinstance(val, int):
            return (val, val)
        if isinstance(val, Rng):
            return (val.lo, val.hi)
        ty = self.operand_type(fr, operand)
        return ty_range(ty)

    def operand_type(self, fr, op):
        if op.get("k") == "const":
            return op.get("ty")
        pl = op.get("place")
        if pl:
            ts = place_types(fr.body, pl)
            t = ts[-1]
            if t.startswith("elem("):
                inner = t[5:-1]
                m = re.match(r"^\[([a-z0-9]+); ", inner.lstrip("&").replace("mut ", "").strip()) or re.match(r"^&?(?:mut )?\[([a-z0-9]+)\]$", inner.strip())
                return m.group(1) if m else None
            return t
        return None

    def mk(self, lo, hi):
        return lo if lo == hi else Rng(lo, hi)

    def variant_index(self, ex, name):
        return {"None": 0, "Some": 1, "Continue": 0, "Break": 1, "Ok": 0, "Err": 1}.get(name)

    def havoc_value(self, ex, ref_ty):
        inner = ref_ty.replace("&mut", "").strip()
        r = ty_range(inner)
        return Rng(*r) if r else TOP

    def havoc(self, ex, fr, l):
        cur = fr.env.get(l)
        if isinstance(cur, Iter):
            # an iterator over a finite known sequence, advanced inside a loop that is analysed abstractly: it stands somewhere in
            # that sequence — whatever it yields next is one of the sequence's elements
            return Iter(cur.items, 0, anywhere=True)
        r = ty_range(fr.body.locals[l]["ty"])
        return Rng(*r) if r else TOP

    # ------------------------------------------------------------ arithmetic on intervals
    def binop_ex(self, ex, fr, rv, a, b):
        op = rv["op"]
        ia, ib = self.iv(ex, fr, rv["a"], a), self.iv(ex, fr, rv["b"], b)
        if ia is None or ib is None:
            return NotImplemented
        if ia[0] == ia[1] and ib[0] == ib[1]:
            v = ex.binop(op, ia[0], ib[0])
            if op.endswith("WithOverflow") and isinstance(v, Tup):
                tr = ty_range(self.operand_type(fr, rv["a"]))
                if tr:
                    v = Tup([v.items[0], not (tr[0] <= v.items[0] <= tr[1])])
            return v
        wo = op.endswith("WithOverflow")
        o = op.replace("WithOverflow", "").replace("Unchecked", "")
        la, ha = ia
        lb, hb = ib
        res = None
        if o == "Add":
            res = (la + lb, ha + hb)
        elif o == "Sub":
            res = (la - hb, ha - lb)
        elif o == "Mul":
            c = [la * lb, la * hb, ha * lb, ha * hb]
            res = (min(c), max(c))
        elif o == "Shr" and lb == hb and lb >= 0:
            res = (la >> lb, ha >> lb)
        elif o == "Shl" and lb >= 0 and hb < 256 and la >= 0:
            res = (la << lb, ha << hb)
        elif o == "BitAnd" and la >= 0 and lb >= 0:
            res = (0, min(ha, hb))
        elif o in ("BitOr", "BitXor") and la >= 0 and lb >= 0:
            res = (0, (1 << max(ha.bit_length(), hb.bit_length())) - 1)
        elif o == "Div" and lb > 0:
            res = (la // hb, ha // lb)
        elif o == "Rem" and lb > 0 and la >= 0:
            res = (0, min(ha, hb - 1))
        elif o in ("Lt", "Le", "Gt", "Ge", "Eq", "Ne"):
            definite = None
            if o == "Lt":
                definite = True if ha < lb else False if la >= hb else None
            elif o == "Le":
                definite = True if ha <= lb else False if la > hb else None
            elif o == "Gt":
                definite = True if la > hb else False if ha <= lb else None
            elif o == "Ge":
                definite = True if la >= hb else False if ha < lb else None
            elif o == "Eq":
                definite = False if (ha < lb or la > hb) else None
            elif o == "Ne":
                definite = True if (ha < lb or la > hb) else None
            if definite is not None:
                return definite
            la_ = self.op_place(rv["a"])
            lb_ = self.op_place(rv["b"])
            return ("cond", "icmp", (o, la_, ia, lb_, ib), False)
        if res is None:
            return NotImplemented
        tr = ty_range(self.operand_type(fr, rv["a"]))
        if wo:
            inside = tr is not None and tr[0] <= res[0] and res[1] <= tr[1]
            outside = tr is not None and (res[1] < tr[0] or res[0] > tr[1])
            val = self.mk(*res) if inside else (Rng(*tr) if tr else TOP)
            return Tup([val, False if inside else True if outside else TOP])
        if tr is not None and not (tr[0] <= res[0] and res[1] <= tr[1]):
            # wrapping semantics of the unchecked form: fall back to the type's range
            return Rng(*tr)
        return self.mk(*res)

    def op_place(self, op):
        if op.get("k") in ("copy", "move"):
            return op["place"]
        return None

    def cast(self, ex, fr, rv, v):
        tgt = ty_range(rv["ty"])
        if tgt is None:
            return v
        src = self.iv(ex, fr, rv["op"], v)
        if src is None:
            return Rng(*tgt)
        if tgt[0] <= src[0] and src[1] <= tgt[1]:
            return self.mk(*src)
        return Rng(*tgt)     # truncating cast

    def refine(self, ex, fr, cond, truth):
        if cond[1] != "icmp":
            return
        o, la_, ia, lb_, ib = cond[2]
        if not truth:
            o = {"Lt": "Ge", "Le": "Gt", "Gt": "Le", "Ge": "Lt", "Eq": "Ne", "Ne": "Eq"}[o]

        def narrow(local, cur, other, rel):
            lo, hi = cur
            if rel == "Lt":
                hi = min(hi, other[1] - 1)
            elif rel == "Le":
                hi = min(hi, other[1])
            elif rel == "Gt":
                lo = max(lo, other[0] + 1)
            elif rel == "Ge":
                lo = max(lo, other[0])
            elif rel == "Eq":
                lo, hi = max(lo, other[0]), min(hi, other[1])
            elif rel == "Ne" and other[0] == other[1]:
                if lo == other[0]:
                    lo += 1
                if hi == other[0]:
                    hi -= 1
            if lo <= hi and local is not None:
                val = self.mk(lo, hi)
                ex.write_place(fr, local, val)
                # copies made just before the comparison (`_5 = copy (*_1).1; _4 = Eq(move _5, …)`): narrow the source too
                if not local["p"]:
                    src = self.copy_source(fr.body, local["l"])
                    if src is not None:
                        ex.write_place(fr, src, val)
        narrow(la_, ia, ib, o)
        narrow(lb_, ib, ia, {"Lt": "Gt", "Le": "Ge", "Gt": "Lt", "Ge": "Le", "Eq": "Eq", "Ne": "Ne"}[o])

    def copy_source(self, body, local):
        cache = getattr(body, "_copysrc", None)
        if cache is None:
            cache = {}
            counts = {}
            for blk in body.blocks:
                for st in blk["stmts"]:
                    if st["k"] == "assign" and not st["place"]["p"]:
                        counts[st["place"]["l"]] = counts.get(st["place"]["l"], 0) + 1
                        rv = st["rv"]
                        if rv["k"] == "use" and rv["op"].get("k") in ("copy", "move") and not any(isinstance(e, dict) and "idx" in e for e in rv["op"]["place"]["p"]):
                            cache[st["place"]["l"]] = rv["op"]["place"]
                t = blk["term"]
                if t["k"] == "call":
                    counts[t["dest"]["l"]] = counts.get(t["dest"]["l"], 0) + 1
            for l in list(cache):
                if counts.get(l, 0) != 1:
                    del cache[l]
            body._copysrc = cache
        return cache.get(local)

    # ------------------------------------------------------------ assertions
    def on_assert(self, ex, fr, bb, term, cond):
        key = (fr.body.rec["path"], bb)
        s0 = self.sites.setdefault(key, {})
        s = s0.setdefault(getattr(self, "root", None), {"kind": term["kind"], "proved": 0, "unknown": 0, "fails": 0, "detail": None, "line": term["span"].get("line"), "file": term["span"].get("file")})
        if isinstance(cond, (bool, int)) and not isinstance(cond, Rng):
            if bool(cond) == bool(term["expected"]):
                s["proved"] += 1
                return True
            s["fails"] += 1
            s["detail"] = "assertion condition is definitely violated for the abstract state reached"
            return False
        s["unknown"] += 1
        if s["detail"] is None:
            ops = [deref_value(ex, ex.operand(fr, o)) for o in term.get("ops", [])]
            s["detail"] = "operands %s" % [repr(o)[:40] for o in ops]
        # execution goes on only where the assertion held: what follows may rely on it (an index that passed its bounds check is
        # below the length, so `pos + 1` after `slice[pos]` cannot overflow)
        if isinstance(cond, tuple) and len(cond) == 4 and cond[0] == "cond" and cond[1] == "icmp":
            try:
                self.refine(ex, fr, cond, bool(term["expected"]) != bool(cond[3]))
            except Exception:
                pass
        return True

    def unknown_len(self, ex):
        return Rng(0, 2 ** 63 - 1)          # no slice is longer than isize::MAX elements

    # ------------------------------------------------------------ calls
    def call(self, ex, fk, args, term, fr):
        n = fk.name
        d = fk.d
        if fr is not None:
            self.__dict__.setdefault("entered", set()).add(fr.body.path)
        ih = inherits_overflow_checks(term.get("fn") or {})
        if ih and fr is not None:
            r = self._inherit_call(ex, fk, args, term, fr, ih)
            if r is not NotImplemented:
                return r
        may_panic = fr is not None and (term.get("target") is None or d.startswith(PANIC_DEFS))
        if fr is not None and not may_panic and n in ("unwrap", "expect", "unwrap_err", "expect_err") and d.startswith(("core::option", "core::result")):
            # reached with a value that is not known to be Some / Ok: the panic inside the library call is reachable
            v0 = deref_value(ex, args[0]) if args else None
            good = ("Some", "Ok") if n in ("unwrap", "expect") else ("Err",)
            may_panic = not (isinstance(v0, Adt) and v0.variant in good)
        if may_panic:
            for i, blk in enumerate(fr.body.blocks):
                if blk["term"] is term:
                    self.panics.setdefault((fr.body.path, i), set()).add(getattr(self, "root", None))
        a = [deref_value(ex, x) for x in args]
        # lossless / checked integer conversions keep the interval (`u128::from(x)`, `usize::try_from(d)`)
        if n in ("from", "into", "try_from", "try_into") and len(a) == 1 and d.startswith("core::convert::num"):
            import re as _re
            mm = _re.search(r"(?:From|TryFrom)<(\w+)> for (\w+)>", d)
            v = a[0]
            if mm and mm.group(2) in INT_TYPES:
                lo, hi = ty_range(mm.group(2))
                if isinstance(v, int):
                    vl, vh = v, v
                elif isinstance(v, Rng):
                    vl, vh = v.lo, v.hi
                else:
                    src = ty_range(mm.group(1))
                    vl, vh = src if src else (lo, hi)
                if n in ("from", "into"):
                    return v if isinstance(v, (int, Rng)) else self.mk(vl, vh)
                if lo <= vl and vh <= hi:
                    return Adt("core::result::Result", "Ok", [v if isinstance(v, (int, Rng)) else self.mk(vl, vh)])
                return TOP
        if n in ("as_ref", "as_mut", "as_slice", "as_mut_slice") and len(a) == 1:
            # the limb slice of a fixed-width integer: its length is part of the type (U256 / BigInt<4> → 4 limbs)
            mm = re.search(r"BigInt<(\d+)>", fk.i)
            nl = int(mm.group(1)) if mm else (4 if "U256" in fk.i else 8 if "U512" in fk.i else None)
            if nl and ("[u64]" in fk.i or mm or "u256" in d or "u512" in d):
                return Tup([Rng(0, 2 ** 64 - 1)] * nl)
        if n in ("enumerate", "take", "skip", "zip", "map", "rev") and a:
            # literal ranges used directly as iterators
            a = [Iter(range(x.fields[0], x.fields[1])) if isinstance(x, Adt) and x.name.endswith("ops::Range") and len(x.fields) == 2 and all(isinstance(y, int) for y in x.fields) else x for x in a]
        if n in ("into_iter", "rev") and len(a) == 1 and isinstance(a[0], Adt) and a[0].name.endswith("ops::Range") and len(a[0].fields) == 2 \
                and isinstance(a[0].fields[0], (int, Rng)) and isinstance(a[0].fields[1], (int, Rng)) and not all(isinstance(x, int) for x in a[0].fields):
            # a range whose bounds are themselves only known as intervals (`0..bits`): whatever it yields lies between them
            lo = a[0].fields[0] if isinstance(a[0].fields[0], int) else a[0].fields[0].lo
            hi = a[0].fields[1] if isinstance(a[0].fields[1], int) else a[0].fields[1].hi
            return Iter([lo if lo == hi - 1 else Rng(lo, hi - 1)] if hi > lo else [], 0, anywhere=True)
        if n in ("into_iter", "rev") and len(a) == 1 and isinstance(a[0], Iter) and a[0].anywhere:
            return a[0]
        if n in ("into_iter",) and len(a) == 1:
            if isinstance(a[0], Iter):
                return a[0]
            if isinstance(a[0], Adt) and a[0].name.endswith("ops::Range") and all(isinstance(x, int) for x in a[0].fields):
                return Iter(range(a[0].fields[0], a[0].fields[1]))
            return TOP
        if n == "rev" and len(a) == 1:
            if isinstance(a[0], Adt) and a[0].name.endswith("ops::Range") and all(isinstance(x, int) for x in a[0].fields):
                return Iter(reversed(range(a[0].fields[0], a[0].fields[1])))
            if isinstance(a[0], Iter):
                return Iter(reversed(a[0].items[a[0].pos:]))
            return TOP
        if n in ("iter", "iter_mut") and len(a) == 1:
            if isinstance(a[0], Tup) and n == "iter" and a[0].items and all(isinstance(x, Adt) and isinstance(x.variant, str) and x.name in self.F.adts for x in a[0].items):
                return Iter(list(a[0].items))          # a literal table of a crate-local enum: its entries as they are (the interpreter loop over it runs out)
            if isinstance(a[0], Tup) and n == "iter" and a[0].items and all(isinstance(x, (int, Rng)) and not isinstance(x, bool) for x in a[0].items):
                return Iter(list(a[0].items))          # integers (limbs): the elements with the ranges they have
            if isinstance(a[0], Tup):
                return Iter([OPAQUE] * len(a[0].items))
            L = self.slice_len(ex, fr, args[0], term, 0)
            return Iter([OPAQUE] * L) if isinstance(L, int) else TOP
        if n == "enumerate" and len(a) == 1 and isinstance(a[0], Iter):
            return Iter([Tup([i, x]) for i, x in enumerate(a[0].items[a[0].pos:])])
        if n == "take" and len(a) == 2 and isinstance(a[0], Iter) and isinstance(a[1], int):
            return Iter(a[0].items[a[0].pos:][:a[1]])
        if n == "skip" and len(a) == 2 and isinstance(a[0], Iter) and isinstance(a[1], int):
            return Iter(a[0].items[a[0].pos:][a[1]:])
        if n == "zip" and len(a) == 2 and isinstance(a[0], Iter) and isinstance(a[1], Iter):
            return Iter([Tup([x, y]) for x, y in zip(a[0].items[a[0].pos:], a[1].items[a[1].pos:])])
        if n == "flat_map" and len(a) == 2 and isinstance(a[0], Iter) and isinstance(a[1], Adt) and a[1].name.startswith("closure:"):
            # the closure is run on every element of the literal iteration space (what it yields is not tracked)
            cb = self.F.bodies.get(a[1].name[len("closure:"):])
            if cb is not None:
                for x in a[0].items[a[0].pos:]:
                    sub = AbsExec(self.F, self, inline=ex.inline)
                    sub.depth = getattr(ex, "depth", 0) + 1
                    sub.run(cb, [a[1], TOP if x is OPAQUE else x])
            return TOP
        if n == "map" and len(a) == 2 and isinstance(a[0], Iter) and isinstance(a[1], Adt) and a[1].name.startswith("closure:"):
            cb = self.F.bodies.get(a[1].name[len("closure:"):])
            if cb is not None:
                out = []
                for x in a[0].items[a[0].pos:]:
                    sub = AbsExec(self.F, self, inline=ex.inline)
                    sub.depth = getattr(ex, "depth", 0) + 1
                    rs = sub.run(cb, [a[1], x])
                    out.append(rs[0][0] if len(rs) == 1 else TOP)
                return Iter(out)
            return TOP
        if n in ("fold", "for_each") and len(a) == (3 if n == "fold" else 2) and isinstance(a[0], Iter) and isinstance(a[-1], Adt) and a[-1].name.startswith("closure:"):
            # the closure is run once per element of a sequence of known length, the accumulator threaded through
            cb = self.F.bodies.get(a[-1].name[len("closure:"):])
            if cb is not None:
                acc = a[1] if n == "fold" else None
                for x in a[0].items[a[0].pos:]:
                    sub = AbsExec(self.F, self, inline=ex.inline)
                    sub.depth = getattr(ex, "depth", 0) + 1
                    x = TOP if x is OPAQUE else x
                    rs = sub.run(cb, [a[-1], acc, x] if n == "fold" else [a[-1], x])
                    acc = rs[0][0] if len(rs) == 1 else TOP
                return acc if n == "fold" else Tup([])
        if n == "next" and len(a) == 1 and isinstance(a[0], Iter) and a[0].anywhere:
            if not a[0].items:
                return Adt("core::option::Option", "None", [])
            return Adt("core::option::Option", ("?", ("next?", fr.body.path, term["span"].get("line")), {0: "None", 1: "Some"}), [_join_vals(a[0].items)])
        if n == "next" and len(a) == 1 and isinstance(a[0], Iter):
            it = a[0]
            if it.pos < len(it.items):
                v = it.items[it.pos]
                store_through(ex, args[0], Iter(it.items, it.pos + 1))
                return Adt("core::option::Option", "Some", [TOP if v is OPAQUE else v])
            return Adt("core::option::Option", "None", [])
        if n == "to_digit" and d.startswith("core::char") and len(a) == 2:
            # char::to_digit(radix): None, or Some(v) with v < radix (radix ≤ 36 or the call panics itself — counted as a library precondition)
            hi = a[1] - 1 if isinstance(a[1], int) and 1 <= a[1] <= 36 else 35
            return Adt("core::option::Option", ("?", ("digit?", fr.body.path, term["span"].get("line")), {0: "None", 1: "Some"}), [Rng(0, hi)])
        if n == "branch" and fk.get("trait") == "core::ops::Try" and len(a) == 1 and isinstance(a[0], Adt) and a[0].name == "core::option::Option" and a[0].variant is not None:
            v = a[0]
            if isinstance(v.variant, tuple):
                return Adt("core::ops::ControlFlow", ("?", v.variant[1], {0: "Some", 1: "None"}), list(v.fields))
            return Adt("core::ops::ControlFlow", "Continue" if v.variant == "Some" else "Break", list(v.fields))
        if n in ("position", "rposition") and len(a) == 2 and isinstance(a[0], Iter):
            # index of an element of a sequence of known length: None, or Some(i) with i below that length
            L = len(a[0].items) - a[0].pos
            if L <= 0:
                return Adt("core::option::Option", "None", [])
            return Adt("core::option::Option", ("?", ("position?", fr.body.path, term["span"].get("line")), {0: "None", 1: "Some"}), [self.mk(0, L - 1)])
        if n in ("leading_zeros", "trailing_zeros", "count_ones", "count_zeros") and len(a) == 1 and not isinstance(a[0], int) and d.startswith("core::num"):
            return Rng(0, 128 if "u128" in fk.i else 64 if ("u64" in fk.i or "usize" in fk.i) else 32 if "u32" in fk.i else 16 if "u16" in fk.i else 8 if "u8" in fk.i else 128)
        if n == "leading_zeros" and len(a) == 1 and isinstance(a[0], int):
            return (128 if "u128" in fk.i else 64 if "u64" in fk.i else 32) - a[0].bit_length()
        if "alloc::vec::Vec" in d or "alloc::vec::Vec" in fk.i:
            if n in ("new", "with_capacity") and (not a or n == "with_capacity"):
                return Tup([])
            if n == "push" and len(a) == 2 and isinstance(a[0], Tup) and isinstance(args[0], Ref):
                store_through(ex, args[0], Tup(list(a[0].items) + [a[1] if isinstance(a[1], (int, Rng)) else TOP]))
                return Tup([])
        if n == "index" and len(a) == 2 and isinstance(a[0], Tup) and isinstance(a[1], Adt) and "ops::range::Range" in a[1].name.replace("ops::Range", "ops::range::Range"):
            # a sub-slice by a literal range: only its length matters here
            L = len(a[0].items)
            nm = a[1].name.split("::")[-1]
            f = [x for x in a[1].fields]
            lo, hi = None, None
            if nm == "Range" and len(f) == 2:
                lo, hi = f
            elif nm == "RangeTo" and len(f) == 1:
                lo, hi = 0, f[0]
            elif nm == "RangeFrom" and len(f) == 1:
                lo, hi = f[0], L
            elif nm == "RangeFull":
                lo, hi = 0, L
            elif nm == "RangeToInclusive" and len(f) == 1 and isinstance(f[0], int):
                lo, hi = 0, f[0] + 1
            if isinstance(lo, int) and isinstance(hi, int) and 0 <= lo <= hi <= L:
                return Tup(list(a[0].items[lo:hi]))
        if n == "collect" and len(a) == 1 and isinstance(a[0], Iter):
            return Tup([TOP if x is OPAQUE else x for x in a[0].items[a[0].pos:]])
        if n == "len" and len(a) == 1 and isinstance(a[0], Tup) and ("alloc::vec" in d or "slice" in d or "array" in d):
            return len(a[0].items)
        if n == "len" and "slice" in d and len(a) == 1:
            L = self.slice_len(ex, fr, args[0], term, 0)
            return L if L is not None else Rng(0, 2 ** 63)
        if n in ("wrapping_mul", "wrapping_sub", "wrapping_add") and len(a) == 2:
            r = ty_range((fk.get("impl_self") or "").strip()) or ty_range(fr.body.locals[term["dest"]["l"]]["ty"])
            return Rng(*r) if r else TOP
        if n in ("unwrap", "expect") and a and isinstance(a[0], Adt) and a[0].variant == "Some":
            return a[0].fields[0]
        if n in ("as_ref", "as_mut") and len(a) == 1:
            # limb slices of the big integers: length is the type's limb count
            m = re.search(r"BigInt<(\d+)>", fk.i)
            if m:
                return Tup([TOP] * int(m.group(1)))
            for ap, k in (("crate::u256::U256", 4), ("crate::u512::U512", 8)):
                if ap in fk.i and "[u64]" in fk.i:
                    adt = self.F.adts.get(ap)
                    fty = adt["variants"][0]["fields"][0]["ty"] if adt else ""
                    mm = re.search(r"BigInt<(\d+)>", fty)
                    if mm:
                        return Tup([TOP] * int(mm.group(1)))
        # an integer-valued crate function that is not analysed in place (it takes more than integers): the range of what it can
        # return for any input — its body run once on type-shaped unknowns, the returned integers joined
        cb = self.F.bodies.get(d)
        if cb is not None and fr is not None and cb.rec["kind"] in ("Fn", "AssocFn") and ty_range((cb.rec.get("output") or "").strip()) and (cb.rec.get("output") or "").strip() != "bool" \
                and not ex.inline(d) and not any("&mut" in (x or "") for x in (cb.rec.get("inputs") or [])) and not cb.rec.get("requires_mono"):
            r = self.return_range(cb)
            if r is not None:
                return r
        return NotImplemented

    def return_range(self, cb):
        cache = self.__dict__.setdefault("_ret_ranges", {})
        p = cb.rec["path"]
        if p in cache:
            return cache[p]
        cache[p] = None          # (recursion: unknown)
        try:
            from .roles import int_helper_paths
            ih = int_helper_paths(self.F)
            sub_dom = RangeDomain(self.F)
            sub_dom.root = p
            sub = AbsExec(self.F, sub_dom, inline=lambda d: d in ih, max_steps=200000, max_paths=2000)
            args = []
            for ty in cb.rec.get("inputs") or []:
                ty = ty.strip()
                r = ty_range(ty)
                if r:
                    args.append(Rng(*r))
                elif ty.startswith("&"):
                    hf = Frame(cb, [])
                    hf.env[0] = shape_value(self.F, ty.lstrip("&").strip())
                    args.append(Ref(hf, 0))
                else:
                    args.append(shape_value(self.F, ty))
            rs = sub.run(cb, args)
            vals = [v for v, _ in rs]
            if vals and all(isinstance(v, (int, Rng)) and not isinstance(v, bool) for v in vals):
                lo = min(v if isinstance(v, int) else v.lo for v in vals)
                hi = max(v if isinstance(v, int) else v.hi for v in vals)
                tr = ty_range((cb.rec.get("output") or "").strip())
                if tr[0] <= lo and hi <= tr[1]:
                    cache[p] = lo if lo == hi else Rng(lo, hi)
        except Exception:
            cache[p] = None
        return cache[p]

    def slice_len(self, ex, fr, arg, term, i):
        v = deref_value(ex, arg)
        if isinstance(v, Tup):
            return len(v.items)
        op = term["args"][i]
        ty = self.operand_type(fr, op) or ""
        m = re.search(r"\[[a-z0-9]+; (\d+)\]", ty)
        if m:
            return int(m.group(1))
        return None

    def const(self, ex, op):
        if "uneval_def" in op and "promoted" not in op and op["uneval_def"] in self.F.consts:
            c = self.F.consts[op["uneval_def"]]
            if "int" in c:
                return int(c["int"])
            if "bytes_hex" in c:
                if re.fullmatch(r"\[u8; \d+\]", (op.get("ty") or c.get("ty") or "").strip()):
                    return Tup(list(bytes.fromhex(c["bytes_hex"])))
                from core.bytex import shape_bytes, Tup as _BT
                sv = shape_bytes((op.get("ty") or "").strip(), bytes.fromhex(c["bytes_hex"]))
                if isinstance(sv, _BT) and all(isinstance(x, int) for x in sv):
                    return Tup(list(sv))          # a table of wider integers (masks, …), element by element
                # any other table: its elements as rustc evaluated them, when the fact file has them (one entry per element, not
                # per byte); the interval analysis needs the length and the integer payloads
                tree = self.F.const_tree(op["uneval_def"])
                if isinstance(tree, tuple) and tree and tree[0] == "list":
                    from core.absexec import _tree_value
                    return _tree_value(tree)
                return TOP
        if "promoted" in op:
            # `&CONST` promoted to a static: evaluate its (argument-free, literal) body once and hand out a reference to the value
            key = (op.get("uneval_def"), op["promoted"])
            cache = self.__dict__.setdefault("_promoted", {})
            if key not in cache:
                cache[key] = TOP
                pb = self.F.promoted.get(key)
                if pb is not None and len(pb.blocks) <= 4:
                    try:
                        sub = AbsExec(self.F, self, max_steps=2000, max_paths=4)
                        rs = sub.run(pb, [])
                        if len(rs) == 1:
                            v = rs[0][0]
                            if isinstance(v, Ref):
                                v = deref_value(sub, v)
                            if (isinstance(v, (int, Rng)) and not isinstance(v, bool)) or (isinstance(v, Tup) and len(v.items) <= 4096):
                                cache[key] = v
                    except Exception:
                        pass
            v = cache[key]
            if v is not TOP and (op.get("ty") or "").startswith("&"):
                hf = Frame(self.F.promoted[key], [])
                hf.env[0] = v
                return Ref(hf, 0)
        return TOP


def compile_time_only(F):
    """crate-private functions that are called from const / static initialisers only: they run inside rustc, where an overflow or a
    failed assertion is a compile error for every profile alike — nothing of theirs can differ between a dev and a release build"""
    if getattr(F, "_ct_only", None) is not None:
        return F._ct_only
    rt_callers, ct_callers = {}, {}
    for rec in F.raw["bodies"]:          # (the raw list: several `const _` items share one path)
        p = rec["path"]
        tgt = rt_callers if rec["kind"] in ("Fn", "AssocFn", "Closure") else ct_callers
        for blk in (rec.get("mir") or {}).get("blocks") or []:
            t = blk["term"]
            if t["k"] == "call" and t.get("fn"):
                d = t["fn"].get("res_def") or t["fn"].get("def")
                if d in F.bodies:
                    tgt.setdefault(d, set()).add(p)
    out = set()
    changed = True
    while changed:
        changed = False
        for p, b in F.bodies.items():
            if p in out or b.rec["kind"] not in ("Fn", "AssocFn") or F.is_exported(p):
                continue
            rts = {c for c in rt_callers.get(p, ()) if c.split("::{closure")[0] not in out}
            if not rts and (ct_callers.get(p) or any(c.split("::{closure")[0] in out for c in rt_callers.get(p, ()))):
                out.add(p)
                changed = True
    F._ct_only = out
    return out


def profile_sites(Fd, Fr):
    """Assertion terminators / debug_assert panics present in the dev MIR and absent from the release MIR."""
    out = []
    ct = compile_time_only(Fd)
    for p, b in Fd.bodies.items():
        if b.rec["kind"] not in ("Fn", "AssocFn", "Closure"):
            continue
        if p.split("::{closure")[0] in ct:
            continue
        rb = Fr.bodies.get(p)
        rel_kinds = {}
        if rb is not None:
            for i in rb.reachable():
                t = rb.blocks[i]["term"]
                if t["k"] == "assert":
                    rel_kinds[t["kind"]] = rel_kinds.get(t["kind"], 0) + 1
        dev_by_kind = {}
        for i in sorted(b.reachable()):
            t = b.blocks[i]["term"]
            if t["k"] == "assert":
                dev_by_kind.setdefault(t["kind"], []).append(i)
        for kind, bbs in dev_by_kind.items():
            extra = len(bbs) - rel_kinds.get(kind, 0)
            if extra > 0:
                if rel_kinds.get(kind, 0) == 0:
                    for bb in bbs:
                        out.append(("assert", p, bb, kind))
                else:
                    # same kind exists in release too (e.g. BoundsCheck): cannot attribute — count conservatively as all
                    for bb in bbs:
                        out.append(("assert", p, bb, kind))
        for i in sorted(b.reachable()):
            t = b.blocks[i]["term"]
            if t["k"] == "call" and any("debug_assert" in m for m in (t["span"].get("macros") or [])):
                d = (t.get("fn") or {}).get("def") or ""
                if d.startswith("core::panicking"):
                    out.append(("debug_assert", p, i, d))
    return out


def analyse_asserts(F, asserts, live=None):
    """Interval abstract execution of every function holding one of the given assertion sites, with ⊤ inputs. A function that
    cannot be discharged on its own and cannot be called from outside the crate is analysed again inside each of its
    (transitive) callers, iterated to a fixed point. → (contexts(p, bb) -> {root: status}, callers, deferred, #roots, own_root)"""
    dom = RangeDomain(F)
    fns = sorted({s[1] for s in asserts})
    done = set()
    from .roles import int_helper_paths
    int_fns = int_helper_paths(F)       # integer-in / integer-out helpers are always analysed inside their callers as well

    def own_root(p):
        b = F.bodies[p]
        if b.rec["kind"] == "Closure":
            parent = p.split("::{closure")[0]
            return parent if parent in F.bodies else p
        return p
    for p in fns:
        r = own_root(p)
        if r not in done:
            done.add(r)
            run_top(F, dom, F.bodies[r], lambda d: d in int_fns)
    # a closure handed to a library adaptor (try_fold, map_or, …) is not executed inside its parent: analyse its body on its own,
    # captured values and arguments unknown (a sound over-approximation of every call the adaptor can make)
    for p in fns:
        if own_root(p) != p and not any(own_root(p) in (dom.sites.get((q, bb)) or {}) for (_k, q, bb, _w) in asserts if q == p):
            run_top(F, dom, F.bodies[p], lambda d: d in int_fns)
    callers = {}
    ct_only = compile_time_only(F)
    for b in F.fn_bodies():
        if live is not None and own_root(b.rec["path"]) not in live:
            continue          # a caller that the entry points cannot reach contributes no context
        if own_root(b.rec["path"]) in ct_only:
            continue          # a caller that runs inside rustc only: an overflow there is a compile error in every profile alike
        for _, t in b.calls():
            d = (t.get("fn") or {}).get("res_def")
            if d in F.bodies:
                callers.setdefault(d, set()).add(own_root(b.rec["path"]))
                if b.rec["kind"] == "Closure":
                    callers[d].add(b.rec["path"])        # the closure body is a context of its own (captured values unknown)
    deferred = set()

    def contexts(p, bb):
        """the analysis results that count for a site: its own function analysed alone, or — for a deferred helper — every
        non-deferred function it was analysed inside"""
        byroot = dom.sites.get((p, bb)) or {}
        r = own_root(p)
        if r not in deferred:
            if r not in byroot and p != r and p in byroot:
                return {p: byroot[p]}
            return {r: byroot[r]} if r in byroot else {}
        out = {root: st for root, st in byroot.items() if root not in deferred and (live is None or own_root(root) in live)}
        # a closure analysed on its own (captured values unknown) adds nothing when the function that builds and runs it
        # reached the site with the captured values known
        for root in list(out):
            if "::{closure" in root and own_root(root) in out and own_root(root) != root:
                del out[root]
        return out

    def can_defer(r):
        return not F.is_exported(r) and bool(callers.get(r)) and F.bodies[r].rec["kind"] != "Closure"
    roots = set()
    for _round in range(8):
        changed = False
        for kind, p, bb, what in asserts:
            for root, st in contexts(p, bb).items():
                if (st["fails"] or st["unknown"]) and root not in deferred and can_defer(root):
                    deferred.add(root)
                    changed = True
        if not changed:
            break
        roots = set()
        for p in deferred:
            todo, seen = list(callers.get(p, ())), set()
            while todo:
                c = todo.pop()
                if c in seen:
                    continue
                seen.add(c)
                if c in deferred:
                    todo.extend(callers.get(c, ()))
                else:
                    roots.add(c)
        for c in sorted(roots):
            for key, byroot in dom.sites.items():
                byroot.pop(c, None)
            run_top(F, dom, F.bodies[c], lambda d: d in deferred or d in int_fns)
    return contexts, callers, deferred, len(roots), own_root


PANIC_DEFS = ("core::panicking", "core::option::unwrap_failed", "core::option::expect_failed", "core::result::unwrap_failed", "core::slice::index::slice_", "core::panic",
              "std::rt::begin_panic", "core::str::slice_error_fail")


def folded_reachable(b):
    """blocks reachable from the entry when branches on literal conditions (`if cfg!(debug_assertions)`, the residue of
    debug_assert! in an unoptimised release MIR) are followed on their taken side only"""
    consts = {}
    assigned = {}
    for blk in b.blocks:
        for st in blk["stmts"]:
            if st["k"] == "assign" and not st["place"]["p"]:
                l = st["place"]["l"]
                assigned[l] = assigned.get(l, 0) + 1
                rv = st["rv"]
                if rv["k"] == "use" and rv["op"].get("k") == "const" and "int" in rv["op"]:
                    consts[l] = int(rv["op"]["int"])
        t = blk["term"]
        if t["k"] == "call" and t.get("dest") and not t["dest"]["p"]:
            assigned[t["dest"]["l"]] = assigned.get(t["dest"]["l"], 0) + 1
    consts = {l: v for l, v in consts.items() if assigned.get(l) == 1}
    seen, todo = set(), [0]
    succ = b.succ()
    while todo:
        x = todo.pop()
        if x in seen:
            continue
        seen.add(x)
        t = b.blocks[x]["term"]
        if t["k"] == "switch":
            d = t["discr"]
            v = None
            if d.get("k") == "const" and "int" in d:
                v = int(d["int"])
            elif d.get("k") in ("copy", "move") and not d["place"]["p"] and d["place"]["l"] in consts:
                v = consts[d["place"]["l"]]
            if v is not None:
                nxt = t["otherwise"]
                for val, tg in t["arms"]:
                    if int(val) == v:
                        nxt = tg
                todo.append(nxt)
                continue
        todo.extend(succ[x])
    return seen


_INT_RANGE = {"u8": (0, 2 ** 8 - 1), "u16": (0, 2 ** 16 - 1), "u32": (0, 2 ** 32 - 1), "u64": (0, 2 ** 64 - 1), "u128": (0, 2 ** 128 - 1), "usize": (0, 2 ** 64 - 1),
              "i8": (-2 ** 7, 2 ** 7 - 1), "i16": (-2 ** 15, 2 ** 15 - 1), "i32": (-2 ** 31, 2 ** 31 - 1), "i64": (-2 ** 63, 2 ** 63 - 1), "i128": (-2 ** 127, 2 ** 127 - 1),
              "isize": (-2 ** 63, 2 ** 63 - 1)}


def lossless_conversion_unwrap(b, bb):
    """`T::try_from(x).unwrap()` / `x.try_into().unwrap()` between integer types where every value of the source type is a value of
    the destination type on the analysed target (64-bit usize: the facts are those of this build): the Result is always Ok"""
    t = b.blocks[bb]["term"]
    if not t.get("args") or t["args"][0].get("k") not in ("copy", "move") or t["args"][0]["place"]["p"]:
        return False
    L = t["args"][0]["place"]["l"]
    for _ in range(4):
        defs = []
        for blk in b.blocks:
            for st in blk["stmts"]:
                if st["k"] == "assign" and st["place"] == {"l": L, "p": []}:
                    defs.append(("st", st["rv"]))
            t2 = blk["term"]
            if t2["k"] == "call" and t2.get("dest") == {"l": L, "p": []}:
                defs.append(("call", t2))
        if len(defs) != 1:
            return False
        kind, x = defs[0]
        if kind == "st":
            if x["k"] == "use" and x["op"].get("k") in ("copy", "move") and not x["op"]["place"]["p"]:
                L = x["op"]["place"]["l"]
                continue
            return False
        fn = x.get("fn") or {}
        ta = fn.get("args") or []
        if fn.get("trait") == "core::convert::TryFrom" and fn.get("name") == "try_from" and len(ta) == 2:
            dst, src = ta
        elif fn.get("trait") == "core::convert::TryInto" and fn.get("name") == "try_into" and len(ta) == 2:
            src, dst = ta
        else:
            return False
        if src in _INT_RANGE and dst in _INT_RANGE:
            return _INT_RANGE[dst][0] <= _INT_RANGE[src][0] and _INT_RANGE[src][1] <= _INT_RANGE[dst][1]
        return False
    return False


def guarded_unwrap(repo, b, bb):
    """`x.unwrap()` (possibly through as_ref / as_mut) where every path to it comes over the true edge of `x.is_some()` /
    `x.is_ok()` on the same variable, with no write to that variable in between: cannot panic"""
    def local_behind(op, at_bb, depth=0):
        """the user variable a by-reference operand designates: follows `tmp = &(mut) L` and `tmp = as_ref/as_mut(&L)`"""
        if depth > 6 or op.get("k") not in ("copy", "move") or op["place"]["p"]:
            return None
        tmp = op["place"]["l"]
        for bi2, blk in enumerate(b.blocks):
            for st in blk["stmts"]:
                if st["k"] == "assign" and st["place"] == {"l": tmp, "p": []}:
                    rv = st["rv"]
                    if rv["k"] in ("ref", "rawptr") and not rv["place"]["p"]:
                        return rv["place"]["l"]
                    if rv["k"] == "use":
                        return local_behind(rv["op"], bi2, depth + 1)
            t2 = blk["term"]
            if t2["k"] == "call" and t2.get("dest") == {"l": tmp, "p": []} and (t2.get("fn") or {}).get("name") in ("as_ref", "as_mut", "as_deref") and t2["args"]:
                return local_behind(t2["args"][0], bi2, depth + 1)
        return tmp
    t = b.blocks[bb]["term"]
    if not t.get("args"):
        return False
    L = local_behind(t["args"][0], bb)
    if L is None:
        return False
    writers = set()
    for bi2, blk in enumerate(b.blocks):
        for st in blk["stmts"]:
            if st["k"] == "assign" and st["place"]["l"] == L:
                writers.add(bi2)
        t2 = blk["term"]
        if t2["k"] == "call":
            if t2.get("dest") and t2["dest"]["l"] == L:
                writers.add(bi2)
            nm = (t2.get("fn") or {}).get("name")
            if nm not in ("as_ref", "as_mut", "as_deref", "is_some", "is_none", "is_ok", "is_err", "unwrap", "expect"):
                for a0 in t2["args"]:
                    if a0.get("k") in ("copy", "move") and not a0["place"]["p"] and b.locals[a0["place"]["l"]]["ty"].startswith("&mut") and local_behind(a0, bi2) == L:
                        writers.add(bi2)
    for bi in sorted(b.reachable()):
        tg = b.blocks[bi]["term"]
        if tg["k"] != "switch":
            continue
        d = tg["discr"]
        if d.get("k") not in ("copy", "move") or d["place"]["p"]:
            continue
        # the discriminant local must be the result of is_some(&L) (optionally negated) computed in a dominating block
        dl = d["place"]["l"]
        neg = False
        src = None
        for _ in range(3):
            found = False
            for bi2, blk in enumerate(b.blocks):
                for st in blk["stmts"]:
                    if st["k"] == "assign" and st["place"] == {"l": dl, "p": []} and st["rv"]["k"] == "unop" and st["rv"]["op"] == "Not" and st["rv"]["a"].get("k") in ("copy", "move"):
                        dl = st["rv"]["a"]["place"]["l"]
                        neg = not neg
                        found = True
                t2 = blk["term"]
                if t2["k"] == "call" and t2.get("dest") == {"l": dl, "p": []}:
                    src = (bi2, t2)
            if not found:
                break
        if src is None:
            continue
        nm = (src[1].get("fn") or {}).get("name")
        if nm not in ("is_some", "is_ok", "is_none", "is_err") or not src[1]["args"] or local_behind(src[1]["args"][0], src[0]) != L:
            continue
        want = 1 if nm in ("is_some", "is_ok") else 0
        if neg:
            want = 1 - want
        tgt = tg["otherwise"]
        for val, tgx in tg["arms"]:
            if int(val) == want:
                tgt = tgx
        if not (b.pred()[tgt] == [bi] and b.dominates(tgt, bb)):
            continue
        r1 = b.reach_from(tgt, avoid={bi})
        if any(w in r1 and bb in b.reach_from(w, avoid={bi}) and w != bb for w in writers):
            continue
        return True
    return False


def nonzero_inverse_unwrap(repo, b, bb):
    """`x.inverse().unwrap()` where, on every path of the function that reaches the call, `x.is_zero()` (or `x == zero()`) was
    answered false for that same value: a field inverse is None only for zero (R-INV-NONE for Fp; the towers' inverses are the
    base inverse of the norm, assumed to share the contract), so the Option is Some."""
    from core import paths
    F = repo.F
    t = b.blocks[bb]["term"]
    if not t.get("args"):
        return False
    try:
        tb = repo.tb(b)
        v = strip(tb.operand(t["args"][0], bb, len(b.blocks[bb]["stmts"])))
    except Exception:
        return False
    if v[0] != "call" or v[1].name != "inverse" or len(v[2]) != 1 or not (v[1].get("res_def") or v[1].d or "").startswith(("crate::", "<crate::")):
        return False
    x = strip(v[2][0])
    try:
        atoms = paths.collect_atoms(b, tb)
    except Exception:
        return False
    if len(atoms) > 9:
        return False

    def nonzero(asg):
        for a, val in asg.items():
            if a[0] == "bool" and isinstance(a[1], tuple) and a[1][0] == "call" and a[1][1].name == "is_zero" and len(a[1][2]) == 1 and strip(a[1][2][0]) == x:
                return val == 0
            if a[0] == "ord":
                for p, q in ((a[1], a[2]), (a[2], a[1])):
                    q = strip(q)
                    if strip(p) == x and q[0] == "call" and not q[2] and q[1].name == "zero":
                        return val != "E"
        return False
    reached = False
    for asg in paths.enumerate_assignments(atoms):
        res = paths.simulate(b, tb, paths.Evaluator(asg))
        if bb not in res.blocks:
            continue
        reached = True
        if not nonzero(asg):
            return False
    return reached


def rule_nopanic_core(prop, repo_rel, entries, cv_factory, skip=None, assumed_producers=(), include_api=False):
    """No panic site in the arithmetic reached from the given entry points (release MIR): every bounds / overflow / division
    assertion is discharged by interval analysis, and there is no unwrap / expect / panic! outside the conversion layer
    (decided per abstract input by R-TOTAL) and parameterless constant initialisers."""
    repo = repo_rel
    F = repo.F
    R = Rule("R-NOPANIC-CORE", "the field / curve arithmetic reachable from the entry points (monomorphic call graph, release MIR) cannot panic: every assertion terminator "
             "(bounds, overflow, division) is discharged by interval analysis; unwrap / expect / panic! occur only in the conversion layer (R-TOTAL decides those per "
             "abstract input) and in parameterless constant initialisers", floor=10, exhaustive=True)
    cv = cv_factory(repo)
    # monomorphic call graph from the entry points, following only the calls in blocks that survive folding of literal
    # branch conditions (what debug_assert! leaves behind in an unoptimised release MIR is not live)
    seen = set()
    todo = []
    for e in entries:
        if e in F.instances:
            todo.append(e)
        elif e in F.bodies:
            todo.extend(i["inst"] for i in F.inst_by_def.get(e, []))
    fold_cache = {}
    while todo:
        iname = todo.pop()
        if iname in seen:
            continue
        seen.add(iname)
        irec = F.instances.get(iname)
        if not irec or not irec.get("expanded"):
            continue
        if skip and irec.get("def") in F.bodies and skip(irec["def"].split("::{closure")[0]):
            continue          # a module this rule does not look into: neither its sites nor what it calls
        bdef = F.bodies.get(irec.get("def"))
        live_bbs = None
        if bdef is not None:
            if bdef.rec["path"] not in fold_cache:
                fold_cache[bdef.rec["path"]] = folded_reachable(bdef)
            live_bbs = fold_cache[bdef.rec["path"]]
        for c in irec.get("calls", []):
            if "inst" not in c:
                continue
            if live_bbs is not None and c.get("bb") is not None and c["bb"] not in live_bbs:
                continue
            todo.append(c["inst"])
    defs = set()
    for inst in seen:
        i = F.instances.get(inst)
        if i and i.get("def") in F.bodies:
            defs.add(i["def"])
    if len(defs) < 20:
        R.fail_closed("%s:nopanic:reach" % prop, "call-graph reachability from the entry points found only %d local functions" % len(defs))
    def parent_of(d):
        q = d.split("::{closure")[0]
        return q if q in F.bodies else d
    # the conversion layer (what the byte machine analyses in place) is R-TOTAL's; a closure belongs to its function
    core = sorted(d for d in defs if (include_api or not cv.policy(F.bodies[parent_of(d)])) and F.bodies[d].rec["kind"] in ("Fn", "AssocFn", "Closure") and not (skip and skip(parent_of(d))))
    asserts = []
    calls = []
    for d in core:
        b = F.bodies[d]
        for i in sorted(folded_reachable(b)):
            t = b.blocks[i]["term"]
            if t["k"] == "assert":
                asserts.append(("assert", d, i, t["kind"]))
            elif t["k"] == "call":
                dd = (t.get("fn") or {}).get("res_def") or (t.get("fn") or {}).get("def") or ""
                nm = (t.get("fn") or {}).get("name")
                if dd.startswith(PANIC_DEFS) or (nm in ("unwrap", "expect", "unwrap_unchecked", "expect_err", "unwrap_err") and dd.startswith(("core::option", "core::result"))) or \
                        (t["target"] is None and not dd.startswith("core::intrinsics")):
                    calls.append((d, i, dd, t))
    R.note("%d core functions reachable from %d entry points; %d assertion terminators, %d unwrap/expect/panic call sites" % (len(core), len(entries), len(asserts), len(calls)))
    contexts, callers, deferred, nroots, own_root = analyse_asserts(F, asserts, live=defs)
    for kind, d, bb, what in asserts:
        R.instance()
        b = F.bodies[d]
        key = "%s:nopanic:%s#%s@%s" % (prop, d, what, ordinal(b, bb, what))
        sts = list(contexts(d, bb).values())
        if not sts:
            R.violation(key, "fail-closed: %s assertion in %s was never reached by the abstract execution" % (what, d), loc_of(b, bb), d)
            continue
        fails = sum(x["fails"] for x in sts)
        unk = sum(x["unknown"] for x in sts)
        det = next((x["detail"] for x in sts if x["detail"]), None)
        R.check(not fails and not unk, key, "%s assertion in %s %s (%s): a decoder input may panic inside the arithmetic" % (what, d, "fails" if fails else "is not bounded by the interval analysis", det),
                loc_of(b, bb), d, sample={"site": loc_of(b, bb), "fn": d, "kind": what, "proved_visits": sum(x["proved"] for x in sts)} if R.discharged % 10 == 0 else None)
    for d, bb, dd, t in calls:
        R.instance()
        b = F.bodies[d]
        root = own_root(d)
        rb = F.bodies[root]
        nparams = len(rb.rec.get("inputs") or []) if rb.rec.get("inputs") is not None else rb.arg_count
        is_const_init = nparams == 0
        key = "%s:nopanic:%s→%s" % (prop, d, dd.split("<")[0].split("::")[-1] or "panic")
        if assumed_producers and (t.get("fn") or {}).get("name") in ("unwrap", "expect"):
            # the value comes straight out of a function whose None case is a numerical impossibility stated as an assumption
            try:
                v0 = strip(repo.tb(b).operand(t["args"][0], bb, len(b.blocks[bb]["stmts"])))
            except Exception:
                v0 = ("unknown",)
            if v0[0] == "call" and v0[1].d in assumed_producers:
                R.assume(key, assumed_producers[v0[1].d])
                R.ok()
                continue
        if (t.get("fn") or {}).get("name") in ("unwrap", "expect") and lossless_conversion_unwrap(b, bb):
            R.ok(sample={"site": loc_of(b, bb), "fn": d, "accepted_because": "integer conversion whose source range is inside the destination range on this target: always Ok"})
            continue
        if not is_const_init and (t.get("fn") or {}).get("name") in ("unwrap", "expect") and nonzero_inverse_unwrap(repo, b, bb):
            R.ok(sample={"site": loc_of(b, bb), "fn": d, "accepted_because": "inverse of a value that tested non-zero on every path to the call"})
            continue
        if not is_const_init and (t.get("fn") or {}).get("name") in ("unwrap", "expect") and guarded_unwrap(repo, b, bb):
            R.ok(sample={"site": loc_of(b, bb), "fn": d, "accepted_because": "dominated by the true edge of is_some()/is_ok() on the same value"})
            continue
        if not is_const_init and interval_unreachable(F, b, bb):
            R.ok(sample={"site": loc_of(b, bb), "fn": d, "accepted_because": "the interval execution of the function (private integer fields inside their inferred invariants) never reaches this panic"})
            continue
        R.check(is_const_init, key, "%s can panic (%s) and is reachable from the entry points with caller-controlled data" % (d, dd.split("<")[0]), loc_of(b, bb), d,
                sample={"site": loc_of(b, bb), "fn": d, "accepted_because": "parameterless constant initialiser: input-independent, exercised by every use"} if is_const_init else None)
    return R.finish()


def rule_profile_diff(prop, ctx_repo_dev, repo_rel, ls_factory):
    repo = ctx_repo_dev
    F = repo.F
    Frel = repo_rel.F
    R = Rule("R-PROFILE-DIFF", "every assertion that exists only in the dev-profile MIR (integer-overflow checks, debug_assert!) is discharged by interval analysis, or fails for an "
             "exhibited abstract input (violation), or is a listed numerical self-check", floor=25, exhaustive=True)
    sites = profile_sites(F, Frel)
    asserts = [s for s in sites if s[0] == "assert"]
    dbg = [s for s in sites if s[0] == "debug_assert"]
    R.note("dev-only sites: %d overflow-class assertions in %d functions, %d debug_assert! panics" % (len(asserts), len({s[1] for s in asserts}), len(dbg)))
    contexts, callers, deferred, nroots, own_root = analyse_asserts(F, asserts)
    if deferred:
        R.note("context-dependent helpers analysed inside their callers: %s (callers: %d)" % (sorted(deferred), nroots))
    lscache = {}
    for kind, p, bb, what in asserts:
        R.instance()
        b = F.bodies[p]
        key = "%s:overflow:%s#%s@%s" % (prop, p, what, ordinal(b, bb, what))
        if key in ASSUMED_OVERFLOW:
            R.assume(key, ASSUMED_OVERFLOW[key])
            R.ok()
            continue
        sts = list(contexts(p, bb).values())
        if not sts:
            R.violation(key, "fail-closed: dev-only %s assertion in %s was never reached by the abstract execution (cannot be discharged)" % (what, p), loc_of(b, bb), p)
            continue
        s = {"fails": sum(x["fails"] for x in sts), "unknown": sum(x["unknown"] for x in sts), "proved": sum(x["proved"] for x in sts),
             "detail": next((x["detail"] for x in sts if x["detail"]), None)}
        if s["fails"]:
            R.violation(key, "%s in %s fails in debug builds and wraps silently in release: %s" % (what, p, s["detail"]), loc_of(b, bb), p)
        elif s["unknown"] and bytes_discharge(repo, ls_factory, lscache, b, bb, callers):
            R.ok(sample={"site": loc_of(b, bb), "fn": p, "kind": what, "decided_by": "value-set analysis over the complete length partition"})
        elif s["unknown"]:
            R.violation(key, "dev-only %s assertion in %s is not bounded by the interval analysis (%s): debug and release may differ" % (what, p, s["detail"]), loc_of(b, bb), p)
        else:
            R.ok(sample={"site": loc_of(b, bb), "fn": p, "kind": what, "visits_all_safe": s["proved"], "context": "callers" if own_root(p) in deferred else "own"} if R.discharged % 12 == 0 else None)
    # ---- debug_assert! panics
    for kind, p, bb, what in dbg:
        R.instance()
        b = F.bodies[p]
        key = "%s:debug-assert:%s" % (prop, p)
        if p in ASSUMED_DEBUG_ASSERTS:
            # the assumption is only acceptable when evaluating the condition cannot change anything the function goes on to use
            pure = debug_assert_side_effect_free(b)
            R.check(pure, key + ":side-effect", "the debug_assert! condition in %s writes to a variable that is used afterwards: release skips that write" % p, loc_of(b, bb), p,
                    sample={"site": loc_of(b, bb), "fn": p, "assumed": ASSUMED_DEBUG_ASSERTS[p][:80]})
            R.assume(key, ASSUMED_DEBUG_ASSERTS[p])
            continue
        if not debug_assert_side_effect_free(b):
            R.violation(key + ":side-effect", "the debug_assert! condition in %s changes state (it writes a variable or hands out a `&mut`): release builds skip that change" % p, loc_of(b, bb), p)
            continue
        cv = ls_factory(repo)
        sp, kinds = cv.shape(b)
        if b.rec.get("requires_mono") and bytes_discharge(repo, ls_factory, lscache, b, bb, callers, panic_site=True):
            # a const-generic byte helper: decided inside every byte-level function that reaches it (its parameter is fixed there)
            R.ok(sample={"site": loc_of(b, bb), "fn": p, "never_fires": "no abstract input of any byte-level caller ends in the panic"})
            continue
        if sp is not None or any(k.startswith("array") for k in kinds):
            ex = cv.explore(b)
            wit = [(k, o) for k, o in ex.items() if any(pn[1] and pn[1][0] == p and pn[1][1] == bb for pn in o.panics)]
            if wit:
                R.violation(key, "debug_assert! in %s fires for %d abstract input(s), e.g. (len, first byte) = %s: panic in debug, silently continues in release" % (p, len(wit), wit[0][0]), loc_of(b, bb), p)
            else:
                unk = any(o.unknown for o in ex.values())
                R.check(not unk, key, "debug_assert! in %s could not be decided over the abstract input domain" % p, loc_of(b, bb), p, sample={"site": loc_of(b, bb), "never_fires": True})
        else:
            if bytes_discharge(repo, ls_factory, lscache, b, bb, callers, panic_site=True):
                R.ok(sample={"site": loc_of(b, bb), "fn": p, "never_fires": "no abstract input of any byte-level function that reaches this helper ends in the panic"})
                continue
            dead, how = debug_assert_unreachable(repo, b, bb)
            if dead:
                R.ok(sample={"site": loc_of(b, bb), "fn": p, "never_fires": how})
                continue
            R.violation(key, "unclassified debug_assert! in %s: neither decidable over an abstract input domain nor a listed numerical self-check" % p, loc_of(b, bb), p)
    for p in ASSUMED_DEBUG_ASSERTS:
        if not any(s[1] == p for s in dbg):
            R.note("stale assumption: no debug_assert! in %s any more" % p)
    # ---- std arithmetic that inherits this crate's overflow checks (no assertion of its own in our MIR)
    ninh = 0
    for p, b in F.bodies.items():
        if b.rec["kind"] not in ("Fn", "AssocFn", "Closure"):
            continue
        for bb in sorted(b.reachable()):
            t = b.blocks[bb]["term"]
            if t["k"] != "call" or not t.get("fn"):
                continue
            ih = inherits_overflow_checks(t["fn"])
            if not ih:
                continue
            ninh += 1
            R.instance()
            root = p.split("::{closure")[0] if b.rec["kind"] == "Closure" and p.split("::{closure")[0] in F.bodies else p
            dom = RangeDomain(F)
            st = None
            try:
                from .roles import int_helper_paths
                run_top(F, dom, F.bodies[root], lambda d_: d_ in int_helper_paths(F))
                st = dom.inherit.get((p, bb)) if root in dom.completed else None
            except Exception:
                st = None
            ok = bool(st) and st["proved"] > 0 and st["unknown"] == 0
            R.check(ok, "%s:inherited-overflow:%s#%s" % (prop, p, ih[0]), "%s calls %s on %s, which is compiled with the caller's overflow checks: it panics on overflow in a dev build and wraps in "
                    "release, and the operands are not bounded by the interval analysis (%s)" % (p, (t["fn"].get("def") or ""), ih[1], (st or {}).get("detail")), loc_of(b, bb), p,
                    sample={"site": loc_of(b, bb), "fn": p, "op": ih[0], "bounded": True} if ok else None)
    R.note("%d calls into overflow-check-inheriting std arithmetic" % ninh)
    return R.finish()


def interval_unreachable(F, b, bb):
    """the interval execution of the function (for a closure: of the function that builds it) from unknown inputs — private integer
    fields within their inferred invariants — runs to the end and never enters block `bb` of `b` (a diverging call)"""
    p = b.rec["path"]
    root = p.split("::{closure")[0] if b.rec["kind"] == "Closure" and p.split("::{closure")[0] in F.bodies else p
    key = ("_iu", root)
    cache = F.__dict__.setdefault("_interval_runs", {})
    if key not in cache:
        cache[key] = None
        try:
            dom = RangeDomain(F)
            from .roles import int_helper_paths
            int_fns = set(int_helper_paths(F)) | int_param_functions(F)      # callees with integer parameters are analysed in context
            run_top(F, dom, F.bodies[root], lambda d: d in int_fns, max_steps=40000, max_paths=400)      # a reachability question: small budget
            if root in dom.completed:
                cache[key] = (set(dom.panics), set(getattr(dom, "entered", ())) | {root})
        except Exception:
            cache[key] = None
    if cache[key] is None:
        return False
    reached, entered = cache[key]
    # (a closure handed to a library adaptor is not run by its parent's execution: "never reached" would prove nothing)
    return p in entered and (p, bb) not in reached


def debug_assert_unreachable(repo, b, bb):
    """Can the panic of a debug_assert! in a function that is not byte-level be reached?  Two finite deciders, either suffices:
    (i) the byte machine with opaque arguments — every opaque predicate gets one answer per path, helpers of the same file are
    analysed in place — produces no path into the panic (`debug_assert!(!self.is_zero())` below `if self.z.is_zero() { return }`);
    (ii) the interval execution of the function from unknown inputs never reaches the panic call (`debug_assert!(d < 10)` on a
    decimal digit, `limb < 4 && bit < 64` after `n < 256`).  → (decided unreachable, how)"""
    F = repo.F
    p = b.rec["path"]
    # (ii) intervals
    if interval_unreachable(F, b, bb):
        return True, "interval execution from unknown inputs never reaches the panic"
    # (i) opaque predicates, one answer per path
    try:
        from core.bytex import Machine, T as BT, Ref as BRef
        f = (b.rec.get("span") or {}).get("file")
        pol = lambda cb: f is not None and (cb.rec.get("span") or {}).get("file") == f
        ins = b.rec.get("inputs") or []
        args, holders = [], []
        for i, ty in enumerate(ins):
            if ty.strip().startswith("&"):
                holders.append(BT("arg", i + 1))
                args.append(BRef(0, len(holders) - 1))
            else:
                args.append(BT("arg", i + 1))
        insts = [i["inst"] for i in F.inst_by_def.get(p, [])] if b.rec.get("requires_mono") else [None]
        if not insts:
            return False, ""
        for inst in insts[:4]:
            mach = Machine(F, pol)
            mach.max_states, mach.max_steps = 400, 40000       # a reachability question about one function: small budget
            outs = mach.run(b, list(args), holders=list(holders), inst=inst)
            for o in outs:
                if o.kind == "undecided":
                    return False, ""
                if o.kind == "panic" and o.site and o.site[0] == p and o.site[1] == bb:
                    return False, ""
        return True, "no consistent assignment of the function's opaque predicates leads into the panic"
    except Exception:
        return False, ""


def bytes_discharge(repo, ls_factory, cache, b, bb, callers=None, panic_site=False):
    """Is the assertion decided safe for every abstract input (length, first byte)? Byte-provenance abstract execution over
    the complete length partition of the function itself when it takes the bytes, otherwise (a private helper whose
    arguments are fixed by its callers, e.g. a const-generic padding routine) of every byte-level function it is reached from."""
    F = repo.F
    p = b.rec["path"]

    def explored(q):
        if q not in cache:
            qb = F.bodies[q]
            cv = ls_factory(repo)
            sp, kinds = cv.shape(qb)
            produces_bytes = "[u8" in (qb.rec.get("output") or "")      # an encoder: no byte input, one outcome per abstract self
            if (sp is None and not any(k.startswith("array") for k in kinds) and not produces_bytes) or qb.rec.get("requires_mono"):
                cache[q] = None
            else:
                ex = cv.explore(qb)
                cache[q] = (cv, ex)
        return cache[q]
    visits = [0]

    def covered(q, depth, seen):
        if depth > 5 or q in seen:
            return False
        e = explored(q)
        if e is not None:
            cv, ex = e
            if any(o.unknown for o in ex.values()):
                return False
            if panic_site:
                # a diverging call (debug_assert! / unreachable!): no abstract input may end in it, and the function must have been entered
                if any(pn[1] and pn[1][0] == p and pn[1][1] == bb for o in ex.values() for pn in o.panics):
                    return False
                visits[0] += 1 if p in getattr(cv, "visited", ()) else 0
                return True
            rec = cv.sites.get((p, bb))
            if rec and (rec["fail"] or rec["unknown"]):
                return False
            visits[0] += rec["ok"] if rec else 0
            return True
        if F.is_exported(q) or not callers or not callers.get(q):
            return False
        return all(covered(c, depth + 1, seen | {q}) for c in callers[q])
    return covered(p, 0, frozenset()) and visits[0] > 0


def ordinal(body, bb, kind):
    n = 0
    for i in sorted(body.reachable()):
        t = body.blocks[i]["term"]
        if t["k"] == "assert" and t["kind"] == kind:
            if i == bb:
                return n
            n += 1
    return n


def field_invariants(F):
    """Interval invariants of private integer fields of crate-local structs: {(struct path, field index): (lo, hi)}.
    A field qualifies when it is not public, every construction of the struct gives it a literal, and it is never borrowed
    mutably; the candidate interval (hull of those literals) is then closed under every function that stores into the field,
    each analysed by the interval execution with the struct's fields assumed inside the candidate (an inductive invariant:
    established by every constructor, preserved by every writer; nothing outside the crate can write a private field)."""
    if getattr(F, "_field_inv", None) is not None:
        return F._field_inv
    F._field_inv = {}
    cands = {}
    for ap, adt in F.adts.items():
        if adt.get("kind") != "Struct" or len(adt.get("variants") or []) != 1:
            continue
        for i, f in enumerate(adt["variants"][0].get("fields") or []):
            r = ty_range((f.get("ty") or "").strip())
            if r and (f.get("ty") or "").strip() != "bool" and f.get("vis") != "Public":
                cands[(ap, i)] = {"consts": [], "ok": True, "writers": set(), "ty": f["ty"].strip()}
    if not cands:
        return F._field_inv
    for b in F.fn_bodies():
        for blk in b.blocks:
            for st in blk["stmts"]:
                if st["k"] != "assign":
                    continue
                rv = st["rv"]
                if rv["k"] == "aggregate" and rv.get("agg") == "adt":
                    for (ap, i), c in cands.items():
                        if rv.get("adt") == ap and i < len(rv["ops"]):
                            op = rv["ops"][i]
                            if op.get("k") == "const" and "int" in op:
                                c["consts"].append(int(op["int"]))
                            else:
                                c["ok"] = False
                for pl, is_mut_borrow in ((st["place"], False), (rv.get("place") if rv["k"] in ("ref", "rawptr") and rv.get("mut") else None, True)):
                    if not pl or not pl["p"]:
                        continue
                    for j, e in enumerate(pl["p"]):
                        if isinstance(e, dict) and "f" in e:
                            try:
                                base = (place_types(b, {"l": pl["l"], "p": pl["p"][:j]})[-1] or "").split("<")[0].strip()
                            except Exception:
                                continue
                            c = cands.get((base, e["f"]))
                            if c is None:
                                continue
                            if is_mut_borrow:
                                c["ok"] = False
                            elif j == len(pl["p"]) - 1:
                                c["writers"].add(b.rec["path"])
                            else:
                                c["ok"] = False
    live = {k: c for k, c in cands.items() if c["ok"] and c["consts"]}
    inv = {k: (min(c["consts"]), max(c["consts"])) for k, c in live.items()}
    from .roles import int_helper_paths
    int_fns = int_helper_paths(F)
    F._vec_len_inv = vec_length_invariants(F, int_fns)
    moved = {}
    for _round in range(8):
        F._field_inv = dict(inv)
        grew = False
        # widening: a bound that keeps moving jumps to the bound of the field's type (then it either is stable or the field drops out)
        for k in list(inv):
            tr_ = ty_range(live[k]["ty"])
            lo_m, hi_m = moved.get((k, "lo"), 0), moved.get((k, "hi"), 0)
            if lo_m >= 2:
                inv[k] = (tr_[0], inv[k][1])
            if hi_m >= 2:
                inv[k] = (inv[k][0], tr_[1])
        F._field_inv = dict(inv)
        for k, c in live.items():
            if k not in inv:
                continue
            for w in sorted(c["writers"]):
                dom = RangeDomain(F)
                dom.watch = {k}
                dom.observed = {}
                try:
                    run_top(F, dom, F.bodies[w], lambda d: d in int_fns)
                except Exception:
                    inv.pop(k, None)
                    break
                if w not in dom.completed:
                    inv.pop(k, None)
                    break
                for lo, hi in dom.observed.get(k, []):
                    if lo is None:
                        inv.pop(k, None)
                        break
                    cur = inv[k]
                    new = (min(cur[0], lo), max(cur[1], hi))
                    if new != cur:
                        if new[0] < cur[0]:
                            moved[(k, "lo")] = moved.get((k, "lo"), 0) + 1
                        if new[1] > cur[1]:
                            moved[(k, "hi")] = moved.get((k, "hi"), 0) + 1
                        inv[k] = new
                        grew = True
                if k not in inv:
                    break
        if not grew:
            break
    else:
        inv = {}
    tr = {k: ty_range(live[k]["ty"]) for k in inv}
    F._field_inv = {k: v for k, v in inv.items() if tr[k] and tr[k][0] <= v[0] and v[1] <= tr[k][1]}
    return F._field_inv


def vec_length_invariants(F, int_fns):
    """{(struct path, field index): K} for private Vec fields whose every construction, evaluated by the interval execution of the
    constructing function (literal loop bounds run concretely), stores a vector of the same length K, and that are never borrowed
    mutably or assigned afterwards (so the length is fixed for the life of the value)."""
    cands = {}
    for ap, adt in F.adts.items():
        if adt.get("kind") != "Struct" or len(adt.get("variants") or []) != 1:
            continue
        for i, f in enumerate(adt["variants"][0].get("fields") or []):
            if (f.get("ty") or "").strip().startswith(("alloc::vec::Vec<", "crate::alloc::vec::Vec<", "std::vec::Vec<")) and f.get("vis") != "Public":
                cands[(ap, i)] = {"ok": True, "makers": set()}
    if not cands:
        return {}
    for b in F.fn_bodies():
        for blk in b.blocks:
            for st in blk["stmts"]:
                if st["k"] != "assign":
                    continue
                rv = st["rv"]
                if rv["k"] == "aggregate" and rv.get("agg") == "adt":
                    for (ap, i), c in cands.items():
                        if rv.get("adt") == ap and not (b.rec.get("derived") and b.name in ("clone", "clone_from")):
                            c["makers"].add(b.rec["path"])      # (a derived Clone copies field by field: it preserves whatever holds of the original)
                for pl, is_mut_borrow in ((st["place"], False), (rv.get("place") if rv["k"] in ("ref", "rawptr") and rv.get("mut") else None, True)):
                    if not pl or not pl["p"]:
                        continue
                    for j, e in enumerate(pl["p"]):
                        if isinstance(e, dict) and "f" in e:
                            try:
                                base = (place_types(b, {"l": pl["l"], "p": pl["p"][:j]})[-1] or "").split("<")[0].strip()
                            except Exception:
                                continue
                            if (base, e["f"]) in cands:
                                cands[(base, e["f"])]["ok"] = False      # stored into or mutably borrowed after construction
    out = {}
    for (ap, i), c in cands.items():
        if not c["ok"] or not c["makers"]:
            continue
        lens = set()
        for mk in sorted(c["makers"]):
            dom = RangeDomain(F)
            dom.watch_adts = {ap}
            dom.constructed = {}
            try:
                run_top(F, dom, F.bodies[mk], lambda d: d in int_fns)
            except Exception:
                lens.add(None)
                break
            if mk not in dom.completed or not dom.constructed.get(ap):
                lens.add(None)
                break
            for ops in dom.constructed[ap]:
                v = ops[i] if i < len(ops) else None
                lens.add(len(v.items) if isinstance(v, Tup) else None)
        if len(lens) == 1 and None not in lens:
            out[(ap, i)] = lens.pop()
    return out


def shape_value(F, ty, depth=0):
    """an unknown value of the given type with the structure the type fixes: struct fields, array lengths, integer ranges"""
    ty = (ty or "").strip()
    r = ty_range(ty)
    if r:
        return Rng(*r)
    if depth > 4:
        return TOP
    m = re.match(r"^\[(.+); (\d+)\]$", ty)
    if m and int(m.group(2)) <= 64:
        return Tup([shape_value(F, m.group(1), depth + 1) for _ in range(int(m.group(2)))])
    m = re.match(r"^ark_ff::(?:biginteger::)?BigInt<(\d+)>$", ty)
    if m and int(m.group(1)) <= 64:
        return Adt("ark_ff::BigInt", "BigInt", [Tup([Rng(0, 2 ** 64 - 1) for _ in range(int(m.group(1)))])])
    head = ty.split("<")[0].strip()
    adt = F.adts.get(head)
    if adt and adt.get("kind") == "Struct" and len(adt.get("variants") or []) == 1 and (not adt.get("generic") or re.fullmatch(r"[A-Za-z0-9_:]+<('[a-z_]+(, )?)+>", ty)):
        inv = field_invariants(F) if getattr(F, "_field_inv", None) is not None or not getattr(F, "_field_inv_busy", False) else {}
        fields = []
        for i, f in enumerate(adt["variants"][0].get("fields") or []):
            fty = (f.get("ty") or "").strip()
            if (head, i) in inv:
                fields.append(Rng(*inv[(head, i)]) if inv[(head, i)][0] != inv[(head, i)][1] else inv[(head, i)][0])
            elif (head, i) in (getattr(F, "_vec_len_inv", None) or {}):
                fields.append(Tup([TOP] * F._vec_len_inv[(head, i)]))
            elif fty.startswith("&") and depth < 3:
                hf = Frame(None, [])
                hf.env[0] = shape_value(F, re.sub(r"^&('[a-z_]+ )?(mut )?", "", fty), depth + 1)
                fields.append(Ref(hf, 0))
            else:
                fields.append(shape_value(F, fty, depth + 1))
        return Adt(head, adt["variants"][0]["name"], fields)
    return TOP


def run_top(F, dom, b, inline, max_steps=600000, max_paths=20000):
    dom.root = b.rec["path"]
    dom._abstract_heads = set()      # loop abstractions are decided per analysed root
    ex = AbsExec(F, dom, inline=inline, max_steps=max_steps, max_paths=max_paths)
    args = []
    holders = []
    for i, ty in enumerate(b.rec.get("inputs") or []):
        l = i + 1
        r = ty_range(ty)
        if r:
            args.append(Rng(*r))
        elif ty.strip().startswith("&"):
            hf = Frame(b, [])
            inner = ty.strip().lstrip("&").replace("mut ", "").strip()
            hf.env[0] = shape_value(F, inner)
            args.append(Ref(hf, 0))
        else:
            args.append(shape_value(F, ty))
    if b.rec["kind"] == "Closure":
        # closures: (env, args…) as in the MIR signature
        n = b.arg_count
        args = []
        for l in range(1, n + 1):
            r = ty_range(b.locals[l]["ty"])
            args.append(Rng(*r) if r else TOP)
        # captured values as the (single) place that builds this closure left them, when the same domain analysed that place
        envs = (getattr(dom, "closure_envs", None) or {}).get(b.rec["path"]) or []
        if len(envs) > 1 and args and len({len(e) for e in envs}) == 1:
            # built several times (an unrolled loop): captured integers are joined, anything else must be the same object
            joined = []
            for col in zip(*envs):
                vals = [c.frame.env.get(c.local) if isinstance(c, Ref) and not c.proj else None for c in col]
                if all(isinstance(v, (int, Rng)) and not isinstance(v, bool) for v in vals):
                    lo = min(v if isinstance(v, int) else v.lo for v in vals)
                    hi = max(v if isinstance(v, int) else v.hi for v in vals)
                    hf = Frame(b, [])
                    hf.env[0] = lo if lo == hi else Rng(lo, hi)
                    joined.append(Ref(hf, 0))
                elif all(c is col[0] or c == col[0] for c in col):
                    joined.append(col[0])
                else:
                    joined.append(TOP)
            envs = [joined]
        if len(envs) == 1 and args:
            hf = Frame(b, [])
            hf.env[0] = Adt("closure:" + b.rec["path"], None, list(envs[0]))
            args[0] = Ref(hf, 0) if b.locals[1]["ty"].strip().startswith("&") else hf.env[0]
    # a const-generic function is analysed once per instantiated value of its parameter (from the monomorphic call graph)
    gsets = []
    if b.rec.get("requires_mono"):
        for inst in F.inst_by_def.get(b.rec["path"], []):
            gi = tuple(int(x) for x in re.findall(r"<(\d+)(?:_usize)?>", inst.get("inst") or ""))
            if gi and gi not in gsets:
                gsets.append(gi)
    try:
        if gsets:
            for gi in gsets[:6]:
                ex.generic_ints = list(gi)
                if len(gi) == 1 and b.rec.get("own_type_params") == 1 and b.rec["kind"] != "Closure":
                    # its one parameter is the const: an array length spelled with a name is that number in this instance
                    args = []
                    for ty in b.rec.get("inputs") or []:
                        ty = re.sub(r"; [A-Z][A-Za-z0-9_]*\]", "; %d]" % gi[0], ty.strip())
                        r = ty_range(ty)
                        if r:
                            args.append(Rng(*r))
                        elif ty.startswith("&"):
                            hf = Frame(b, [])
                            hf.env[0] = shape_value(F, ty.lstrip("&").replace("mut ", "").strip())
                            args.append(Ref(hf, 0))
                        else:
                            args.append(shape_value(F, ty))
                ex.run(b, args)
        else:
            ex.run(b, args)
        dom.completed.add(b.rec["path"])
    except FactsError as e:
        dom.notes.append("%s: %s" % (b.rec["path"], e))


def debug_assert_side_effect_free(body):
    """Nothing that exists outside a debug_assert! is changed by evaluating its condition.  The code of one debug_assert! is the
    region entered over the true edge of its `cfg!(debug_assertions)` test and left at that test's false target; inside it there
    must be no store to — and no `&mut` of — a place rooted in a parameter or in a local that is also assigned outside the region
    (`debug_assert!(self.set_bit(255, true))` would do its work in debug builds only)."""
    succ = body.succ()
    regions = []
    for i, blk in enumerate(body.blocks):
        t = blk["term"]
        if t["k"] != "switch" or not any("debug_assert" in m for m in ((t.get("span") or {}).get("macros") or [])):
            continue
        if not any("cfg!" in m for m in ((t.get("span") or {}).get("macros") or [])):
            continue
        skip = next((tg for v, tg in t["arms"] if int(v) == 0), None)
        entry = t["otherwise"]
        if skip is None or entry == skip:
            continue
        def reach(x0):
            seen, todo = set(), [x0]
            while todo:
                x = todo.pop()
                if x in seen:
                    continue
                seen.add(x)
                todo.extend(succ[x])
            return seen
        # what only the enabled branch executes: reachable from its entry, not from the disabled branch's target
        regions.append(reach(entry) - reach(skip))
    if not regions:
        return True
    allr = set().union(*regions)
    names = {d["place"]["l"] for d in body.mir["debug"] if not d["place"]["p"]}      # user variables (compiler temporaries are reused freely)
    outer_assigned = set(range(1, body.arg_count + 1))
    for i, blk in enumerate(body.blocks):
        if i in allr:
            continue
        for st in blk["stmts"]:
            if st["k"] == "assign":
                outer_assigned.add(st["place"]["l"])
        t = blk["term"]
        if t["k"] == "call" and t.get("dest"):
            outer_assigned.add(t["dest"]["l"])
    outer_assigned &= names | set(range(1, body.arg_count + 1))
    for i in sorted(allr):
        blk = body.blocks[i]
        for st in blk["stmts"]:
            if st["k"] != "assign":
                continue
            if st["place"]["l"] in outer_assigned:
                return False
            rv = st["rv"]
            if rv["k"] in ("ref", "rawptr") and rv.get("mut") and rv["place"]["l"] in outer_assigned and "FakeForPtrMetadata" not in str(rv.get("kind")):
                return False
        t = blk["term"]
        if t["k"] == "call" and t.get("dest") and t["dest"]["l"] in outer_assigned:
            return False
    return True


def int_param_functions(F):
    """Local functions with an integer parameter: analysed in the context of each caller (inlined)."""
    out = set()
    for b in F.fn_bodies():
        if b.rec["kind"] == "Closure":
            continue
        ins = b.rec.get("inputs") or []
        if any(ty_range(x) and x != "bool" for x in ins):
            out.add(b.rec["path"])
    return out


def rule_int_total(prop, repo, entries, optional=()):
    """No assertion (bounds or overflow) can fail for any integer argument of these entry points."""
    F = repo.F
    R = Rule("R-TOTAL-INT", "entry points with integer arguments: every bounds / overflow assertion met (callees with integer parameters analysed in context) holds for "
             "the whole range of the argument types", floor=len(entries), exhaustive=True)
    inl = int_param_functions(F)
    for path in entries:
        b = F.bodies.get(path)
        R.instance()
        if b is None and path in optional:
            R.ok(sample={"entry": path, "present": False, "note": "crate-internal helper that need not exist: the public entry point that used it is analysed with whatever it calls now"})
            continue
        if b is None:
            R.fail_closed("%s:int-total:%s" % (prop, path), "%s not found" % path)
            continue
        dom = RangeDomain(F)
        ex = AbsExec(F, dom, inline=lambda d: d in inl, max_steps=600000, max_paths=20000)
        args = []
        for ty in b.rec.get("inputs") or []:
            r = ty_range(ty)
            if r:
                args.append(Rng(*r))
            elif ty.strip().startswith("&"):
                hf = Frame(b, [])
                hf.env[0] = shape_value(F, ty.strip().lstrip("&").replace("mut ", "").strip())
                args.append(Ref(hf, 0))
            else:
                args.append(shape_value(F, ty))
        try:
            ex.run(b, args)
        except FactsError as e:
            R.fail_closed("%s:int-total:%s" % (prop, path), str(e))
            continue
        bad = [(k, s) for k, byroot in dom.sites.items() for s in byroot.values() if s["fails"] or s["unknown"]]
        for (fn, bb), s in bad:
            fb = F.bodies.get(fn)
            R.violation("%s:int-total:%s→%s#%s" % (prop, path, fn, s["kind"]),
                        "%s: %s in %s %s for some argument value (%s)" % (path, s["kind"], fn, "fails" if s["fails"] else "is not bounded", s["detail"]), loc_of(fb, bb) if fb else None, fn)
        if not bad:
            R.ok(sample={"entry": path, "assertions_examined": len(dom.sites), "all_hold": True})
    return R.finish()
