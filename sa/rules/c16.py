"""C16 — any history of group operations behaves like arithmetic in Z_r (structural clauses)."""
from core import report
from core.sm9 import Repo
from . import shared, field, norm, weight, profile, conv2


def run(ctx):
    repo = Repo(ctx.dev)
    r_norm, N = norm.rule_norm("C16", repo)
    rules = [field.rule_pure("C16", repo), r_norm, shared.rule_eq_reads("C16", repo, ["crate::groups::G", "crate::groups::AffineG"]), norm.rule_id_guard("C16", repo, N), weight.rule_weight_group("C16", repo), weight.rule_weight_lines("C16", repo),
             norm.rule_prep_immut("C16", repo), field.rule_tower_consts("C16", repo)]
    # no operation of the register file (G1, G2, Fr values) can panic, whatever the history left in its operands (release MIR)
    repo_rel = Repo(ctx.rel)
    Fr_ = repo_rel.F
    entries = sorted(b.rec["path"] for b in Fr_.fn_bodies() if b.rec["kind"] in ("Fn", "AssocFn") and Fr_.is_exported(b.rec["path"])
                     and b.rec.get("impl_self_adt") in ("crate::G1", "crate::G2", "crate::Fr"))
    rules.append(profile.rule_nopanic_core("C16", repo_rel, entries, conv2.make_conv))
    return report.emit(
        "C16", ctx.tier, ctx.seed, rules, ctx.started,
        "For all histories: (i) effect analysis — no mutable statics, only lazy_static cells with closed literal initialisers, Copy+Freeze value types, RNG only by parameter, no unsafe — "
        "so a result depends only on operand values; (ii) typestate with every public input in state ⊤: no public operation has an undischarged representation / non-identity "
        "requirement; (iii) every formula a ⊤ value can meet is Jacobian-weight homogeneous, i.e. independent of the representative inherited from the history; "
        "(iv) no operation on G1, G2 or Fr values can panic in the release MIR (assertions discharged by intervals, unwrap/expect only where guarded or in constant initialisers).",
        shared.ASSUMPTIONS,
        ["that the values equal those predicted by discrete logarithms (needs the group law and pairing arithmetic)"])
