"""C17 — tower engine and final exponentiation (exponent effect, Frobenius maps, dispatch)."""
from core import report
from core.sm9 import Repo
from . import shared, consts, expo, field, mono, support


def run(ctx):
    repo = Repo(ctx.dev)
    rules = [expo.rule_exp("C17", repo), consts.rule_frobenius("C17", repo), consts.rule_frob_dispatch("C17", repo), consts.rule_const("C17", repo), field.rule_zero_cover("C17", repo), field.rule_tower_shapes("C17", repo), field.rule_shortcuts("C17", repo, ["crate::fields::fq12::Fq12", "crate::fields::fq4::Fq4"]), mono.rule_shortcut_formulas("C17", repo, ["crate::fields::fq12::Fq12", "crate::fields::fq4::Fq4"]), support.rule_shortcut_supports("C17", repo, ["crate::fields::fq12::Fq12", "crate::fields::fq4::Fq4"])]
    return report.emit(
        "C17", ctx.tier, ctx.seed, rules, ctx.started,
        "Exponent-effect abstract interpretation of both final-exponentiation routines (each Fq12 primitive acts on the discrete log by a fixed map mod q^12−1; the chains compose "
        "to exactly (q^12−1)/r; Fq12::pow(c)=x^c for every literal exponent by constant propagation through its loop); scalar-linear evaluation of every implemented Frobenius power "
        "against conj^e·(−2)^(m(q^e−1)/12); every frobenius_map call passes an implemented literal power; defining relations of all constants.",
        shared.ASSUMPTIONS + ["contracts of the Fq12 primitives mul / squared / inverse (their numerical correctness is the undecided part)", "Fq12* is cyclic of order q^12−1"],
        ["multiplication, sparse multiplication, squaring and inversion of Fq4/Fq12 (Karatsuba / CH-SQR2 / interleaved sum-of-products carries); agreement of the two Miller loops"])
