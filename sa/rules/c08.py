"""C08 — point decoders are total, strict and build-profile independent."""
from core import report
from core.sm9 import Repo
from . import shared, conv2 as convert, profile

SPEC = {
    "crate::G1::from_slice": {"lens": {64}, "prefix": None},
    "crate::G1::from_uncompressed": {"lens": {65}, "prefix": {4}},
    "crate::G1::from_compressed": {"lens": {33}, "prefix": {2, 3}},
    "crate::G2::from_slice": {"lens": {128}, "prefix": None},
    "crate::G2::from_uncompressed": {"lens": {129}, "prefix": {4}},
    "crate::G2::from_compressed": {"lens": {65}, "prefix": {2, 3}},
    "crate::Fq2::from_slice": {"lens": {64}, "prefix": None},
}
DECODERS = {k: v["lens"] for k, v in SPEC.items() if k.startswith("crate::G")}
COMPRESSED = {"crate::G1::from_compressed": 33, "crate::G2::from_compressed": 65}
EXTRA_ENTRIES = ["<crate::Fq2 as core::convert::TryFrom<&[u8]>>::try_from"]


def run(ctx):
    rules = []
    per_cfg = {}
    convs = {cfg: None for cfg in ("dev", "rel")}
    for cfg in convs:
        repo = Repo(ctx.facts(cfg))
        convs[cfg] = (repo, convert.make_conv(repo))
    convert.share_length_domains(convs["dev"][1], convs["rel"][1], list(SPEC) + EXTRA_ENTRIES)
    for cfg in ("dev", "rel"):
        repo, ls = convs[cfg]
        r_acc, results = convert.rule_accept("C08", repo, ls, SPEC, cfg)
        rules.append(r_acc)
        rules.append(convert.rule_total("C08", repo, ls, list(SPEC) + EXTRA_ENTRIES, cfg, results))
        per_cfg[cfg] = (repo, ls, results)
    repo, ls, results = per_cfg["dev"]
    rules.append(convert.rule_strict("C08", repo, ls, DECODERS))
    rules.append(convert.rule_funnel("C08", repo, ls, DECODERS))
    rules.append(convert.rule_parity_decoder("C08", repo, ls, COMPRESSED))
    # profile independence of the decoders: identical outcome maps in both configurations
    r = report.Rule("R-PROFILE-EQ", "every decoder has the same (accept / reject / panic) outcome for every abstract input in the dev and release MIR", floor=len(SPEC), exhaustive=True)
    rd, rr = per_cfg["dev"][2], per_cfg["rel"][2]
    for path in SPEC:
        r.instance()
        a, b = rd.get(path, {}), rr.get(path, {})
        diff = convert.outcome_map_diff(a, b)
        r.check(not diff, "C08:profile-dependent:%s" % path, "%s behaves differently in dev and release for %d abstract inputs, e.g. (len, first byte) = %s" % (path, len(diff), diff[:4]),
                fn=path, sample={"decoder": path, "points_compared": len(set(a) | set(b))})
    rules.append(r.finish())
    rules.append(profile.rule_nopanic_core("C08", per_cfg["rel"][0], list(SPEC), convert.make_conv))
    return report.emit(
        "C08", ctx.tier, ctx.seed, rules, ctx.started,
        "Byte-provenance abstract execution of the seven decoder entry points over the full abstract domain (length partition split at every compared constant x all 256 "
        "first bytes where a branch tests the tag) in the dev and release MIR: acceptance sets, reachability of every panic of the conversion layer (assertions, slice "
        "primitives, unwrap/expect; literal-bound loops run out), and — read off the value term and path condition of every successful path — strict parsing of each "
        "coordinate, funnel through the validated constructor and the parity selection.",
        shared.ASSUMPTIONS + ["contract of ark_ff BigInt::to_bytes_be (8·N bytes)", "panic-freedom of the arithmetic reached after parsing is decided on the release MIR only (R-NOPANIC-CORE); overflow-check panics of a debug profile are C18's subject"],
        ["correctness of sqrt and of the curve / subgroup arithmetic used inside the decoders (C09 decides the structure of the validated constructor)"])
