"""C02 — pairing values equal the SM9 R-ate pairing byte for byte (everything the standard fixes that is a literal or a layout)."""
from core import report
from core.sm9 import Repo
from . import shared, consts


def run(ctx):
    repo = Repo(ctx.dev)
    rules = [consts.rule_const("C02", repo), consts.rule_generators("C02", repo), consts.rule_frobenius("C02", repo), consts.rule_frob_dispatch("C02", repo)]
    return report.emit("C02", ctx.tier, ctx.seed, rules, ctx.started, "constants", shared.ASSUMPTIONS, ["value"])
