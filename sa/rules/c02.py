"""C02 — pairing values equal the SM9 R-ate pairing byte for byte (everything the standard fixes that is a literal, a layout or a loop shape)."""
from core import report
from core.sm9 import Repo
from . import shared, consts, conv2, expo, miller


def run(ctx):
    repo = Repo(ctx.dev)
    r_lay, _ = conv2.rule_layout("C02", repo, conv2.make_conv(repo), ["crate::fields::fq2::Fq2::to_slice", "crate::fields::fq4::Fq4::to_slice", "crate::fields::fq12::Fq12::to_slice", "crate::Gt::to_slice"])
    rules = [consts.rule_const("C02", repo), consts.rule_generators("C02", repo), consts.rule_frobenius("C02", repo), consts.rule_frob_dispatch("C02", repo),
             r_lay, expo.rule_exp("C02", repo)] + miller.rules("C02", repo)
    return report.emit(
        "C02", ctx.tier, ctx.seed, rules, ctx.started,
        "Every literal the standard fixes satisfies its defining relation (q, r, t, 6t+2 and its signed-digit expansion, Montgomery constants, Frobenius constants, chain exponents, "
        "generators = the standard's P1/P2 on curve/twist with order r); Gt serialisation order c2‖c1‖c0, each c1‖c0, imaginary‖real; Frobenius maps are the right scalar-linear maps; "
        "both Miller loops follow the R-ate recurrence up to 6t+2 with the two Frobenius line corrections; both final exponentiations are exactly (q¹²−1)/r.",
        shared.ASSUMPTIONS + ["contracts of the line functions and Fq12 primitives"],
        ["the value itself: line-function formulas, tower products, carry chains (numerical)"])
