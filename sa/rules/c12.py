"""C12 — Fq2 arithmetic is arithmetic in Fq[u]/(u²+2) (structural clauses)."""
from core import report
from core.sm9 import Repo
from . import shared, field, conv2, mono, support


def run(ctx):
    repo = Repo(ctx.dev)
    ls = conv2.make_conv(repo)
    r_lay, _ = conv2.rule_layout("C12", repo, ls, ["crate::fields::fq2::Fq2::to_slice", "crate::Fq2::to_slice", "crate::G2::to_compressed"])
    spec = {"crate::Fq2::from_slice": {"lens": {64}, "prefix": None}, "crate::fields::fq2::Fq2::from_slice": {"lens": {64}, "prefix": None}}
    r_acc, results = conv2.rule_accept("C12", repo, ls, spec, "dev")
    rules = [field.rule_tower_consts("C12", repo), field.rule_zero_cover("C12", repo), field.rule_tower_shapes("C12", repo), r_lay,
             conv2.rule_decoder_layout("C12", repo, ls, ["crate::fields::fq2::Fq2::from_slice", "crate::Fq2::from_slice"]), conv2.rule_conv_traits("C12", repo, ls), r_acc, conv2.rule_total("C12", repo, ls, list(spec), "dev", results),
             conv2.rule_is_even("C12", repo, ls), shared.rule_eq_derived(repo, ["crate::Fq2", "crate::fields::fq2::Fq2"]),
             field.rule_ops_forward("C12", repo, ["crate::fields::fq2::Fq2", "crate::Fq2"]), field.rule_shortcuts("C12", repo, ["crate::fields::fq2::Fq2"]), mono.rule_shortcut_formulas("C12", repo, ["crate::fields::fq2::Fq2"]), support.rule_shortcut_supports("C12", repo, ["crate::fields::fq2::Fq2"])]
    return report.emit(
        "C12", ctx.tier, ctx.seed, rules, ctx.started,
        "Fq2::new(a,b) stores (real=a, imaginary=b) and the accessors read them back; 64-byte layout imaginary‖real in encoder and decoder; from_slice accepts exactly 64 bytes, "
        "is strict and cannot panic; parity reads the canonical real part; == derived over both limbs; +, −, unary − act component-wise on matching components in every operator form; "
        "mul_by_nonresidue = (−2·c1, c0), unitary_inverse = (c0, −c1), i() = (0,1).",
        shared.ASSUMPTIONS,
        ["×, squaring and inverse (interleaved sum-of-products Montgomery multiplication and its carry folding) — the core of the statement"])
