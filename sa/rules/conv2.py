"""Rules over the byte-conversion layer, decided on the byte-provenance machine (core/bytex.py): acceptance sets, totality,
strict parsing, funnel through the validated constructor, parity, byte layouts of encoders and decoders. Everything here
is read off the *outcomes* of the abstract runs (result value terms, path-condition atoms, panic sites), never off the
shape of the source, so helper extraction, renaming, iterator style and control-flow restructuring do not matter."""
import re
from core.report import Rule
from core.facts import FactsError
from core.bytex import Machine, T, TOP, Tup, Adt, Ref, Outcome, mentions_bytes, ty_head
from . import shared
from .shared import loc_of

OKISH = {"Some", "Ok"}
ERRISH = {"None", "Err"}
U256 = "crate::u256::U256"
U512 = "crate::u512::U512"


def array_len(ty):
    m = re.match(r"^&?\s*(?:mut\s+)?\[u8; (\d+)\]$", (ty or "").strip())
    return int(m.group(1)) if m else None


def is_byte_slice(ty):
    return (ty or "").replace(" ", "") in ("&[u8]", "&mut[u8]") or re.match(r"^&'?[a-z_]*\s*(mut\s+)?\[u8\]$", (ty or "").strip()) is not None


def walk(t):
    """every sub-term / sub-value (pre-order)"""
    st = [t]
    while st:
        x = st.pop()
        yield x
        if isinstance(x, Adt):
            st.extend(x.fields)
        elif isinstance(x, (T, Tup, tuple)):
            for y in x:
                if isinstance(y, (T, Tup, Adt, tuple)):
                    st.append(y)


def mentions(t, leaf):
    return any(x == leaf for x in walk(t))


class Summ:
    """what one abstract input (length, first byte) can do"""
    def __init__(self):
        self.variants = set()
        self.panics = []
        self.unknown = []
        self.outs = []

    def key(self):
        return (frozenset(self.variants), bool(self.panics))


class Conv:
    def __init__(self, repo):
        self.repo = repo
        self.F = repo.F
        self.fp = repo.fp_types()
        self.news = {info["new"].rec["path"]: ap for ap, info in self.fp.items()}
        self.root_adts = {p for p in self.F.adts if p.startswith("crate::") and p.count("::") == 1}
        self._cache = {}
        self._ld = {}
        self.sites = {}          # merged assertion-site records of every run
        self.runs = 0

    # ------------------------------------------------------------------ which callees are analysed in place
    def policy(self, cb):
        if cb.rec["kind"] in ("Closure", "Ctor"):
            return True
        if (cb.rec.get("span") or {}).get("file") == "src/lib.rs":
            return True
        ins = cb.rec.get("inputs") or []
        out = cb.rec.get("output") or ""
        if any(mentions_bytes(x) for x in ins) or mentions_bytes(out):
            return True
        if out.strip() == "bool" and len(ins) == 1 and len(cb.blocks) <= 8 and (cb.rec.get("impl_self_adt") or "").startswith("crate::fields::") and \
                any((t.get("fn") or {}).get("name") in ("is_even", "is_odd") for _, t in cb.calls()):
            return True          # a parity predicate kept in the field layer: looked into, so that what it tests (canonical or not) is seen
        sig = " ".join(ins) + " " + out
        for a in self.root_adts:
            if re.search(re.escape(a) + r"(?![:\w])", sig):
                return True
        return False

    # ------------------------------------------------------------------ infeasible path conditions (justified elsewhere)
    def infeasible(self, pc):
        """`Fp::new(r)` cannot be None when r is a remainder by the modulus of the same field, or by the canonical value of
        one of its elements (remainder < divisor: R-GUARD's division truth table; canonical < modulus: R-RED)."""
        for atom, choice in pc:
            if choice == "None" and isinstance(atom, T) and atom[0] == "call" and atom[1] in self.news and len(atom[3]) == 1:
                ap = self.news[atom[1]]
                x = atom[3][0]
                if isinstance(x, T) and x[0] == "field" and x[2] == 1 and isinstance(x[1], T) and x[1][0] == "call" and x[1][1].endswith("::divrem") and len(x[1][3]) == 2:
                    dv = x[1][3][1]
                    if self._is_modulus_of(dv, ap) or (isinstance(dv, T) and dv[0] == "conv" and dv[1] == ap and dv[2] == U256):
                        return True
        return False

    def _is_modulus_of(self, t, ap):
        mod = self.fp[ap]["modulus"]
        return any(isinstance(x, (T,)) and x[0] in ("static",) and x[1] == mod for x in walk(t)) or \
            any(isinstance(x, T) and x[0] == "call" and isinstance(x[1], str) and mod in x[1] for x in walk(t))

    # ------------------------------------------------------------------ length partition
    def length_domain(self, body):
        p = body.rec["path"]
        if p in self._ld:
            return self._ld[p]
        cs = set()
        seen = set()
        todo = [body]
        while todo:
            b = todo.pop()
            if b.rec["path"] in seen:
                continue
            seen.add(b.rec["path"])
            for l in b.locals:
                n = array_len(l["ty"])
                if n is not None:
                    cs.add(n)
            for blk in b.blocks:
                for st in blk["stmts"]:
                    if st["k"] == "assign":
                        for op in _ops(st["rv"]):
                            if op.get("k") == "const" and "int" in op and op.get("ty") in ("usize", "u32", "u64", "i32", "isize", "u8"):
                                try:
                                    v = int(op["int"])
                                except (TypeError, ValueError):
                                    continue
                                if 0 <= v <= 4096:
                                    cs.add(v)
                t = blk["term"]
                if t["k"] == "switch":
                    for a in t["arms"]:
                        try:
                            v = int(a[0])
                        except (TypeError, ValueError):
                            continue
                        if 0 <= v <= 4096:
                            cs.add(v)
                if t["k"] == "call":
                    # literal arguments (`expect_len(s, 32)`): a helper may compare the length with its parameter
                    for op in t.get("args") or []:
                        if op.get("k") == "const" and "int" in op and op.get("ty") in ("usize", "u32", "u64", "i32", "isize", "u8"):
                            try:
                                v = int(op["int"])
                            except (TypeError, ValueError):
                                continue
                            if 0 <= v <= 4096:
                                cs.add(v)
                if t["k"] == "call" and "fn" in t:
                    d = t["fn"].get("res_def") or t["fn"].get("def")
                    for x in re.findall(r"<(\d+)(?:_usize)?>", t["fn"].get("res_inst") or t["fn"].get("inst") or ""):
                        cs.add(int(x))
                    cb = self.F.bodies.get(d)
                    if cb is not None and self.policy(cb) and len(seen) < 400:
                        todo.append(cb)
                    # From/Into resolve to local impls
                    if cb is None and (t["fn"].get("name") in ("into", "from")):
                        from core.bytex_models import types_of_conv, find_from_impl
                        from core.terms import FnKey
                        tys = types_of_conv(FnKey(t["fn"]))
                        if tys:
                            ib = find_from_impl(self.F, tys[0], tys[1])
                            if ib is not None and self.policy(ib):
                                todo.append(ib)
            for (pp, i), pb in self.F.promoted.items():
                pass
        # lengths may be compared with computed bounds (`8 * N`): close the small constants under products
        small = sorted(c for c in cs if 2 <= c <= 64)
        for x in small:
            for y in small:
                if x <= y and x * y <= 1024:
                    cs.add(x * y)
        # … and with the sum of the pieces they are split into (`split_first_chunk::<32>()` then `rest.len() == 32`; a tag byte in front)
        blocks = sorted(c for c in cs if c % 8 == 0 and 8 <= c <= 128)
        for x in blocks:
            for y in blocks:
                if x <= y:
                    cs.add(x + y)
                    cs.add(x + y + 1)
            cs.add(x + 1)
        dom = {0}
        for c in cs:
            for dlt in (-1, 0, 1):
                if c + dlt >= 0:
                    dom.add(c + dlt)
        dom.add(max(dom) + 7)
        self._ld[p] = sorted(dom)
        return self._ld[p]

    # ------------------------------------------------------------------ running
    def _machine(self):
        m = Machine(self.F, self.policy)
        m.variant_oracle = self.error_variants
        return m

    def error_variants(self, machine, x):
        """The discriminants an error value can have, when it is the Err payload of a crate-local fallible constructor: that
        constructor is analysed on its own for the instance at hand (opaque arguments; its boolean phases and parameter constants in
        place, the arithmetic uninterpreted) and the variants of its Err outcomes are collected.  None when that analysis is not
        conclusive (every variant stays possible)."""
        if not (isinstance(x, T) and x[0] == "payload" and x[2] == "Err" and isinstance(x[1], T) and x[1][0] == "call"):
            return None
        d, inst = x[1][1], x[1][2]
        key = (d, inst)
        cache = self.__dict__.setdefault("_errvars", {})
        if key in cache:
            return cache[key]
        cache[key] = None
        cb = self.F.bodies.get(d)
        if cb is None or not (cb.rec.get("output") or "").startswith("core::result::Result"):
            return None
        cfile = (cb.rec.get("span") or {}).get("file")

        def pol(b2):
            if b2.rec["kind"] in ("Closure", "Ctor"):
                return True
            if (b2.rec.get("span") or {}).get("file") != cfile:
                return False
            out = (b2.rec.get("output") or "").strip()
            return out in ("bool", "()") or (not (b2.rec.get("inputs") or []) and len(b2.blocks) <= 2)
        try:
            outs = Machine(self.F, pol).run(cb, [T("a", i) for i in range(len(cb.rec.get("inputs") or []))], inst=inst if inst in self.F.instances else None)
        except Exception:
            return None
        got = set()
        for o in outs:
            if o.kind != "return" or not isinstance(o.value, Adt):
                return None
            if o.value.variant == "Err":
                e = o.value.fields[0] if o.value.fields else None
                if not isinstance(e, Adt):
                    return None
                vi = machine.variant_index(e.name, e.variant)
                if vi is None:
                    return None
                got.add(vi)
        cache[key] = got
        return got

    def shape(self, body):
        """(index of the byte-slice parameter or None, per-parameter kinds)"""
        ins = body.rec.get("inputs") or []
        kinds = []
        sp = None
        for i, ty in enumerate(ins):
            if is_byte_slice(ty):
                kinds.append("slice")
                if sp is None:
                    sp = i
            elif array_len(ty) is not None:
                kinds.append("array-ref" if ty.strip().startswith("&") else "array")
            else:
                kinds.append("opaque-ref" if ty.strip().startswith("&") else "opaque")
        return sp, kinds

    def run(self, body, n=None, b0=None):
        """Outcomes of one abstract input: the byte-slice parameter (if any) has n cells in[0..n) (first one = b0 when given);
        byte arrays are in[…] cells of their length; every other parameter is an opaque value."""
        key = (body.rec["path"], n, b0)
        if key in self._cache:
            return self._cache[key]
        sp, kinds = self.shape(body)
        ins = body.rec.get("inputs") or []
        holders, args = [], []
        for i, (k, ty) in enumerate(zip(kinds, ins)):
            if k == "slice":
                cells = [T("in", j) for j in range(n if i == sp else 0)]
                if i == sp and b0 is not None and cells:
                    cells[0] = b0
                holders.append(Tup(cells))
                args.append(Ref(0, len(holders) - 1))
            elif k in ("array", "array-ref"):
                cells = [T("in", j) for j in range(array_len(ty))]
                if k == "array":
                    args.append(Tup(cells))
                else:
                    holders.append(Tup(cells))
                    args.append(Ref(0, len(holders) - 1))
            elif k == "opaque-ref":
                holders.append(T("self") if i == 0 else T("arg", i + 1))
                args.append(Ref(0, len(holders) - 1))
            else:
                args.append(T("self") if i == 0 else T("arg", i + 1))
        m = self._machine()
        outs = m.run(body, args, holders=holders)
        self.runs += 1
        self.__dict__.setdefault("visited", set()).update(m.calls_seen)
        for k2, rec in m.sites.items():
            cur = self.sites.setdefault(k2, {"kind": rec["kind"], "ok": 0, "unknown": 0, "fail": 0})
            for f in ("ok", "unknown", "fail"):
                cur[f] += rec[f]
        outs = [o for o in outs if not self.infeasible(o.pc)]
        self._cache[key] = outs
        return outs

    def summarise(self, outs):
        sm = Summ()
        sm.outs = outs
        for o in outs:
            if o.kind == "return":
                v = o.value
                if isinstance(v, Adt) and v.variant in OKISH | ERRISH:
                    sm.variants.add(v.variant)
                else:
                    sm.variants.add("ret")
            elif o.kind == "panic":
                sm.panics.append((o.site[2] if o.site else "panic", o.site, o.detail))
            else:
                sm.unknown.append((o.detail or "undecided", o.site))
        return sm

    def byte0_sensitive(self, outs):
        """does some branch of these runs depend on the first input byte alone (a tag test)?"""
        leaf = T("in", 0)
        for o in outs:
            for atom, _ in o.pc:
                if isinstance(atom, T) and atom[0] in ("binop", "cast", "not", "in") and mentions(atom, leaf):
                    return True
        return False

    def explore(self, body):
        """{(len, byte0|None): Summ} over the whole abstract domain of one entry point."""
        key = ("explore", body.rec["path"])
        if key in self._cache:
            return self._cache[key]
        out = {}
        sp, kinds = self.shape(body)
        if sp is None:
            out[(None, None)] = self.summarise(self.run(body, None, None))
        else:
            for n in self.length_domain(body):
                outs = self.run(body, n, None)
                if n >= 1 and sp == 0 and self.byte0_sensitive(outs):
                    for b in range(256):
                        out[(n, b)] = self.summarise(self.run(body, n, b))
                else:
                    out[(n, None)] = self.summarise(outs)
        self._cache[key] = out
        return out


def _ops(rv):
    k = rv["k"]
    if k in ("use", "repeat", "cast"):
        return [rv["op"]]
    if k == "binop":
        return [rv["a"], rv["b"]]
    if k == "unop":
        return [rv["a"]]
    if k == "aggregate":
        return rv["ops"]
    return []


def make_conv(repo):
    return Conv(repo)


def share_length_domains(cv_a, cv_b, paths):
    """both profiles are explored over one and the same set of representative lengths: the union of what each MIR's literals give
    (an overflow assertion of the dev MIR brings literals — `shift < 8` — that the release MIR does not have)"""
    for p in paths:
        ba, bb = cv_a.F.bodies.get(p), cv_b.F.bodies.get(p)
        if ba is None or bb is None:
            continue
        if cv_a.shape(ba)[0] is None or cv_b.shape(bb)[0] is None:
            continue
        dom = sorted(set(cv_a.length_domain(ba)) | set(cv_b.length_domain(bb)))
        cv_a._ld[p] = dom
        cv_b._ld[p] = list(dom)


def share_length_domains_between(cv, pa, pb):
    """two sibling entry points of one fact set explored over the union of their representative lengths"""
    ba, bb = cv.F.bodies.get(pa), cv.F.bodies.get(pb)
    if ba is None or bb is None or cv.shape(ba)[0] is None or cv.shape(bb)[0] is None:
        return
    dom = sorted(set(cv.length_domain(ba)) | set(cv.length_domain(bb)))
    cv._ld[pa] = dom
    cv._ld[pb] = list(dom)


def outcome_map_diff(a, b):
    """abstract inputs on which two outcome maps of one entry point differ; a length that only one side split by first byte is
    compared byte by byte with the other side's single answer for that length"""
    def sig(o):
        return (frozenset(o.variants), bool(o.panics)) if o else None
    diff = []
    for k in sorted(set(a) | set(b), key=str):
        oa, ob = a.get(k), b.get(k)
        if oa is None and k[1] is not None:
            oa = a.get((k[0], None))
        if ob is None and k[1] is not None:
            ob = b.get((k[0], None))
        if (oa is None or ob is None) and k[1] is None and any(k2[0] == k[0] and k2[1] is not None for k2 in (b if oa is not None else a)):
            continue          # compared through the byte-wise keys of the other side
        if sig(oa) != sig(ob):
            diff.append(k)
    return diff


# ====================================================================== acceptance / totality
def rule_accept(prop, repo, cv, spec, cfgname):
    """spec: {fn path: {'lens': set, 'prefix': set|None, 'total_lens': set|None}}"""
    F = repo.F
    R = Rule("R-ACCEPT[%s]" % cfgname, "acceptance set (length x first byte) of every decoder equals the format's, enumerated over the whole abstract domain "
             "(byte-provenance abstract execution; every tag byte value is run when a branch tests it)", floor=len(spec), exhaustive=True)
    results = {}
    for path, sp in spec.items():
        body = F.bodies.get(path)
        if body is None:
            R.fail_closed("%s:accept:%s:anchor" % (prop, path), "entry point %s not found" % path)
            continue
        R.instance()
        ex = cv.explore(body)
        results[path] = ex
        accepted = {k for k, o in ex.items() if o.variants & OKISH}
        want = set()
        for (n, b) in ex:
            if n in sp["lens"]:
                if sp.get("prefix") is None or (b is not None and b in sp["prefix"]):
                    want.add((n, b))
        must = sp.get("total_lens")
        if must is not None:
            failing = sorted(((n, b) for (n, b), o in ex.items() if n in must and (o.variants & ERRISH)), key=str)
            R.check(not failing, "%s:may-reject:%s" % (prop, path),
                    "%s [%s] can return None/Err for lengths where the value must be reduced, not rejected: %s" % (path, cfgname, failing[:6]), body.file_line(), path)
        extra = sorted(accepted - want, key=str)
        missing = sorted(want - accepted, key=str)
        if sp.get("prefix") is not None and any(b is None and n in sp["lens"] for (n, b) in accepted):
            R.violation("%s:accept:%s" % (prop, path), "%s never inspects the prefix byte: every first byte is accepted (expected %s)" % (path, sorted(sp["prefix"])), body.file_line(), path)
            continue
        R.check(not extra and not missing, "%s:accept:%s" % (prop, path),
                "%s [%s]: acceptance set differs from the format: over-accepts %s%s; rejects %s" % (path, cfgname, extra[:6], "…(%d)" % len(extra) if len(extra) > 6 else "", missing[:6]),
                body.file_line(), path,
                sample={"fn": path, "config": cfgname, "domain_points": len(ex), "accepted": sorted(accepted, key=str)[:8], "lengths_sampled": sorted({n for (n, _) in ex}, key=str)})
    return R.finish(), results


def rule_total(prop, repo, cv, entries, cfgname, results=None, tolerated=None):
    F = repo.F
    R = Rule("R-TOTAL[%s]" % cfgname, "no input length / first byte reaches a panic in the conversion layer (assertions, slice primitives, unwrap/expect decided per abstract "
             "input; literal-bound loops run out); nothing is left undecided", floor=len(entries), exhaustive=True)
    tolerated = tolerated or {}
    for path in entries:
        body = F.bodies.get(path)
        if body is None:
            R.fail_closed("%s:total:%s:anchor" % (prop, path), "entry point %s not found" % path)
            continue
        R.instance()
        ex = (results or {}).get(path) or cv.explore(body)
        pan, unk = {}, {}
        for (n, b), o in ex.items():
            for p in o.panics:
                fn = p[1][0] if p[1] else path
                what = p[1][2] if p[1] and isinstance(p[1][2], str) else ""
                pan.setdefault((fn, _panic_kind(what, p[2])), []).append((n, b, p))
            for u in o.unknown:
                unk.setdefault(((u[1][0] if u[1] else path), u[0]), []).append((n, b))
        for (fn, kind), wit in sorted(pan.items()):
            key = "%s:panic:%s→%s" % (prop, fn, kind)
            if key in tolerated:
                R.assume(key, tolerated[key])
                continue
            n, b, p = wit[0]
            fb = F.bodies.get(fn)
            R.violation(key, "panic reachable from %s: %s in %s for %d abstract input(s), e.g. len=%s byte0=%s (%s)" % (path, kind, fn, len(wit), n, b, p[2]),
                        loc_of(fb, p[1][1]) if fb and p[1] else None, fn, detail={"witnesses": [(w[0], w[1]) for w in wit[:8]], "entry": path})
        for (fn, kind), wit in sorted(unk.items()):
            key = "%s:undecided:%s→%s" % (prop, fn, str(kind)[:60])
            if key in tolerated:
                R.assume(key, tolerated[key])
                continue
            R.violation(key, "fail-closed: %s in %s could not be decided over the abstract domain (reached from %s, e.g. len=%s)" % (kind, fn, path, wit[0][0]), fn=fn)
        if not pan and not unk:
            R.ok(sample={"entry": path, "config": cfgname, "abstract_inputs": len(ex), "paths": sum(len(o.outs) for o in ex.values())})
    return R.finish()


def _panic_kind(what, detail):
    w = (what or "").split("<")[0]
    if "unwrap" in w or "expect" in w:
        return "unwrap-on-%s" % ("None" if "None" in (detail or "") else "Err" if "Err" in (detail or "") else "None/Err")
    if w in ("BoundsCheck",) or w.startswith("Overflow") or w.startswith("DivisionByZero") or w.startswith("RemainderByZero"):
        return w
    if "copy_from_slice" in w:
        return "copy_from_slice-length"
    if "index" in w:
        return "slice-range"
    if "read_u" in w:
        return "read-short-slice"
    return "panic(%s)" % (w.split("::")[-1] or "explicit")


# ====================================================================== decoders: value terms
def strip_newtypes(v):
    while isinstance(v, Adt) and len(v.fields) == 1 and v.variant in (None, v.name.split("::")[-1]) and v.name.startswith("crate::"):
        v = v.fields[0]
    return v


def be_integer(t):
    """If `t` is the U256/U512 built from big-endian reads of 8-byte cell groups (limb j = bytes of weight 2^(64j)), the cell
    list most-significant first; else None."""
    if isinstance(t, T) and t[0] == "conv" and t[2] in (U256, U512) and re.match(r"^\[u64;\d+\]$", t[1]) and isinstance(t[3], Tup):
        limbs = list(t[3])
        cells = []
        for lb in reversed(limbs):
            if isinstance(lb, int):
                cells.extend(list(lb.to_bytes(8, "big")))
            elif isinstance(lb, T) and lb[0] == "u64be" and len(lb[1]) == 8:
                cells.extend(lb[1])
            else:
                return None
        return cells
    return None


def input_leaves(v):
    return {x[1] for x in walk(v) if isinstance(x, T) and x[0] == "in"}


def ok_outcomes(cv, body, lens, prefixes=None):
    """feasible successful outcomes of a decoder over its accepting inputs: [((n, b0), Outcome)]"""
    ex = cv.explore(body)
    out = []
    for (n, b), sm in ex.items():
        for o in sm.outs:
            if o.kind == "return" and isinstance(o.value, Adt) and o.value.variant in OKISH:
                out.append(((n, b), o))
    return out


def validated_calls(v):
    """payloads of successful validated constructions (AffineG::new → Ok) inside a value"""
    return [x for x in walk(v) if isinstance(x, T) and x[0] == "payload" and x[2] == "Ok" and isinstance(x[1], T) and x[1][0] == "call"
            and x[1][1].startswith("crate::groups::AffineG") and x[1][1].endswith("::new")]


def rule_strict(prop, repo, cv, decoders):
    F = repo.F
    R = Rule("R-STRICT", "in every successful decode, each integer read from the input bytes reaches the point only through the range-checking constructor Fp::new "
             "(never a reducing one)", floor=len(decoders))
    for path in decoders:
        body = F.bodies.get(path)
        if body is None:
            R.fail_closed("%s:strict:%s:anchor" % (prop, path), "decoder %s not found" % path)
            continue
        R.instance()
        oks = ok_outcomes(cv, body, decoders[path])
        bad = []
        nint = 0
        for k, o in oks:
            parents = {}
            for x in walk(o.value):
                kids = x.fields if isinstance(x, Adt) else (x if isinstance(x, (T, Tup, tuple)) else ())
                for y in kids:
                    if isinstance(y, tuple) and not isinstance(y, (T, Tup)):
                        for z in y:
                            parents.setdefault(id(z), x)
                    parents.setdefault(id(y), x)
            for x in walk(o.value):
                if be_integer(x) is not None and input_leaves(x):
                    nint += 1
                    par = parents.get(id(x))
                    if not (isinstance(par, T) and par[0] == "call" and par[1] in cv.news):
                        who = par[1] if isinstance(par, T) and par[0] == "call" else repr(par)[:60]
                        bad.append((k, who))
        key = "%s:reducing-coordinate:%s" % (prop, path) + (("→%s" % bad[0][1]) if bad else "")
        R.check(not bad and nint > 0 and oks, key,
                ("a coordinate of %s is parsed without the range check: the integer read from the input goes to %s (input %s)" % (path, bad[0][1], bad[0][0])) if bad else
                "%s: no successful outcome builds its result from integers read from the input" % path,
                body.file_line(), path, sample={"decoder": path, "successful_paths": len(oks), "input_integers": nint, "all_through": "Fp::new"})
    return R.finish()


def rule_funnel(prop, repo, cv, decoders):
    F = repo.F
    R = Rule("R-FUNNEL", "every successful decoder result is the payload of a successful validated construction AffineG::new(x, y), and every input byte it depends on enters "
             "through that call", floor=len(decoders))
    for path in decoders:
        body = F.bodies.get(path)
        if body is None:
            R.fail_closed("%s:funnel:%s:anchor" % (prop, path), "decoder %s not found" % path)
            continue
        R.instance()
        oks = ok_outcomes(cv, body, decoders[path])
        bad = []
        for k, o in oks:
            vc = validated_calls(o.value)
            inside = set()
            for c in vc:
                inside |= input_leaves(c)
            confirmed = [c for c in vc if (c[1], "Ok") in o.pc]
            if not confirmed or (input_leaves(o.value) - inside):
                bad.append((k, repr(o.value)[:160]))
        R.check(not bad and oks, "%s:funnel:%s" % (prop, path), "a successful result of %s is not derived from AffineG*::new: %s" % (path, bad[:1]), body.file_line(), path,
                sample={"decoder": path, "ok_paths": len(oks)})
    return R.finish()


def new_args(o):
    """(x, y) operands of the validated construction of a successful outcome"""
    vc = validated_calls(o.value)
    if len(vc) < 1:
        return None
    c = vc[0][1]
    return c[3] if len(c[3]) == 2 else None


def rule_parity_decoder(prop, repo, cv, decoders):
    F = repo.F
    R = Rule("R-PARITY-DEC", "compressed decoders: y is negated ⇔ (tag is even) ≠ is_even(canonical (real part of) the root) — every successful path of tags 2 and 3", floor=len(decoders), exhaustive=True)
    for path, L in decoders.items():
        body = F.bodies.get(path)
        if body is None:
            R.fail_closed("%s:parity:%s:anchor" % (prop, path), "decoder %s not found" % path)
            continue
        R.instance()
        rows, bad = [], []
        for b0 in (2, 3):
            outs = [o for o in cv.run(body, L, b0) if o.kind == "return" and isinstance(o.value, Adt) and o.value.variant in OKISH]
            if not outs:
                bad.append({"prefix": b0, "problem": "no successful path"})
            for o in outs:
                xy = new_args(o)
                par = [(a, c) for a, c in o.pc if isinstance(a, T) and a[0] == "call" and a[1].endswith("::is_even")]
                if xy is None or len(par) != 1:
                    bad.append({"prefix": b0, "problem": "parity test not found" if xy is not None else "no validated construction"})
                    continue
                y = xy[1]
                subj = par[0][0][3][0]
                ev = int(par[0][1])
                root, canon_ok = parity_subject(repo, cv, subj)
                neg = isinstance(y, T) and y[0] == "call" and y[1].split("::")[-1] == "neg" and len(y[3]) == 1
                ybase = y[3][0] if neg else y
                want = ((b0 & 1) == 0) != bool(ev)
                row = {"prefix": b0, "is_even(y)": ev, "negated": neg}
                rows.append(row)
                if neg != want or root != ybase or not canon_ok:
                    row = dict(row)
                    if root != ybase:
                        row["problem"] = "parity taken of something other than the square root"
                    if not canon_ok:
                        row["problem"] = "parity taken of a non-canonical value"
                    bad.append(row)
        R.check(not bad, "%s:parity:%s" % (prop, path), "parity selection in %s differs from the format: %s" % (path, bad[:4]), body.file_line(), path,
                sample={"decoder": path, "table": rows})
    return R.finish()


def parity_subject(repo, cv, subj):
    """`subj` is the U256 whose low bit is tested. → (field element (Fq or whole Fq2) it is the canonical value of, is it the
    Montgomery→canonical conversion of the base field?)"""
    if not (isinstance(subj, T) and subj[0] == "conv" and subj[2] == U256 and subj[1] in cv.fp):
        return None, False
    x = subj[3]
    # real part of an Fq2: accessor call or field c0
    if isinstance(x, T) and x[0] == "call" and len(x[3]) == 1:
        acc = accessor_names(repo, x[1])
        if acc == ["c0"]:
            return x[3][0], True
    if isinstance(x, T) and x[0] == "field" and (x[3] == "c0"):
        return x[1], True
    return x, True


_ACC = {}


def accessor_names(repo, d):
    from .access import Access
    a = _ACC.get(id(repo))
    if a is None:
        a = _ACC[id(repo)] = Access(repo)
    return a.accessor(d)


# ====================================================================== layouts
def tpath(repo, t):
    """Readable component path of an opaque value term relative to the function's input: ['affine(self)', 'x', 'c1'] …"""
    if isinstance(t, T):
        h = t[0]
        if h == "self":
            return ["self"]
        if h == "arg":
            return ["arg%d" % t[1]]
        if h == "field":
            b = tpath(repo, t[1])
            if b is None:
                return None
            nm = t[3] if len(t) > 3 and t[3] is not None else str(t[2])
            return b if nm == "0" else b + [nm]
        if h == "payload" and t[2] == "Some" and isinstance(t[1], T) and t[1][0] == "call" and t[1][1].endswith("::to_affine") and len(t[1][3]) == 1:
            b = tpath(repo, t[1][3][0])
            return None if b is None else ["affine(%s)" % ".".join(b)]
        if h == "call" and len(t[3]) == 1:
            acc = accessor_names(repo, t[1])
            if acc is not None:
                b = tpath(repo, t[3][0])
                return None if b is None else b + acc
        return None
    if isinstance(t, Adt) and len(t.fields) == 1 and t.variant in (None, t.name.split("::")[-1]):
        return tpath(repo, t.fields[0])
    return None


def norm_cell(c):
    """`be8(limbs[i])[k]` of a four-limb little-endian-limbed integer is byte 8·(3−i)+k of its big-endian image"""
    if isinstance(c, T) and c[0] == "be8" and isinstance(c[1], T) and c[1][0] == "idx" and isinstance(c[1][2], int) and 0 <= c[1][2] < 4:
        limbs = c[1][1]
        if isinstance(limbs, T) and limbs[0] == "field" and limbs[2] == 0:
            return T("be", limbs[1], 8 * (3 - c[1][2]) + c[2])
    return c


def byte_runs(repo, cv, cells, base_ap=None):
    """[(a, b, source path or None, canonical?)] — maximal runs of cells that are consecutive bytes 0..31 of the big-endian
    image of one 256-bit value; literal cells are reported as ('lit', value)."""
    out = []
    i = 0
    cells = [norm_cell(c) for c in cells]
    n = len(cells)
    while i < n:
        c = cells[i]
        if isinstance(c, T) and c[0] == "be" and c[2] == 0:
            v = c[1]
            j = 0
            while i + j < n and isinstance(cells[i + j], T) and cells[i + j][0] == "be" and cells[i + j][1] == v and cells[i + j][2] == j:
                j += 1
            src, canon = None, False
            big = v
            if isinstance(big, T) and big[0] == "field" and big[2] == 0:
                big = big[1]
            if isinstance(big, T) and big[0] == "conv" and big[2] == U256 and big[1] in cv.fp:
                canon = big[1]
                src = tpath(repo, big[3])
            elif isinstance(big, T):
                src = tpath(repo, big)
            out.append((i, i + j, ".".join(src) if src else None, canon, j))
            i += j
        else:
            out.append((i, i + 1, ("lit", c) if isinstance(c, int) else ("cell", repr(c)[:40]), None, 1))
            i += 1
    return out


FQ = "crate::fields::fp::Fq"


def expected_layout(kind, base="self"):
    """flat (offset-free) list of source paths, 32 bytes each, in output order"""
    if kind == "fq":
        return [base]
    if kind == "fq2":
        return [base + ".c1", base + ".c0"]
    if kind == "fq4":
        return expected_layout("fq2", base + ".c1") + expected_layout("fq2", base + ".c0")
    if kind == "fq12":
        return expected_layout("fq4", base + ".c2") + expected_layout("fq4", base + ".c1") + expected_layout("fq4", base + ".c0")
    raise ValueError(kind)


def encoder_tables():
    """(function, first payload byte, expected 32-byte sources in order, prefix kind)"""
    A = "affine(self)"
    return {
        "crate::fields::fq2::Fq2::to_slice": (0, expected_layout("fq2"), None),
        "crate::fields::fq4::Fq4::to_slice": (0, expected_layout("fq4"), None),
        "crate::fields::fq12::Fq12::to_slice": (0, expected_layout("fq12"), None),
        "crate::Fq2::to_slice": (0, expected_layout("fq2"), None),
        "crate::Gt::to_slice": (0, expected_layout("fq12"), None),
        "crate::G1::to_slice": (0, [A + ".x", A + ".y"], None),
        "crate::G2::to_slice": (0, expected_layout("fq2", A + ".x") + expected_layout("fq2", A + ".y"), None),
        "crate::G1::to_uncompressed": (1, [A + ".x", A + ".y"], "four"),
        "crate::G2::to_uncompressed": (1, expected_layout("fq2", A + ".x") + expected_layout("fq2", A + ".y"), "four"),
        "crate::G1::to_compressed": (1, [A + ".x"], "parity:" + A + ".y"),
        "crate::G2::to_compressed": (1, expected_layout("fq2", A + ".x"), "parity:" + A + ".y.c0"),
    }


def rule_layout(prop, repo, cv, which):
    """which: list of encoder paths (keys of encoder_tables())"""
    F = repo.F
    R = Rule("R-LAYOUT", "every byte an encoder emits is byte k of the 32-byte big-endian image of the canonical value (U256::from) of the component the SM9 layout puts "
             "there; the runs tile the output exactly; tag bytes are 4 / 2+parity of the canonical affine y (real part)", floor=len(which), exhaustive=True)
    tables = encoder_tables()
    got_all = {}
    for path in which:
        first, want, prefix = tables[path]
        b = F.bodies.get(path)
        R.instance()
        if b is None:
            R.fail_closed("%s:layout:%s:anchor" % (prop, path), "%s not found" % path)
            continue
        outs = cv.run(b, None, None)
        rets = [o for o in outs if o.kind == "return"]
        others = [o for o in outs if o.kind != "return"]
        problems = []
        got = None
        # the only tolerated non-return outcome: the identity has no affine form
        for o in others:
            ok_id = o.kind == "panic" and any(isinstance(a, T) and a[0] == "call" and ((a[1].endswith("::to_affine") and c == "None") or
                                                                                       (a[1].endswith("::is_zero") and c == 1 and tpath(repo, a[3][0]) == ["self"])) for a, c in o.pc)
            if not ok_id:
                problems.append("%s at %s (%s)" % (o.kind, o.site, o.detail))
        if not rets:
            problems.append("no returning path")
        for o in rets:
            cells = o.value if isinstance(o.value, Tup) else None
            if cells is None:
                problems.append("result is not a byte array: %r" % (o.value,))
                continue
            runs = byte_runs(repo, cv, list(cells))
            lay = [(a, bnd, src) for (a, bnd, src, canon, ln) in runs if a >= first]
            got = lay
            wantl = [(first + 32 * i, first + 32 * (i + 1), s) for i, s in enumerate(want)]
            if lay != wantl or len(cells) != first + 32 * len(want):
                problems.append("writes %s; the format is %s (%d bytes)" % ([x for x in lay][:6], wantl[:6], first + 32 * len(want)))
            noncanon = [(a, bnd, src) for (a, bnd, src, canon, ln) in runs if a >= first and canon != FQ]
            if noncanon:
                problems.append("bytes %s are not taken from the canonical (U256::from) value of a base-field element" % noncanon[:3])
            # tag byte
            if first == 1:
                tag = cells[0]
                if prefix == "four":
                    if tag != 4:
                        problems.append("tag byte is %r, the format wants 4" % (tag,))
                elif prefix and prefix.startswith("parity:"):
                    par = [(a, c) for a, c in o.pc if isinstance(a, T) and a[0] == "call" and a[1].endswith("::is_even")]
                    subj = None
                    if len(par) == 1:
                        s0 = par[0][0][3][0]
                        if isinstance(s0, T) and s0[0] == "conv" and s0[1] == FQ and s0[2] == U256:
                            p = tpath(repo, s0[3])
                            subj = ".".join(p) if p else None
                    wantsub = prefix[len("parity:"):]
                    if len(par) != 1 or subj != wantsub:
                        problems.append("parity is not taken of the canonical value of %s (tested: %s)" % (wantsub, subj))
                    elif tag != (2 if int(par[0][1]) else 3):
                        problems.append("tag byte is %r when y is %s; the format wants %d" % (tag, "even" if int(par[0][1]) else "odd", 2 if int(par[0][1]) else 3))
        got_all[path] = got
        R.check(not problems, "%s:layout:%s" % (prop, path), "%s: %s" % (path, "; ".join(problems[:3])), b.file_line(), path,
                sample={"fn": path, "bytes": first + 32 * len(want), "layout": ["[%d,%d) ← %s" % g for g in (got or [])][:6], "paths": len(rets)})
    return R.finish(), got_all


def component_ranges(repo, cv, v, prefix=""):
    """{component path of a decoded value: (first input byte, last+1)} for every strictly parsed integer inside it"""
    out = {}

    def rec(x, path):
        x0 = x
        if isinstance(x, T) and x[0] == "payload" and x[2] == "Some" and isinstance(x[1], T) and x[1][0] == "call" and x[1][1] in cv.news and len(x[1][3]) == 1:
            cells = be_integer(x[1][3][0])
            if cells is not None:
                idx = [c[1] if isinstance(c, T) and c[0] == "in" else None for c in cells]
                if all(i is not None for i in idx) and idx == list(range(idx[0], idx[0] + len(idx))):
                    out[path] = (idx[0], idx[0] + len(idx))
                else:
                    out[path] = ("scattered", tuple(idx[:4]))
                return
        if isinstance(x, Adt):
            names = None
            a = repo.F.adts.get(x.name)
            if a and a["variants"] and len(a["variants"][0]["fields"]) == len(x.fields):
                names = [f["name"] for f in a["variants"][0]["fields"]]
            for i, f in enumerate(x.fields):
                nm = names[i] if names else str(i)
                rec(f, path if nm == "0" else (path + "." + nm if path else nm))
    rec(v, prefix)
    return out


def decoder_tables():
    return {
        "crate::G1::from_slice": (64, None, {"x": (0, 32), "y": (32, 64)}),
        "crate::G2::from_slice": (128, None, {"x.c1": (0, 32), "x.c0": (32, 64), "y.c1": (64, 96), "y.c0": (96, 128)}),
        "crate::G1::from_compressed": (33, 2, {"x": (1, 33)}),
        "crate::G2::from_compressed": (65, 2, {"x.c1": (1, 33), "x.c0": (33, 65)}),
        "crate::G1::from_uncompressed": (65, 4, {"x": (1, 33), "y": (33, 65)}),
        "crate::G2::from_uncompressed": (129, 4, {"x.c1": (1, 33), "x.c0": (33, 65), "y.c1": (65, 97), "y.c0": (97, 129)}),
        "crate::fields::fq2::Fq2::from_slice": (64, None, {"c1": (0, 32), "c0": (32, 64)}),
        "crate::Fq2::from_slice": (64, None, {"c1": (0, 32), "c0": (32, 64)}),
    }


def rule_decoder_layout(prop, repo, cv, which=None):
    F = repo.F
    tables = decoder_tables()
    which = which or list(tables)
    R = Rule("R-LAYOUT-DEC", "decoders take every coordinate (component) from the byte range the format assigns to it, most significant byte first", floor=len(which), exhaustive=True)
    for path in which:
        L, b0, want = tables[path]
        b = F.bodies.get(path)
        R.instance()
        if b is None:
            R.fail_closed("%s:layout-dec:%s" % (prop, path), "%s not found" % path)
            continue
        outs = cv.run(b, L, b0)
        oks = [o for o in outs if o.kind == "return" and isinstance(o.value, Adt) and o.value.variant in OKISH]
        problems = []
        got = None
        if not oks:
            problems.append("no successful path for a %d-byte input" % L)
        for o in oks:
            if path.startswith("crate::G"):
                xy = new_args(o)
                if xy is None:
                    problems.append("no validated construction")
                    continue
                got = {}
                got.update(component_ranges(repo, cv, xy[0], "x"))
                got.update(component_ranges(repo, cv, xy[1], "y"))
            else:
                got = component_ranges(repo, cv, strip_newtypes(o.value.fields[0]), "")
            if got != want:
                problems.append("reads %s; the format is %s" % (got, want))
        R.check(not problems, "%s:layout-dec:%s" % (prop, path), "%s: %s" % (path, "; ".join(problems[:2])), b.file_line(), path,
                sample={"fn": path, "component_ranges": {k: list(v) for k, v in (got or {}).items()}})
    return R.finish()


def rule_conv_traits(prop, repo, cv):
    """From<T> for [u8; N] ≡ to_slice; TryFrom<&[u8]> ≡ from_slice (same outcome terms for every abstract input)."""
    F = repo.F
    R = Rule("R-CONV-TRAITS", "byte-conversion trait impls (From<T> for [u8; N], TryFrom<&[u8]>) produce exactly the outcomes of to_slice / from_slice of the same type", floor=6)
    for imp in F.impls:
        tr = imp.get("trait")
        tf = imp.get("trait_full", "")
        if tr == "core::convert::From" and imp["self_ty"].startswith("[u8; ") and "crate::" in tf:
            for item in imp["items"]:
                b = F.bodies.get(item)
                if b is None or not item.endswith("::from"):
                    continue
                R.instance()
                src = (b.rec.get("inputs") or [""])[0].lstrip("&").strip()
                src = re.sub(r"^'[a-z_]+ ", "", src)
                ts = F.bodies.get(src + "::to_slice")
                if ts is None:
                    R.fail_closed("%s:conv:%s" % (prop, item), "no to_slice on %s to compare with" % src)
                    continue
                a = sorted(repr((o.kind, o.value)) for o in cv.run(b, None, None))
                c = sorted(repr((o.kind, o.value)) for o in cv.run(ts, None, None))
                R.check(a == c and a, "%s:conv:%s" % (prop, item), "%s does not produce the bytes of value.to_slice()" % item, b.file_line(), item,
                        sample={"impl": item, "same_outcomes_as": src + "::to_slice"} if R.instances % 4 == 1 else None)
        if tr == "core::convert::TryFrom" and "&[u8]" in tf and imp.get("self_adt", "") and imp["self_adt"].startswith("crate::"):
            for item in imp["items"]:
                b = F.bodies.get(item)
                if b is None or not item.endswith("::try_from"):
                    continue
                R.instance()
                fs = F.bodies.get(imp["self_adt"] + "::from_slice")
                if fs is None:
                    R.fail_closed("%s:conv:%s" % (prop, item), "no from_slice on %s to compare with" % imp["self_adt"])
                    continue
                ea, eb = cv.explore(b), cv.explore(fs)
                diff = []
                for k in sorted(set(ea) | set(eb), key=str):
                    sa_ = ea[k] if k in ea else cv.summarise(cv.run(b, k[0], k[1]))
                    sb_ = eb[k] if k in eb else cv.summarise(cv.run(fs, k[0], k[1]))
                    va = sorted(repr(o.value.fields[0]) for o in sa_.outs if o.kind == "return" and isinstance(o.value, Adt) and o.value.variant in OKISH)
                    vb = sorted(repr(o.value.fields[0]) for o in sb_.outs if o.kind == "return" and isinstance(o.value, Adt) and o.value.variant in OKISH)
                    if va != vb or bool(sa_.panics) != bool(sb_.panics) or bool(sa_.unknown) != bool(sb_.unknown):
                        diff.append(k)
                R.check(not diff, "%s:conv:%s" % (prop, item), "%s differs from Self::from_slice for abstract inputs %s" % (item, diff[:4]), b.file_line(), item,
                        sample={"impl": item, "same_successes_as": imp["self_adt"] + "::from_slice", "inputs_compared": len(set(ea) | set(eb))})
    return R.finish()


# ====================================================================== what the scalar decoders compute (shape of the value term)
def reducing_constructors(repo):
    """Total functions U256 → prime field: they necessarily reduce."""
    out = {}
    fp = repo.fp_types()
    for b in repo.F.fn_bodies():
        ins = b.rec.get("inputs") or []
        o = b.rec.get("output")
        if o in fp and len(ins) == 1 and ins[0] == U256 and not b.impl_trait:
            out[b.rec["path"]] = o
    return out


def padded_input(cells, n):
    """cells == [0]*(len-n) + in[0..n)"""
    k = len(cells) - n
    return k >= 0 and all(c == 0 and isinstance(c, int) for c in cells[:k]) and all(isinstance(c, T) and c[0] == "in" and c[1] == i for i, c in enumerate(cells[k:]))


def scalar_shape(cv, repo, v, n, ap, reducing):
    """classify a successfully decoded field element: ('strict'|'reducing'|'wide', ok?)"""
    v = strip_newtypes(v)
    if isinstance(v, T) and v[0] == "payload" and v[2] == "Some" and isinstance(v[1], T) and v[1][0] == "call" and cv.news.get(v[1][1]) == ap and len(v[1][3]) == 1:
        x = v[1][3][0]
        cells = be_integer(x)
        if cells is not None and len(cells) == 32:
            return "strict", padded_input(cells, n)
        if isinstance(x, T) and x[0] == "field" and x[2] == 1 and isinstance(x[1], T) and x[1][0] == "call" and x[1][1].endswith("::divrem") and len(x[1][3]) == 2:
            cells = be_integer(x[1][3][0])
            return "wide", cells is not None and len(cells) == 64 and padded_input(cells, n) and cv._is_modulus_of(x[1][3][1], ap)
    if isinstance(v, T) and v[0] == "call" and reducing.get(v[1]) == ap and len(v[3]) == 1:
        cells = be_integer(v[3][0])
        return "reducing", cells is not None and len(cells) == 32 and padded_input(cells, n)
    return "other", False


def rule_value_shape(prop, repo, cv, entries):
    """entries: {fn path: field type}. Every Some(v) of a scalar from_slice is the big-endian integer of the (zero-left-padded)
    input, range-checked (< 32 bytes), reduced by the Montgomery constructor (32) or by division by the field's modulus (> 32)."""
    F = repo.F
    R = Rule("R-VALUE-SHAPE", "every accepted scalar is built from the big-endian integer of the zero-left-padded input: strict Fp::new below 32 bytes, the reducing "
             "constructor at 32, remainder by the type's own modulus above (value terms of every successful path)", floor=len(entries), exhaustive=True)
    reducing = reducing_constructors(repo)
    for path, ap in entries.items():
        b = F.bodies.get(path)
        R.instance()
        if b is None:
            R.fail_closed("%s:value:%s:anchor" % (prop, path), "%s not found" % path)
            continue
        bad = []
        kinds = {}
        for (n, b0), o in ok_outcomes(cv, b, None):
            kind, ok = scalar_shape(cv, repo, o.value.fields[0], n, ap, reducing)
            kinds.setdefault(kind, set()).add(n)
            want = "strict" if n < 32 else ("wide" if n > 32 else None)
            # below 32 bytes the integer is < 2^(8n) ≤ 2^248 < the modulus: the range check cannot fail, so the reducing constructor
            # (which then reduces nothing) is the same function as the strict one
            small = n < 32 and 2 ** (8 * n) <= min(repo.P.q, repo.P.r)
            if not ok or (want and kind != want and not (small and kind == "reducing")) or (n == 32 and kind not in ("strict", "reducing")):
                bad.append((n, kind, repr(o.value)[:120]))
        R.check(not bad and kinds, "%s:value:%s" % (prop, path), "%s: accepted value is not the (padded) big-endian integer of the input, suitably reduced: %s" % (path, bad[:2]),
                b.file_line(), path, sample={"fn": path, "by_length": {k: "%d..%d" % (min(v), max(v)) for k, v in kinds.items()}})
    return R.finish()


def rule_hash(prop, repo, cv, paths_):
    """from_hash(h) = (U512(0-pad(h)) mod canonical(−1)) + 1 for every length ≤ 64, None above."""
    F = repo.F
    R = Rule("R-HASH", "from_hash = (U512(zero-left-padded input) mod canonical(−Fr::one())) + Fr::one() on every successful path; the remainder (or a value tested "
             "< divisor) is what goes through Fr::new", floor=len(paths_), exhaustive=True)
    for path in paths_:
        b = F.bodies.get(path)
        R.instance()
        if b is None:
            R.fail_closed("%s:hash:%s:anchor" % (prop, path), "%s not found" % path)
            continue
        bad = []
        npaths = 0
        for (n, b0), o in ok_outcomes(cv, b, None):
            npaths += 1
            v = strip_newtypes(o.value.fields[0])
            ok = False
            why = repr(v)[:140]
            if isinstance(v, T) and v[0] == "call" and v[1].split("::")[-1] in ("add", "add_inplace") and len(v[3]) == 2:
                a, c = v[3]
                one = [x for x in (a, c) if isinstance(x, T) and x[0] == "call" and x[1].split("::")[-1] == "one" and not x[3]]
                pay = [x for x in (a, c) if isinstance(x, T) and x[0] == "payload" and x[2] == "Some"]
                if len(one) == 1 and len(pay) == 1 and isinstance(pay[0][1], T) and pay[0][1][0] == "call" and pay[0][1][1] in cv.news:
                    ap = cv.news[pay[0][1][1]]
                    x = pay[0][1][3][0]
                    dvs = []
                    if isinstance(x, T) and x[0] == "field" and x[2] == 1 and isinstance(x[1], T) and x[1][0] == "call" and x[1][1].endswith("::divrem"):
                        num, dv = x[1][3]
                        cells = be_integer(num)
                        ok = cells is not None and len(cells) == 64 and padded_input(cells, n)
                        dvs.append(dv)
                        if not ok:
                            why = "dividend is not the padded input"
                    else:
                        # a value tested < divisor on this path
                        for atom, ch in o.pc:
                            if isinstance(atom, T) and atom[0] == "call" and atom[1].split("::")[-1] == "lt" and ch == 1 and atom[3][0] == x:
                                dvs.append(atom[3][1])
                                cells = be_integer(x)
                                ok = cells is not None and padded_input(cells, n)
                    for dv in dvs:
                        if isinstance(dv, T) and dv[0] == "call" and dv[1].endswith(" as core::ops::Deref>::deref") and len(dv[3]) == 1 and isinstance(dv[3][0], T) and dv[3][0][0] == "static":
                            # computed once and kept in a lazy static: the value its initialiser returns
                            sv = repo.static_values().get(dv[3][0][1])
                            if sv and sv.get("body") is not None:
                                try:
                                    souts = [so for so in cv._machine().run(sv["body"], []) if so.kind == "return"]
                                except Exception:
                                    souts = []
                                if len(souts) == 1:
                                    dv = strip_newtypes(souts[0].value) if not isinstance(souts[0].value, T) else souts[0].value
                        good = isinstance(dv, T) and dv[0] == "conv" and dv[1] == ap and dv[2] == U256 and isinstance(dv[3], T) and dv[3][0] == "call" and dv[3][1].split("::")[-1] == "neg" \
                            and isinstance(dv[3][3][0], T) and dv[3][3][0][0] == "call" and dv[3][3][0][1].split("::")[-1] == "one"
                        if not good:
                            ok = False
                            why = "divisor is not canonical(−one()): %r" % (dv,)
                    if not dvs:
                        ok = False
            if not ok:
                bad.append((n, why))
        R.check(not bad and npaths > 0, "%s:hash:%s" % (prop, path), "%s: a successful result is not (padded input mod canonical(−1)) + 1: %s" % (path, bad[:2]), b.file_line(), path,
                sample={"fn": path, "successful_paths": npaths})
    return R.finish()


def rule_is_even(prop, repo, cv):
    """Fq::is_even / Fq2::is_even return the low bit of the canonical value of the element (its real part)."""
    F = repo.F
    R = Rule("R-PARITY-SUBJECT", "is_even answers with the parity of the canonical (U256::from) value of the element / of the real part", floor=2, exhaustive=True)
    for w, want in (("crate::Fq::is_even", "self"), ("crate::Fq2::is_even", "self.c0")):
        b = F.bodies.get(w)
        R.instance()
        if b is None:
            R.fail_closed("%s:parity-enc:%s" % (prop, w), "%s not found" % w)
            continue
        outs = cv.run(b, None, None)
        bad = []
        for o in outs:
            par = [(a, c) for a, c in o.pc if isinstance(a, T) and a[0] == "call" and a[1].endswith("::is_even")]
            if o.kind != "return" or len(par) != 1 or len(o.pc) != 1:
                bad.append("outcome %s with %d tests" % (o.kind, len(o.pc)))
                continue
            s0 = par[0][0][3][0]
            subj = None
            if isinstance(s0, T) and s0[0] == "conv" and s0[1] == FQ and s0[2] == U256:
                p = tpath(repo, s0[3])
                subj = ".".join(p) if p else None
            if subj != want:
                bad.append("tests %s" % (subj or repr(s0)[:80]))
            elif bool(o.value) != bool(par[0][1]):
                bad.append("returns %r when the canonical value is %s" % (o.value, "even" if par[0][1] else "odd"))
        R.check(not bad and len(outs) == 2, "%s:parity-enc:%s" % (prop, w), "%s does not test the canonical value of %s: %s" % (w, "the real part" if want != "self" else "the element", bad[:2]),
                b.file_line(), w, sample={"fn": w, "tests": "canonical(%s) is even" % want})
    return R.finish()


def rule_scalar_encoders(prop, repo, cv):
    """Fr/Fq to_slice and Fq::to_big_endian emit the 32-byte big-endian image of the canonical value."""
    F = repo.F
    R = Rule("R-CANON-OUT", "to_slice / to_big_endian emit the big-endian image of the canonical value (U256::from(self)), never the Montgomery limbs", floor=5, exhaustive=True)
    fp = repo.fp_types()
    targets = [(ap + "::to_slice", ap) for ap in fp] + [("crate::Fr::to_slice", None), ("crate::Fq::to_slice", None)]
    for path, ap in targets:
        b = F.bodies.get(path)
        R.instance()
        if b is None:
            R.fail_closed("%s:canon:%s" % (prop, path), "%s not found" % path)
            continue
        outs = cv.run(b, None, None)
        ok = len(outs) == 1 and outs[0].kind == "return" and isinstance(outs[0].value, Tup)
        runs = byte_runs(repo, cv, list(outs[0].value)) if ok else []
        ok = ok and len(runs) == 1 and runs[0][:3] == (0, 32, "self") and runs[0][3] in fp and (ap is None or runs[0][3] == ap)
        R.check(ok, "%s:canon:%s" % (prop, path), "%s does not emit the 32 big-endian bytes of U256::from(self): %s" % (path, runs[:2] or [repr(o) for o in outs][:2]), b.file_line(), path,
                sample={"fn": path, "bytes": "[0,32) ← canonical(self)"})
    # to_big_endian(self, &mut [u8]): Ok ⇔ 32 bytes, and then the buffer holds the canonical image
    for path in ("crate::Fq::to_big_endian",):
        b = F.bodies.get(path)
        R.instance()
        if b is None:
            R.fail_closed("%s:canon:%s" % (prop, path), "%s not found" % path)
            continue
        sp, kinds = cv.shape(b)
        problems = []
        for n in cv.length_domain(b):
            for o in cv.run(b, n, None):
                good = o.kind == "return" and isinstance(o.value, Adt) and ((o.value.variant == "Ok") == (n == 32))
                if not good:
                    problems.append("len %d: %r" % (n, o))
                elif n == 32:
                    buf = [v for k, v in sorted(o.roots.items()) if isinstance(v, Tup) and len(v) == 32]
                    runs = byte_runs(repo, cv, list(buf[0])) if buf else []
                    if not (len(runs) == 1 and runs[0][:3] == (0, 32, "self") and runs[0][3] == FQ):
                        problems.append("buffer after the call: %s" % runs[:2])
        R.check(not problems, "%s:canon:%s" % (prop, path), "%s: %s" % (path, problems[:2]), b.file_line(), path, sample={"fn": path, "ok_iff_len": 32})
    return R.finish()
