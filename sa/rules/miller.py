"""Miller-index abstract interpretation (C01/C02/C03/C17).

Both Miller loops are executed over an abstract domain in which a G2 value is an integer combination of {Q, π(Q), π²(Q)},
a line evaluation is a tag (kind, T, X) and the accumulator is the index n of f_{n,Q} plus the multiset of Frobenius lines
already multiplied in. Loop counters and digit arrays are literals and are propagated as constants. The recurrence
    f_1 = 1;  f_{2n} = f_n² · l_{nQ,nQ};  f_{n±1} = f_n · l_{nQ,±Q}
and the R-ate tail  l_{NQ,π(Q)} · l_{NQ+π(Q),−π²(Q)}  with N = 6t+2 are the specification. What a line evaluates to is not
modelled (contract of the line functions)."""
from core.report import Rule
from core.facts import FactsError
from core.absexec import AbsExec, Adt, Tup, Ref, TOP, Frame, deref_value, store_through
from core.absexec import same_module_inline
from . import shared
from .roles import PairingRoles


def pf(**kw):
    return tuple(sorted((k, v) for k, v in kw.items() if v))


def padd(a, b, sign=1):
    d = dict(a)
    for k, v in b:
        d[k] = d.get(k, 0) + sign * v
    return tuple(sorted((k, v) for k, v in d.items() if v))


def pscale(a, n):
    return tuple(sorted((k, v * n) for k, v in a))


class Pt:
    def __init__(self, form):
        self.form = form

    def __repr__(self):
        return "Pt%s" % (dict(self.form),)


class Line:
    def __init__(self, kind, T, X=None):
        self.kind, self.T, self.X = kind, T, X

    def __repr__(self):
        return "%s(T=%s%s)" % (self.kind, dict(self.T), ", X=%s" % (dict(self.X),) if self.X is not None else "")


class Acc:
    """f_{n,Q} times the Frobenius lines in `tail`; pending = a squaring waiting for its tangent."""
    def __init__(self, n, pending=False, tail=()):
        self.n, self.pending, self.tail = n, pending, tuple(tail)

    def key(self):
        return (self.n, self.pending, self.tail)

    def __repr__(self):
        return "f[%d%s%s]" % (self.n, "²?" if self.pending else "", (" · tail%s" % (self.tail,)) if self.tail else "")


class It:
    def __init__(self, items, pos=0, from_vec=False, fn=None):
        self.items, self.pos, self.from_vec, self.fn = list(items), pos, from_vec, fn


class Vec:
    def __init__(self, items=None):
        self.items = list(items or [])

    def __repr__(self):
        return "Vec(%d)" % len(self.items)


class MillerDomain:
    def __init__(self, F, N, roles=None, twist=None):
        self.F = F
        self.N = N
        self.errors = []
        self.events = []
        self.roles = roles or PairingRoles(F)
        self.twist = twist or {}        # path of a (&G2)->G2 helper -> Frobenius power it applies

    def err(self, term, msg):
        sp = (term or {}).get("span", {})
        self.errors.append("%s:%s %s" % (sp.get("file"), sp.get("line"), msg))

    def variant_index(self, ex, name):
        return {"None": 0, "Some": 1}.get(name)

    def const(self, ex, op):
        if "promoted" in op:
            pb = self.F.promoted.get((op.get("uneval_def"), op["promoted"]))
            if pb is not None:
                sub = AbsExec(self.F, self)
                rs = sub.run(pb, [])
                if len(rs) == 1:
                    return rs[0][0]
            return TOP
        if "uneval_def" in op and op["uneval_def"] in self.F.consts:
            c = self.F.consts[op["uneval_def"]]
            if "int" in c:
                return int(c["int"])
            if "bytes_hex" in c:
                raw = list(bytes.fromhex(c["bytes_hex"]))
                import re as _re
                mm = _re.match(r"^\[(.+); (\d+)\]$", (c.get("ty") or "").strip())
                adt = self.F.adts.get(mm.group(1)) if mm else None
                if adt and adt.get("kind") == "Enum" and len(raw) == int(mm.group(2)) and all(not v.get("fields") for v in adt["variants"]):
                    # a table of a crate-local fieldless enum (one byte each, const-evaluated by rustc): its variants by discriminant
                    by = {(v.get("discr", i) if isinstance(v.get("discr", i), int) else i): v["name"] for i, v in enumerate(adt["variants"])}
                    if all(x in by for x in raw):
                        return Tup([Adt(mm.group(1), by[x], []) for x in raw])
                # a byte table wrapped in single-field structs (a schedule newtype): the wrappers around the same bytes
                ty = (c.get("ty") or "").strip()
                wraps = []
                for _ in range(3):
                    sadt = self.F.adts.get(ty.split("<")[0])
                    fs = ((sadt or {}).get("variants") or [{}])[0].get("fields") or []
                    if not sadt or sadt.get("kind") != "Struct" or len(fs) != 1:
                        break
                    wraps.append((ty.split("<")[0], sadt["variants"][0]["name"]))
                    ty = (fs[0].get("ty") or "").strip()
                if wraps and _re.match(r"^\[u8; (\d+|[A-Z][A-Za-z0-9_]*)\]$", ty):
                    v = Tup(raw)
                    for nm, vn in reversed(wraps):
                        v = Adt(nm, vn, [v])
                    return v
                return Tup(raw)
        return TOP

    def mul_line(self, term, f, g):
        if not isinstance(f, Acc) or not isinstance(g, Line):
            self.err(term, "accumulator multiplied by something that is not a line value (%r · %r)" % (f, g))
            return TOP
        if g.kind == "tan":
            if not f.pending:
                self.err(term, "tangent multiplied in without a preceding squaring (%r)" % f)
            if pscale(g.T, 2) != pf(Q=f.n):
                self.err(term, "tangent taken at T=%s while the accumulator is f_%d after squaring (needs T=%d·Q)" % (dict(g.T), f.n, f.n // 2))
            return Acc(f.n, False, f.tail)
        if f.pending:
            self.err(term, "chord line multiplied in between a squaring and its tangent")
        if g.T != padd(pf(Q=f.n), tuple((k, v) for k, v in f.tail_points())) if False else False:
            pass
        X = dict(g.X)
        if set(X) == {"Q"} and X["Q"] in (1, -1) and not f.tail:
            if g.T != pf(Q=f.n):
                self.err(term, "chord through T=%s and ±Q while the accumulator is f_%d" % (dict(g.T), f.n))
            return Acc(f.n + X["Q"], False, f.tail)
        # Frobenius tail
        expectT = pf(Q=f.n)
        for tl in f.tail:
            expectT = padd(expectT, tl)
        if g.T != expectT:
            self.err(term, "Frobenius line taken at T=%s, expected %s" % (dict(g.T), dict(expectT)))
        return Acc(f.n, False, f.tail + (g.X,))

    def call(self, ex, fk, args, term, fr):
        n = fk.name
        a = [deref_value(ex, x) for x in args]
        d = fk.d
        # ---- iterators over literals
        if n in ("iter", "into_iter") and len(a) == 1:
            if isinstance(a[0], Vec):
                return It(a[0].items, 0, True)
            if isinstance(a[0], Tup):
                return It(a[0].items)
            if isinstance(a[0], It):
                return a[0]
            if isinstance(a[0], Adt) and a[0].name.endswith("ops::Range") and all(isinstance(x, int) for x in a[0].fields):
                return It(range(a[0].fields[0], a[0].fields[1]))
            return TOP
        if n in ("deref", "as_slice", "as_ref", "borrow") and len(a) == 1 and isinstance(a[0], Vec):
            return a[0]
        if n == "map" and len(a) == 2 and isinstance(a[0], It) and a[0].fn is None:
            return It(a[0].items, a[0].pos, a[0].from_vec, args[1])       # lazy: the closure runs when an element is taken
        # ---- a schedule built with iterator adaptors over the literal bits of the loop constant
        if n == "once" and len(a) == 1 and d.startswith("core::iter"):
            return It([a[0]])
        if n == "then_some" and len(a) == 2 and isinstance(a[0], (bool, int)) and d.startswith("core::bool"):
            return Adt("core::option::Option", "Some", [a[1]]) if a[0] else Adt("core::option::Option", "None", [])
        if n == "chain" and len(a) == 2 and isinstance(a[0], It):
            second = a[1]
            if isinstance(second, Adt) and second.name == "core::option::Option" and isinstance(second.variant, str):
                second = It(list(second.fields[:1]) if second.variant == "Some" else [])
            if isinstance(second, It) and a[0].fn is None and second.fn is None:
                return It(list(a[0].items[a[0].pos:]) + list(second.items[second.pos:]))
            return TOP
        if n == "flat_map" and len(a) == 2 and isinstance(a[0], It) and a[0].fn is None:
            from core.absexec import call_value
            out = []
            for x in a[0].items[a[0].pos:]:
                r = call_value(ex, args[1], [x])
                if isinstance(r, Adt) and r.name == "core::option::Option" and isinstance(r.variant, str):
                    r = It(list(r.fields[:1]) if r.variant == "Some" else [])
                if not isinstance(r, It) or r.fn is not None:
                    return TOP
                out += list(r.items[r.pos:])
            return It(out)
        if n == "rev" and len(a) == 1:
            if isinstance(a[0], Adt) and a[0].name.endswith("ops::Range") and all(isinstance(x, int) for x in a[0].fields):
                return It(reversed(range(a[0].fields[0], a[0].fields[1])))
            if isinstance(a[0], It):
                return It(reversed(a[0].items[a[0].pos:]))
            return TOP
        if n == "next" and len(a) == 1 and isinstance(a[0], It):
            it = a[0]
            if it.pos < len(it.items):
                v = it.items[it.pos]
                if it.from_vec:
                    self.events.append(("coeff", it.pos))
                store_through(ex, args[0], It(it.items, it.pos + 1, it.from_vec, it.fn))
                if it.fn is not None:
                    from core.absexec import call_value
                    v = call_value(ex, it.fn, [v])
                return Adt("core::option::Option", "Some", [v])
            return Adt("core::option::Option", "None", [])
        if n == "leading_zeros" and len(a) == 1 and isinstance(a[0], int):
            bits = 128 if "u128" in fk.i else 64
            return bits - a[0].bit_length()
        # ---- points
        if n == "is_zero" and len(a) == 1 and isinstance(a[0], Pt):
            return ("cond", "iszero", None, False)
        if n == "is_empty" and len(a) == 1 and isinstance(a[0], Vec):
            return len(a[0].items) == 0
        if n == "len" and len(a) == 1 and isinstance(a[0], (Vec, Tup)):
            return len(a[0].items)          # (the literal schedule walked by index: `for k in 0..TABLE.len()`)
        if n == "neg" and len(a) == 1 and isinstance(a[0], Pt):
            return Pt(pscale(a[0].form, -1))
        if n == "double" and len(a) == 1 and isinstance(a[0], Pt):
            return Pt(pscale(a[0].form, 2))
        if n == "add_assign" and len(a) == 2 and isinstance(a[0], Pt) and isinstance(a[1], Pt):
            store_through(ex, args[0], Pt(padd(a[0].form, a[1].form)))
            return Tup([])
        if n == "add" and len(a) == 2 and isinstance(a[0], Pt) and isinstance(a[1], Pt):
            return Pt(padd(a[0].form, a[1].form))
        role = self.roles.role_of(d)
        if role == "twist_frob" and a and isinstance(a[0], Pt):
            e = self.twist.get(d)
            if e is None:
                self.err(term, "%s is not recognised as the twist Frobenius π or π²" % d)
                return TOP
            return Pt(frob(a[0].form, e))
        if role == "twist_frob_multi" and a and isinstance(a[0], Pt):
            es = self.twist.get(d)
            if not isinstance(es, tuple):
                self.err(term, "%s is not recognised as a tuple of twist Frobenius images" % d)
                return TOP
            return Tup([Pt(pscale(frob(a[0].form, e), sg)) for e, sg in es])
        if role == "twist_frob_by" and a and isinstance(a[0], Pt):
            return Adt("core::option::Option", "Some", [Pt(frob(a[0].form, 1))])
        if n in ("unwrap", "expect") and a and isinstance(a[0], Adt) and a[0].variant == "Some":
            return a[0].fields[0]
        # ---- lines
        def pair(g):
            # the (numerator, denominator) pair: a tuple, or the crate-local two-field struct the function declares
            out = (self.F.bodies.get(d).rec.get("output") if self.F.bodies.get(d) is not None else "") or ""
            adt = self.F.adts.get(out)
            if adt and len(adt.get("variants") or []) == 1:
                return Adt(out, adt["variants"][0]["name"], [g, g])
            return Tup([g, g])
        if role == "tangent_eval" and isinstance(a[0], Pt):
            return pair(Line("tan", a[0].form))
        if role == "chord_eval" and isinstance(a[0], Pt) and isinstance(a[1], Pt):
            return pair(Line("line", a[0].form, a[1].form))
        if role == "tangent_step" and isinstance(a[0], Pt):
            g = Line("tan", a[0].form)
            store_through(ex, args[0], Pt(pscale(a[0].form, 2)))
            return g
        if role == "chord_step" and isinstance(a[0], Pt) and isinstance(a[1], Pt):
            g = Line("line", a[0].form, a[1].form)
            store_through(ex, args[0], Pt(padd(a[0].form, a[1].form)))
            return g
        if role == "sparse":
            ls = [x for x in a if isinstance(x, Line)]
            if ls and all(x is ls[0] or (x.kind, x.T, x.X) == (ls[0].kind, ls[0].T, ls[0].X) for x in ls):
                out = (self.F.bodies.get(d).rec.get("output") if self.F.bodies.get(d) is not None else "") or ""
                adt = self.F.adts.get(out)
                if adt and len(adt.get("variants") or []) == 1 and len(adt["variants"][0]["fields"]) == 1:
                    return Adt(out, adt["variants"][0]["name"], [ls[0]])       # a newtype around the line value
                return ls[0]
            return TOP
        # ---- accumulators
        if n == "one" and not a and "Fq12" in fk.i:
            return Acc(1)
        if n == "squared" and len(a) == 1 and isinstance(a[0], Acc):
            if a[0].pending:
                self.err(term, "two squarings without a tangent in between")
            if a[0].tail:
                self.err(term, "squaring after a Frobenius line")
            return Acc(a[0].n * 2, True, a[0].tail)
        local_struct = lambda v: isinstance(v, Adt) and isinstance(v.name, str) and v.name in self.F.adts
        if n in ("mul_assign", "mul", "squared") and a and local_struct(a[0]):
            return NotImplemented          # an operation of a crate-local wrapper type (a numerator / denominator pair): analysed in place
        if n == "mul_assign" and len(a) == 2:
            store_through(ex, args[0], self.mul_line(term, a[0], a[1]))
            return Tup([])
        if n == "mul" and len(a) == 2 and isinstance(a[0], Acc) and isinstance(a[1], Line):
            return self.mul_line(term, a[0], a[1])
        if n in ("mul_015",) and len(a) == 2:
            return self.mul_line(term, a[0], a[1])
        if n == "inverse" and len(a) == 1 and isinstance(a[0], Acc):
            return Adt("core::option::Option", "Some", [Adt("inv", None, [a[0]])])
        if n == "mul" and len(a) == 2 and isinstance(a[0], Acc) and isinstance(a[1], Adt) and a[1].name == "inv":
            den = a[1].fields[0]
            if den.key() != a[0].key():
                self.err(term, "numerator %r and denominator %r were not updated in lock-step" % (a[0], den))
            return a[0]
        # ---- vectors of coefficients
        if n == "new" and "alloc::vec::Vec" in d and not a:
            return Vec()
        if n == "push" and len(a) == 2 and isinstance(a[0], Vec):
            store_through(ex, args[0], Vec(a[0].items + [a[1]]))
            return Tup([])
        if n == "index" and len(a) == 2 and isinstance(a[0], Vec) and isinstance(a[1], int):
            if 0 <= a[1] < len(a[0].items):
                self.events.append(("coeff", a[1]))
                return a[0].items[a[1]]
            self.err(term, "coefficient index %d out of range (%d coefficients)" % (a[1], len(a[0].items)))
            return TOP
        if n in ("new", "mul_by_nonresidue", "zero", "scale") and "Fq" in fk.i:
            return TOP
        return NotImplemented

    def index(self, ex, v, i):
        """`coeffs[pos]` on the coefficient list seen as a slice (a cursor type reading through `&[..]`)"""
        if isinstance(v, Vec) and isinstance(i, int):
            if 0 <= i < len(v.items):
                self.events.append(("coeff", i))
                return v.items[i]
            self.errors.append("coefficient index %d out of range (%d coefficients)" % (i, len(v.items)))
        return TOP

    def aggregate(self, ex, adt, variant, ops):
        return NotImplemented

    def field(self, ex, v, i):
        # the components of a stored coefficient triple stand for the line they encode
        return v if isinstance(v, Line) else TOP

    def refine(self, ex, fr, cond, truth):
        if cond[1] == "iszero" and truth:
            fr.env["__idQ"] = True


def frob(form, e):
    out = {}
    for k, v in form:
        lvl = {"Q": 0, "pi1": 1, "pi2": 2}[k] + e
        if lvl > 2:
            return (("unknown", 1),)
        out[["Q", "pi1", "pi2"][lvl]] = out.get(["Q", "pi1", "pi2"][lvl], 0) + v
    return tuple(sorted(out.items()))


def rules(prop, repo):
    F, P = repo.F, repo.P
    N = 6 * P.t + 2
    R = Rule("R-MILLER-INDEX", "both Miller loops follow f_1=1, f_{2n}=f_n²·l_{nQ,nQ}, f_{n±1}=f_n·l_{nQ,±Q} up to n = 6t+2 and then multiply l_{NQ,π(Q)}·l_{NQ+π(Q),−π²(Q)}; "
             "numerator and denominator updated in lock-step; the prepared coefficients are produced and consumed in the same order, all of them", floor=2, exhaustive=True)
    want_tail = (pf(pi1=1), pf(pi2=-1))
    roles = PairingRoles(F)
    from .consts import twist_powers
    twist = twist_powers(repo, roles)
    # ---- Jacobian loop
    R.instance()
    if len(roles.jac_loop) != 1:
        R.fail_closed("%s:miller:jacobian:anchor" % prop, "the public Jacobian Miller loop (&G2, &G1) -> Fq12 was not found: %s" % [b.rec["path"] for b in roles.jac_loop])
    else:
        b = roles.jac_loop[0]
        dom = MillerDomain(F, N, roles, twist)
        ex = AbsExec(F, dom, inline=same_module_inline(F, b.rec["path"]), max_steps=400000)
        hq = Frame(b, [])
        hq.env[0] = Pt(pf(Q=1))
        hp = Frame(b, [])
        hp.env[0] = ("P",)
        try:
            rs = ex.run(b, [Ref(hq, 0), Ref(hp, 0)])
        except FactsError as e:
            rs = []
            dom.errors.append(str(e))
        ok = len(rs) == 1 and isinstance(rs[0][0], Acc) and rs[0][0].n == N and rs[0][0].tail == want_tail and not rs[0][0].pending
        R.check(ok and not dom.errors, "%s:miller:jacobian" % prop,
                "G2::miller_loop does not compute f_{6t+2,Q}·l_{NQ,π(Q)}·l_{NQ+π(Q),−π²(Q)}: result %r; %s" % (rs[0][0] if rs else None, dom.errors[:3]), b.file_line(), b.rec["path"],
                sample={"loop": b.rec["path"], "result": repr(rs[0][0]) if rs else None, "index_equals_6t+2": ok, "abstract_steps": ex.steps})
    # ---- prepared: producer then consumer
    pb, cb = roles.producer, roles.consumer
    R.instance()
    if pb is None or cb is None:
        R.fail_closed("%s:miller:prepared:anchor" % prop, "From<G2> for the prepared type / its Miller loop not found")
    else:
        dom = MillerDomain(F, N, roles, twist)
        ex = AbsExec(F, dom, inline=same_module_inline(F, pb.rec["path"]), max_steps=400000)
        try:
            rs = ex.run(pb, [Pt(pf(Q=1))])
        except FactsError as e:
            rs = []
            dom.errors.append(str(e))
        perr = list(dom.errors)
        tables = []
        for v, frx in rs:
            if isinstance(v, Adt) and v.name == roles.prepared_ty and isinstance(v.fields[0], Tup) and v.fields[0].items and all(isinstance(x, Line) for x in v.fields[0].items):
                # the coefficients in a fixed-size array filled through a write cursor: the same list, every slot written
                v = Adt(v.name, v.variant, [Vec(v.fields[0].items)] + list(v.fields[1:]))
            if isinstance(v, Adt) and v.name == roles.prepared_ty and isinstance(v.fields[0], Vec):
                tables.append((v, bool(frx.env.get("__idQ"))))
            else:
                perr.append("a path of the producer returns %r" % (v,))
        if not tables or perr:
            R.violation("%s:miller:prepared" % prop, "G2Prepared::from does not return a coefficient vector built from tangent/line steps on every path: %s" % perr[:2], pb.file_line(), pb.rec["path"])
        else:
            bad = []
            smp = None
            for table, idq in tables:
                coeffs = table.fields[0]
                dom2 = MillerDomain(F, N, roles, twist)
                ex2 = AbsExec(F, dom2, inline=same_module_inline(F, cb.rec["path"]), max_steps=400000)
                hs = Frame(cb, [])
                hs.env[0] = table
                hp = Frame(cb, [])
                hp.env[0] = Adt("crate::groups::G", None, [TOP, TOP, TOP])
                try:
                    rs2 = ex2.run(cb, [Ref(hs, 0), Ref(hp, 0)])
                except FactsError as e:
                    rs2 = []
                    dom2.errors.append(str(e))
                used = [e[1] for e in dom2.events if e[0] == "coeff"]
                full = len(rs2) == 1 and isinstance(rs2[0][0], Acc) and rs2[0][0].n == N and rs2[0][0].tail == want_tail and not rs2[0][0].pending and used == list(range(len(coeffs.items)))
                trivial = idq and len(rs2) == 1 and isinstance(rs2[0][0], Acc) and rs2[0][0].key() == Acc(1).key() and not used
                if dom2.errors or not (full or trivial):
                    bad.append("table of %d coefficients%s: result %r, consumed %d in order=%s, %s" % (len(coeffs.items), " (identity-Q path)" if idq else "", rs2[0][0] if rs2 else None, len(used),
                                                                                                      used == list(range(len(coeffs.items))), dom2.errors[:2]))
                if not idq:
                    smp = {"producer": pb.rec["path"], "consumer": cb.rec["path"], "coefficients": len(coeffs.items), "consumed_in_order": used == list(range(len(coeffs.items))), "result": repr(rs2[0][0]) if rs2 else None,
                           "producer_paths": len(tables)}
            R.check(not bad, "%s:miller:prepared" % prop, "prepared Miller loop: %s" % bad[:2], cb.file_line(), cb.rec["path"], sample=smp)
    return [R.finish()]
