"""Carry chains of the multiword loops (C06, C12).

A local that receives the carry-out of a 64x64+64 step (`(tmp >> 64) as u64`, tmp: u128 — the `adc!` / `mac_with_carry!`
idiom of arith.rs) inside a loop and is read again in the next iteration before being re-initialised is a *pending carry*:
it belongs to the limb position of the next iteration.  Rule: on every path through the loop body from the loop head back
to the head, a pending carry is read (added in, stored, or at least tested).  A path that reaches the back edge without
reading it (`if limb == 0 { continue; }` in front of the `adc!`) carries it past a limb: it is then added one position too
high, or dropped.  This is a must-use dataflow rule on the MIR control-flow graph (natural loops from dominators, block
level with statement order inside the block); it does not evaluate any arithmetic and does not decide that the chain is
right — only that no iteration can step over a carry that is still pending.
"""
from core.report import Rule

SRC = ("src/u256.rs", "src/u512.rs", "src/arith.rs", "src/fields/fp.rs")


def _reads(o, local, out):
    """operand / borrow reads of `local` (any projection) inside a JSON rvalue / terminator"""
    if isinstance(o, dict):
        if o.get("k") in ("copy", "move") and isinstance(o.get("place"), dict) and o["place"].get("l") == local:
            out.append(o)
        elif o.get("k") in ("ref", "addr", "addr_of", "rawptr") and isinstance(o.get("place"), dict) and o["place"].get("l") == local:
            out.append(o)
        for k, v in o.items():
            if k in ("dest",):
                # a call destination is a write, but an index / deref projection inside it may read
                continue
            _reads(v, local, out)
    elif isinstance(o, list):
        for v in o:
            _reads(v, local, out)
    return out


def _proj_reads(place, local):
    return any(isinstance(x, dict) and x.get("index") == local for x in (place or {}).get("p", []))


def _accesses(block, c):
    """ordered list of 'use' / 'def' of local c in a block"""
    acc = []
    for st in block["stmts"]:
        if st.get("k") != "assign":
            if _reads(st, c, []):
                acc.append("use")
            continue
        if _reads(st.get("rv"), c, []) or _proj_reads(st.get("place"), c):
            acc.append("use")
        pl = st.get("place") or {}
        if pl.get("l") == c and not pl.get("p"):
            acc.append("def")
    t = block.get("term") or {}
    if _reads({k: v for k, v in t.items() if k != "dest"}, c, []):
        acc.append("use")
    d = t.get("dest")
    if isinstance(d, dict) and d.get("l") == c and not d.get("p"):
        acc.append("def")
    return acc


def carry_locals(b, carry_fns=None):
    """locals assigned `(x >> 64) as u64` with x: u128 → {local: [block indices of those defs]}"""
    mir = b.rec["mir"]
    locs = mir["locals"]
    shr = {}
    for bi, bl in enumerate(mir["blocks"]):
        for st in bl["stmts"]:
            rv = st.get("rv") or {}
            if st.get("k") == "assign" and rv.get("k") == "binop" and rv.get("op") == "Shr" and (rv.get("b") or {}).get("int") == 64:
                a = (rv.get("a") or {}).get("place") or {}
                if a and not a.get("p") and locs[a["l"]]["ty"] == "u128" and not st["place"].get("p"):
                    shr[st["place"]["l"]] = bi
    out = {}
    # the function form of the same idiom: `(limb, carry) = mac(.., carry)` — field 1 of the tuple returned by a crate function
    # of the multiword files whose signature is (u64, u64) -> the (limb, carry) pair of arith.rs adc / mac / sbb, however computed
    tup = {}
    for bi, bl in enumerate(mir["blocks"]):
        t = bl.get("term") or {}
        if t.get("k") == "call" and isinstance(t.get("dest"), dict) and not t["dest"].get("p"):
            fn = t.get("fn") or {}
            if carry_fns is not None and (fn.get("res_def") in carry_fns or fn.get("def") in carry_fns):
                tup[t["dest"]["l"]] = t.get("target", bi)
    for bi, bl in enumerate(mir["blocks"]):
        for st in bl["stmts"]:
            rv = st.get("rv") or {}
            if st.get("k") == "assign" and rv.get("k") in ("use", "copy", "move") or (st.get("k") == "assign" and rv.get("k") is None):
                pass
            src = None
            if st.get("k") == "assign":
                for cand in (rv, rv.get("op") if isinstance(rv.get("op"), dict) else None):
                    if isinstance(cand, dict) and cand.get("k") in ("copy", "move") and isinstance(cand.get("place"), dict):
                        src = cand["place"]
            if src and src.get("l") in tup and len(src.get("p") or []) == 1 and isinstance(src["p"][0], dict) and src["p"][0].get("f") == 1 and not st["place"].get("p") \
                    and locs[st["place"]["l"]]["ty"] == "u64":
                out.setdefault(st["place"]["l"], []).append(bi)
    for bi, bl in enumerate(mir["blocks"]):
        for st in bl["stmts"]:
            rv = st.get("rv") or {}
            if st.get("k") == "assign" and rv.get("k") == "cast" and rv.get("ty") == "u64":
                src = (rv.get("op") or {}).get("place") or {}
                if src and not src.get("p") and src["l"] in shr and not st["place"].get("p"):
                    out.setdefault(st["place"]["l"], []).append(bi)
    # plain copies of a carry-out are carry-outs (`carry = move _tmp` after a destructuring assignment)
    changed = True
    while changed:
        changed = False
        for bi, bl in enumerate(mir["blocks"]):
            for st in bl["stmts"]:
                rv = st.get("rv") or {}
                op = rv.get("op") if isinstance(rv.get("op"), dict) else None
                if st.get("k") == "assign" and rv.get("k") == "use" and op and op.get("k") in ("copy", "move") and not st["place"].get("p"):
                    src = op.get("place") or {}
                    if not src.get("p") and src.get("l") in out and bi not in out.get(st["place"]["l"], []) and locs[st["place"]["l"]]["ty"] == "u64":
                        out.setdefault(st["place"]["l"], []).append(bi)
                        changed = True
    return out


def natural_loops(b):
    succ = b.succ()
    reach = set(b.reachable())
    loops = {}
    for u in reach:
        for h in succ.get(u, ()) if isinstance(succ, dict) else succ[u]:
            if h in reach and b.dominates(h, u):
                loops.setdefault(h, set()).add(u)
    pred = {}
    for u in reach:
        for v in (succ.get(u, ()) if isinstance(succ, dict) else succ[u]):
            pred.setdefault(v, set()).add(u)
    out = []
    for h, latches in loops.items():
        body = {h}
        work = [u for u in latches]
        while work:
            x = work.pop()
            if x in body:
                continue
            body.add(x)
            work.extend(p for p in pred.get(x, ()) if p in reach)
        out.append((h, latches, body))
    return out, succ


def rule_carry_chain(prop, repo):
    F = repo.F
    R = Rule("R-CARRY-CHAIN", "a carry pending across the iterations of a multiword loop is read on every path through the loop body (no iteration steps over it)",
             floor=2, exhaustive=True)
    carry_fns = set()
    for b in F.fn_bodies():
        if ((b.rec.get("span") or {}).get("file") or "") in SRC and b.rec.get("mir") and (b.rec.get("output") or "").replace(" ", "") == "(u64,u64)":
            # (limb, carry-or-borrow) by signature: how the high word is computed inside (u128 shift, overflowing_add, …) is not read
            carry_fns.add(b.rec["path"])
    for b in F.fn_bodies():
        if ((b.rec.get("span") or {}).get("file") or "") not in SRC or not b.rec.get("mir"):
            continue
        cl = carry_locals(b, carry_fns)
        if not cl:
            continue
        loops, succ = natural_loops(b)
        blocks = b.rec["mir"]["blocks"]
        S = (lambda u: succ.get(u, ())) if isinstance(succ, dict) else (lambda u: succ[u])
        for c, defblocks in sorted(cl.items()):
            for h, latches, body in loops:
                if not any(d in body for d in defblocks):
                    continue
                acc = {u: _accesses(blocks[u], c) for u in body}
                # pending at the head: a read reachable from the head with no write before it
                exposed, seen, work = False, set(), [h]
                while work and not exposed:
                    u = work.pop()
                    if u in seen:
                        continue
                    seen.add(u)
                    if acc[u]:
                        if acc[u][0] == "use":
                            exposed = True
                        continue
                    work.extend(v for v in S(u) if v in body and v != h)
                if not exposed:
                    continue
                R.instance()
                # a path head → latch through blocks that never read it
                bad, seen, work = None, set(), [h]
                while work and bad is None:
                    u = work.pop()
                    if u in seen or "use" in acc[u]:
                        continue
                    seen.add(u)
                    if u in latches:
                        bad = u
                        break
                    work.extend(v for v in S(u) if v in body and v != h)
                name = b.local_name(c) or "_%d" % c
                R.check(bad is None, "%s:carry-chain:%s:%s" % (prop, b.rec["path"], name),
                        "%s: the carry `%s` pending from the previous iteration is not read on some path through the loop body back to the loop head (it is carried past a limb position)"
                        % (b.rec["path"], name), b.file_line(), b.rec["path"],
                        sample={"fn": b.rec["path"], "carry": name, "loop_head_block": h})
    return R.finish()
