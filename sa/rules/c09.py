"""C09 — only points of the curve and of the order-r subgroup pass validated construction."""
from core import report
from core.sm9 import Repo
from . import shared, grouplaw, consts, conv2 as convert

DECODERS = {"crate::G1::from_slice": {64}, "crate::G1::from_uncompressed": {65}, "crate::G1::from_compressed": {33},
            "crate::G2::from_slice": {128}, "crate::G2::from_uncompressed": {129}, "crate::G2::from_compressed": {65}}


def run(ctx):
    repo = Repo(ctx.dev)
    ls = convert.make_conv(repo)
    rules = grouplaw.rules_c09("C09", repo) + [convert.rule_funnel("C09", repo, ls, DECODERS), consts.rule_generators("C09", repo)]
    # the release-profile MIR has the same truth table
    repo_r = Repo(ctx.rel)
    rr = grouplaw.rules_c09("C09", repo_r)[0]
    rr.rid += "[rel]"
    rules.append(rr)
    return report.emit(
        "C09", ctx.tier, ctx.seed, rules, ctx.started,
        "Predicate-abstraction truth table of AffineG::new over (curve equation, check_order, subgroup comparison): Ok ⇔ on-curve ∧ (¬check_order ∨ r·P=O); degree signature "
        "of the curve test (y² vs x³+b); provenance of the subgroup test ((x,y,1)·(−1)+(x,y,1) vs O); G2Params::check_order ≡ true, G1 inherits false with #E(Fq)=r; every AffineG "
        "construction site enumerated; decoders funnel through the constructor; b = 5 / 5u.",
        shared.ASSUMPTIONS,
        ["that scalar multiplication and point equality compute r·P = O correctly (C04/C05/C15 decide their structure only)"])
