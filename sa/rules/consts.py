"""Constants and their defining relations (DESIGN §4.E), Frobenius maps as scalar-linear maps, generators.

All arithmetic here is the analyser's own (Python integers) on literals read from the MIR / rustc const evaluation."""
import re
from core.report import Rule
from core.facts import FactsError
from core.terms import strip, alts, walk, show, expand_call, same_file
from core import paths
from core.sm9 import U256, literal_u256, make_curve_fq, make_curve_fq2, ec_mul, Fq2 as PyFq2
from . import shared
from .shared import loc_of


def small_helper(cb):
    """a crate-local helper short enough to be a wrapper around a literal or a constructor"""
    return len(cb.blocks) <= 12 and not cb.rec["path"].endswith("::new")


class Lits:
    """Reads field-element literals out of provenance terms."""
    def __init__(self, repo):
        self.repo = repo
        self.F = repo.F
        self.P = repo.P

    def const_bytes(self, t, owner=None):
        t = strip(t)
        while t[0] == "cast":
            t = strip(t[2])
        if t[0] != "const":
            return None
        c = t[1]
        if "slice_hex" in c:
            return bytes.fromhex(c["slice_hex"])
        if "mem_hex" in c:
            return bytes.fromhex(c["mem_hex"])
        if "promoted" in c:
            pb = self.F.promoted.get((c["uneval_def"], c["promoted"]))
            if pb is None:
                # promoted of the owner, keyed by local path spelling
                for (p, i), b in self.F.promoted.items():
                    if i == c["promoted"] and (p == c["uneval_def"] or p.replace("crate::", "") in c.get("text", "")):
                        pb = b
            if pb is not None:
                return self.const_bytes(self.repo.tb(pb).return_value())
            return None
        if "uneval_def" in c:
            k = self.F.consts.get(c["uneval_def"])
            if k and "bytes_hex" in k:
                return bytes.fromhex(k["bytes_hex"])
        return None

    def _u256_is_limbs(self):
        adt = self.F.adts.get("crate::u256::U256") or {}
        fs = (adt.get("variants") or [{}])[0].get("fields") or []
        return adt.get("kind") == "Struct" and len(fs) == 1 and re.fullmatch(r"ark_ff::(biginteger::)?BigInt<4>|\[u64; 4\]", fs[0].get("ty", "").strip()) is not None

    def u256(self, t):
        """integer of a U256 literal: U256::from([l0..l3]) with literal limbs or with a `const [u64; 4]` item"""
        v = literal_u256(t)
        if v is not None:
            return v
        t = strip(t)
        if t[0] == "const" and isinstance(t[1], dict) and "uneval_def" in t[1] and "promoted" not in t[1]:
            # a `const X: U256` item evaluated by the compiler: the integer is a single-field wrapper chain around four u64 limbs,
            # so its 32 bytes are the limbs, least significant first
            c = self.F.consts.get(t[1]["uneval_def"])
            if c and c.get("ty", "").strip() == "crate::u256::U256" and "bytes_hex" in c and self._u256_is_limbs():
                b = bytes.fromhex(c["bytes_hex"])
                if len(b) == 32:
                    return int.from_bytes(b, "little")
        if t[0] == "call" and t[1].name in ("from", "into") and len(t[2]) == 1:
            a = strip(t[2][0])
            if a[0] == "const" and "uneval_def" in a[1] and "promoted" not in a[1]:
                c = self.F.consts.get(a[1]["uneval_def"])
                if c and c.get("ty", "").replace(" ", "") == "[u64;4]" and "bytes_hex" in c:
                    b = bytes.fromhex(c["bytes_hex"])
                    if len(b) == 32:
                        return int.from_bytes(b, "little")      # limb 0 first, each limb little-endian in memory
        return None

    def fq(self, t, depth=0):
        """Integer (mod q, canonical) denoted by a term built from literals; None if not a literal."""
        if depth > 10:
            return None
        q = self.P.q
        t = strip(t)
        if t[0] == "call":
            fk = t[1]
            n = fk.name
            if n in ("unwrap", "expect") and t[2]:
                return self.fq(t[2][0], depth + 1)
            if fk.d.endswith("::new") and len(t[2]) == 1 and fk.d in {i["new"].rec["path"] for i in self.repo.fp_types().values()}:
                st = self.repo.static_of(t[2][0])
                v = self.repo.static_int(st) if st else self.u256(t[2][0])
                return v if v is not None and v < q else None
            if n == "from_str" and len(t[2]) == 1:
                b = self.const_bytes(t[2][0])
                if b is not None and b.isdigit():
                    return int(b.decode()) % q
                return None
            if n == "from_slice" and len(t[2]) == 1:
                b = self.const_bytes(t[2][0])
                if b is not None and len(b) == 32:
                    v = int.from_bytes(b, "big")
                    return v if v < q else None
                return None
            if n == "one" and not t[2]:
                return 1
            if n == "zero" and not t[2]:
                return 0
            if n == "neg" and len(t[2]) == 1:
                v = self.fq(t[2][0], depth + 1)
                return None if v is None else (-v) % q
            if n in ("mul", "scale") and len(t[2]) == 2 and "Fq2" not in (fk.i.split("::")[-2] if "::" in fk.i else ""):
                a, b = self.fq(t[2][0], depth + 1), self.fq(t[2][1], depth + 1)
                return None if a is None or b is None else a * b % q
            if n == "inverse" and len(t[2]) == 1:
                v = self.fq(t[2][0], depth + 1)
                return None if not v else pow(v, -1, q)
            if n == "into" and len(t[2]) == 1:
                return literal_u256(t)
        st = self.repo.static_of(t)
        if st:
            sv = self.repo.static_values().get(st)
            if sv and sv["int"] is None:
                return self.fq(sv["term"], depth + 1)
        e = expand_call(self.repo, t, small_helper)
        if e is not None:
            return self.fq(e, depth + 1)
        return None

    def fq2(self, t, depth=0):
        """(real, imag) for Fq2::new(a,b) / Fq2::one() / Fq2::i().scale(c) built from literals."""
        t = strip(t)
        if t[0] == "call":
            n = t[1].name
            if n == "new" and "Fq2" in t[1].i and len(t[2]) == 2:
                a, b = self.fq(t[2][0]), self.fq(t[2][1])
                return None if a is None or b is None else (a, b)
            if n == "one" and "Fq2" in t[1].i:
                return (1, 0)
            if n == "zero" and "Fq2" in t[1].i:
                return (0, 0)
            if n == "i" and "Fq2" in t[1].i:
                return (0, 1)
            if n == "scale" and len(t[2]) == 2:
                a = self.fq2(t[2][0])
                c = self.fq(t[2][1])
                return None if a is None or c is None else (a[0] * c % self.P.q, a[1] * c % self.P.q)
            # literal arithmetic in Fq2 = Fq[u]/(u² + 2) (a value computed once from literals and kept: an inverse, a square)
            if depth < 8 and "Fq2" in t[1].i + " " + (t[1].get("impl_self") or ""):
                F2 = PyFq2(self.P.q)
                if n in ("unwrap", "expect") and t[2]:
                    return self.fq2(t[2][0], depth + 1)
                if n == "inverse" and len(t[2]) == 1:
                    a = self.fq2(t[2][0], depth + 1)
                    return None if a is None or a == (0, 0) else F2.inv(a)
                if n == "squared" and len(t[2]) == 1:
                    a = self.fq2(t[2][0], depth + 1)
                    return None if a is None else F2.mul(a, a)
                if n == "mul" and len(t[2]) == 2:
                    a, b2 = self.fq2(t[2][0], depth + 1), self.fq2(t[2][1], depth + 1)
                    return None if a is None or b2 is None else F2.mul(a, b2)
            if n in ("unwrap", "expect") and t[2] and t[1].d.startswith(("core::option::Option", "core::result::Result")) and depth < 8:
                return self.fq2(t[2][0], depth + 1)
        if t[0] == "agg" and t[1] == "crate::fields::fq2::Fq2":
            a, b = self.fq(t[3][0]), self.fq(t[3][1])
            return None if a is None or b is None else (a, b)
        st = self.repo.static_of(t)
        if st and depth < 4:
            # a value computed once and kept in a lazy static: what its initialiser builds
            sv = self.repo.static_values().get(st)
            if sv and sv.get("term") is not None:
                return self.fq2(sv["term"], depth + 1)
        e = expand_call(self.repo, t, small_helper)
        if e is not None and depth < 6:
            return self.fq2(e, depth + 1)
        return None


# ====================================================================== R-CONST
def bind_term(t, env):
    """replace the given sub-terms (a parameter by the literal it is simulated with)"""
    if t in env:
        return env[t]
    if not isinstance(t, tuple):
        return t
    return tuple(bind_term(x, env) if isinstance(x, tuple) else x for x in t)


def fold_int(t):
    """integer value of a term built from literals by + − × (checked operations included), else None"""
    t = strip(t)
    if t[0] == "const" and isinstance(t[1], dict) and "int" in t[1]:
        try:
            return int(t[1]["int"])
        except (TypeError, ValueError):
            return None
    if t[0] == "field" and t[2] == 0:
        return fold_int(t[1])           # `.0` of a checked operation's (value, overflowed) pair
    if t[0] == "cast":
        return fold_int(t[-1])
    if t[0] == "binop":
        a, b = fold_int(t[2]), fold_int(t[3])
        if a is None or b is None:
            return None
        op = t[1].replace("WithOverflow", "").replace("Unchecked", "")
        return {"Add": a + b, "Sub": a - b, "Mul": a * b}.get(op)
    return None


def const_int_of(F, t):
    """integer value of a term that is a literal or a `const` item of integer type, else None"""
    t = strip(t)
    if t[0] == "const" and isinstance(t[1], dict):
        c = t[1]
        if "int" in c:
            try:
                return int(c["int"])
            except (TypeError, ValueError):
                return None
        d = c.get("uneval_def")
        if d and "promoted" not in c and d in F.consts and "int" in F.consts[d]:
            return int(F.consts[d]["int"])
    return None


def rule_const(prop, repo):
    F, P = repo.F, repo.P
    t, q, r = P.t, P.q, P.r
    R = Rule("R-CONST", "every standard-fixed literal satisfies its defining relation (recomputed from t with Python integers)", floor=10, exhaustive=True)
    fp = repo.fp_types()

    def chk(name, got, want, what):
        R.instance()
        R.check(got == want, "%s:const:%s" % (prop, name), "%s = %s does not satisfy %s (expected %s)" % (name, hex(got) if isinstance(got, int) else got, what, hex(want) if isinstance(want, int) else want),
                sample={"constant": name, "relation": what, "value": hex(got) if isinstance(got, int) else str(got)})

    # which prime-field type is the scalar field / the base field — by role
    scal = [i["trait_full"] for i in F.impls if i.get("self_ty", "").startswith("crate::groups::G<") and i.get("trait") == "core::ops::Mul"]
    scalar_ty = None
    for s in scal:
        for ap in fp:
            if "Mul<%s>" % ap in s:
                scalar_ty = ap
    base_b = F.bodies.get("<crate::groups::G1Params as crate::groups::GroupParams>::coeff_b")
    base_ty = base_b.rec.get("output") if base_b else None
    if scalar_ty is None or base_ty not in fp or scalar_ty == base_ty:
        raise FactsError("cannot tell scalar field from base field by role (Mul<_> for G, G1Params::Base)")
    for ap, pval, pname in ((scalar_ty, r, "r"), (base_ty, q, "q")):
        info = fp[ap]
        short = ap.split("::")[-1]
        chk("%s modulus (%s)" % (short, info["modulus"]), repo.static_int(info["modulus"]), pval, "%s = 36t^4+36t^3+%dt^2+6t+1" % (pname, 18 if pname == "r" else 24))
        # R^2 and -p^-1 are the operands of the Montgomery multiplication inside `new`
        nb = info["new"]
        tb = repo.tb(nb)
        muls = [(bb, tt) for bb, tt in nb.calls() if (tt.get("fn") or {}).get("res_def") == "crate::u256::U256::mul"]
        if not muls:
            # the strict constructor may hand the range-checked value to the reducing one, which holds the multiplication by R²
            for _bb, tt in nb.calls():
                cb2 = F.bodies.get((tt.get("fn") or {}).get("res_def") or "")
                if cb2 is not None and cb2.rec.get("impl_self_adt") == ap:
                    m2 = [(b2, t2) for b2, t2 in cb2.calls() if (t2.get("fn") or {}).get("res_def") == "crate::u256::U256::mul"]
                    if len(m2) == 1:
                        nb, tb, muls = cb2, repo.tb(cb2), m2
                        break
        if len(muls) != 1:
            R.fail_closed("%s:const:%s:new-shape" % (prop, short), "%s::new does not contain exactly one Montgomery multiplication" % short, nb.file_line())
            continue
        a = tb.call_args(muls[0][0])
        rsq, mod, inv = repo.static_of(a[1]), repo.static_of(a[2]), repo.static_of(a[3])
        chk("%s R^2 (%s)" % (short, rsq), repo.static_int(rsq) if rsq else None, pow(2, 512, pval), "2^512 mod %s" % pname)
        chk("%s modulus used by new (%s)" % (short, mod), mod, info["modulus"], "the type's own modulus")
        inv_want = (-pow(pval, -1, 2 ** 64)) % 2 ** 64
        inv_val = repo.static_int(inv) if inv else const_int_of(F, a[3])      # a lazy static, a `const` item or a literal
        chk("%s -p^-1 mod 2^64 (%s)" % (short, inv or "const"), inv_val, inv_want, "-%s^-1 mod 2^64" % pname)
        ob = [b for b in F.fn_bodies() if b.name == "one" and b.rec.get("impl_self_adt") == ap and (b.impl_trait or "").endswith("One")]
        if len(ob) == 1:
            rv = repo.tb(ob[0]).return_value()
            st = repo.static_of(rv[3][0]) if rv[0] == "agg" else None
            chk("%s one (%s)" % (short, st), repo.static_int(st) if st else None, pow(2, 256, pval), "2^256 mod %s (Montgomery form of 1)" % pname)
        else:
            R.fail_closed("%s:const:%s:one" % (prop, short), "One::one for %s not found" % short)
        # every Montgomery operation of the type uses its own (modulus, inv) pair
        R.instance()
        bad = []
        n = 0
        for b in F.fn_bodies():
            if b.rec.get("impl_self_adt") != ap and ("for %s" % ap) not in b.rec["path"] and ("From<%s>" % ap) not in b.rec["path"]:
                continue
            tbb = None
            for bb, tt in b.calls():
                d = (tt.get("fn") or {}).get("res_def") or ""
                if d in ("crate::u256::U256::mul", "crate::u256::U256::square", "crate::u256::U256::invert", "crate::u256::U256::add", "crate::u256::U256::sub",
                         "crate::u256::U256::neg", "crate::u256::U256::mul2", "crate::u256::U256::div2", "crate::u256::U256::random"):
                    tbb = tbb or repo.tb(b)
                    args = tbb.call_args(bb)
                    sts = [repo.static_of(x) for x in args]
                    sts = [s for s in sts if s]
                    n += 1
                    allowed = {info["modulus"], rsq, inv}
                    # a 64-bit constant operand (the Montgomery factor spelled as a `const` or literal) must be this field's
                    wrong_inv = [hex(v) for v in (const_int_of(F, x) for x in args) if v is not None and v >= 2 ** 32 and v != inv_want]
                    if not sts or any(s not in allowed for s in sts) or wrong_inv:
                        bad.append((b.rec["path"], d.split("::")[-1], sts + wrong_inv))
        R.check(not bad and n >= 8, "%s:const:%s:pairing-of-constants" % (prop, short), "%s arithmetic uses constants of another field: %s" % (short, bad[:3]),
                sample={"type": short, "modular_call_sites": n, "constants": sorted(x for x in (info["modulus"], rsq, inv) if x)})
    # pairing constants (rustc const evaluation), identified by value: every large integer literal of the pairing module must
    # be one of the curve-parameter expressions the algorithms use. Where each one is used is decided by R-EXP / R-MILLER-INDEX.
    from .roles import PairingRoles
    roles = PairingRoles(F)
    rel = {t: "t", 6 * t + 2: "6t+2", 6 * t + 5: "6t+5", 6 * t * t + 1: "6t^2+1", 9: "9"}
    nint = 0
    for nm, c in sorted(roles.consts().items()):
        short = nm.split("::")[-1]
        if "int" in c and c.get("ty") in ("u128", "u64", "usize", "u32", None):
            v = int(c["int"])
            if v < 2 ** 16 and v not in rel:
                continue            # small helper constants (widths, counts) carry no curve parameter
            nint += 1
            R.instance()
            R.check(v in rel, "%s:const:%s" % (prop, short), "%s = %s is none of the parameter expressions %s" % (short, hex(v), sorted(set(rel.values()))),
                    sample={"constant": short, "relation": rel.get(v), "value": hex(v)})
        elif "bytes_hex" in c:
            digits = list(bytes.fromhex(c["bytes_hex"]))
            if len(digits) < 32 or not all(d in (0, 1, 2) for d in digits):
                continue
            def ev(ds, lead):
                v = lead
                for d in ds:
                    v = 2 * v + (1 if d == 1 else (-1 if d == 2 else 0))
                return v
            cands = {"implicit leading 1, most significant first": ev(digits, 1), "most significant first": ev(digits, 0),
                     "implicit leading 1, least significant first": ev(digits[::-1], 0) + 2 ** len(digits), "least significant first": ev(digits[::-1], 0)}
            okc = [k for k, v in cands.items() if v == 6 * t + 2]
            R.instance()
            R.check(bool(okc), "%s:const:%s" % (prop, short), "signed-digit table (2 = −1) evaluates to %s, not 6t+2, under every digit order" % hex(cands["implicit leading 1, most significant first"]),
                    sample={"constant": short, "digits": len(digits), "evaluates_to_6t+2_as": okc[:1]})
    if nint < 3:
        R.fail_closed("%s:const:pairing-consts" % prop, "fewer than three curve-parameter constants found in the pairing module (%d)" % nint)
    # Frobenius constants by defining relation alpha_i = (-2)^(i(q-1)/12)
    alpha = {i: pow(-2 % q, i * (q - 1) // 12, q) for i in range(0, 13)}
    if (q - 1) % 12 != 0:
        raise FactsError("q-1 not divisible by 12")
    named = {"crate::fields::fq4::SM9_ALPHA1": 1, "crate::fields::fq4::SM9_ALPHA2": 2, "crate::fields::fq4::SM9_ALPHA3": 3, "crate::fields::fq4::SM9_ALPHA4": 4,
             "crate::fields::fq4::SM9_ALPHA5": 5, "crate::fields::fq4::SM9_BETA": 3, "crate::pairings::SM9_PI1": 1, "crate::pairings::SM9_PI2": 2}
    svals = repo.static_values()
    for nm, i in named.items():
        if nm in svals:
            val = svals[nm]["int"]
            if val is None:
                # a constant defined as a copy of another one (`static ref A: U256 = *B;`)
                other = repo.static_of(svals[nm].get("term") or ("unknown",))
                if other in svals:
                    val = svals[other]["int"]
            if val is None and svals[nm].get("term") is not None:
                # kept as a field element (already in Montgomery form) rather than as the integer: the canonical value its
                # initialiser builds from literals
                val = Lits(repo).fq(svals[nm]["term"])
            chk(nm.split("::")[-1], val, alpha[i], "(-2)^(%d(q-1)/12) mod q" % i)
    # any other literal U256 static must be one of the values above (a new, unexplained constant fails closed)
    known_vals = {alpha[i] for i in alpha} | {q, r, pow(2, 512, q), pow(2, 512, r), pow(2, 256, q), pow(2, 256, r)}
    for nm, sv in svals.items():
        if sv["int"] is not None and sv["int"] >= 2 ** 64 and sv["int"] not in known_vals:
            R.instance()
            R.violation("%s:const:%s:unexplained" % (prop, nm), "static %s = %s has no defining relation in the parameter table" % (nm, hex(sv["int"])))
    # sqrt exponents are computed, not literal: every field static built by a computation must evaluate to (q-1)/4 or (q-5)/8
    L = Lits(repo)
    wants = {(q - 1) * pow(4, -1, q) % q: "(q-1)/4 = -1·4^-1", (q - 5) * pow(8, -1, q) % q: "(q-5)/8 = -5·8^-1"}
    ncomp = 0
    for nm, sv in sorted(svals.items()):
        if sv["int"] is not None or not nm.startswith("crate::fields") or nm in named:
            continue
        got = L.fq(sv["term"])
        if got is None:
            continue
        ncomp += 1
        chk(nm.split("::")[-1], got if got in wants else got, got if got in wants else sorted(wants)[0], " or ".join(wants.values()))
        R.instance()
        R.check(got not in wants or got in ((q - 1) // 4, (q - 5) // 8), "%s:const:%s:integer" % (prop, nm), "field quotient is not the integer quotient", sample={"constant": nm, "integer_quotient": True})
    return R.finish()


# ====================================================================== generators
def machine_literal(repo, body):
    """The literal value a parameterless constructor function returns, read through whatever helpers, tables and byte
    decoders it uses: the byte-provenance machine runs it (all inputs are literals of the program) and the limbs / decimal
    string that reach the field constructors are decoded here. → nested tuples of ints, or None."""
    from core.bytex import Machine, T, Tup as BTup, Adt as BAdt, mentions_bytes
    F = repo.F
    root_file = (body.rec.get("span") or {}).get("file")
    fp_new = {i["new"].rec["path"] for i in repo.fp_types().values()}

    def pol(cb):
        if cb.rec["kind"] in ("Closure", "Ctor"):
            return True
        if cb.rec["path"] in fp_new:
            return False
        ins = cb.rec.get("inputs") or []
        if any(mentions_bytes(x) for x in ins) or mentions_bytes(cb.rec.get("output") or ""):
            return True
        if (cb.rec.get("span") or {}).get("file") == root_file:
            return True
        # plain constructors of the tower types (Fq2::new(a, b) …)
        return len(cb.blocks) <= 3 and cb.name == "new" and (cb.rec.get("impl_self_adt") or "").startswith("crate::fields::fq")
    outs = Machine(F, pol).run(body, [])
    good = [o for o in outs if o.kind == "return" and all(c in ("Some", "Ok") for _, c in o.pc)]
    if len(good) != 1:
        return None
    q = repo.P.q

    def lit(v):
        if isinstance(v, BAdt) and v.name in ("crate::groups::G", "crate::groups::AffineG"):
            return tuple(lit(x) for x in v.fields)
        if isinstance(v, BAdt) and v.name == "crate::fields::fq2::Fq2" and len(v.fields) == 2:
            a, b = lit(v.fields[0]), lit(v.fields[1])
            return None if a is None or b is None else (a, b)
        if isinstance(v, BAdt) and len(v.fields) == 1:
            return lit(v.fields[0])
        if isinstance(v, T):
            if v[0] == "payload" and v[2] in ("Some", "Ok"):
                c = v[1]
                if isinstance(c, T) and c[0] == "call" and c[1] in fp_new and len(c[3]) == 1:
                    x = c[3][0]
                    if isinstance(x, T) and x[0] == "conv" and isinstance(x[3], BTup) and all(isinstance(l, int) for l in x[3]):
                        val = sum(l << (64 * i) for i, l in enumerate(x[3]))
                        return val if val < q else None
                if isinstance(c, T) and c[0] == "call" and c[1].split("::")[-1] == "from_str" and len(c[3]) == 1 and isinstance(c[3][0], BTup) and all(isinstance(b, int) for b in c[3][0]):
                    sbytes = bytes(c[3][0])
                    return int(sbytes.decode()) % q if sbytes.isdigit() else None
                return None
            if v[0] == "call" and not v[3] and v[1].split("::")[-1] == "one":
                return 1
            if v[0] == "call" and not v[3] and v[1].split("::")[-1] == "zero":
                return 0
            if v[0] == "call" and v[1].split("::")[-1] == "one" and "Fq2" in v[2]:
                return (1, 0)
        return None
    return lit(good[0].value)


def rule_generators(prop, repo):
    F, P = repo.F, repo.P
    q, r = P.q, P.r
    R = Rule("R-CONST-GEN", "generator literals lie on the curve / twist and have order exactly r; coeff_b = 5 resp. 5u; #E(Fq) = r (cofactor 1)", floor=6, exhaustive=True)
    L = Lits(repo)
    g1 = F.bodies.get("<crate::groups::G1Params as crate::groups::GroupParams>::one")
    g2 = F.bodies.get("<crate::groups::G2Params as crate::groups::GroupParams>::one")
    b1 = F.bodies.get("<crate::groups::G1Params as crate::groups::GroupParams>::coeff_b")
    b2 = F.bodies.get("<crate::groups::G2Params as crate::groups::GroupParams>::coeff_b")
    if not all((g1, g2, b1, b2)):
        R.fail_closed("%s:gen:anchor" % prop, "generator / coeff_b functions not found")
        return R.finish()
    bv1 = L.fq(repo.tb(b1).return_value())
    bv2 = L.fq2(repo.tb(b2).return_value())
    if bv1 is None:
        bv1 = machine_literal(repo, b1)
    if bv2 is None:
        bv2 = machine_literal(repo, b2)
    R.instance()
    R.check(bv1 == 5, "%s:gen:b1" % prop, "G1 coeff_b is %s, not 5" % bv1, b1.file_line(), sample={"coeff_b(G1)": bv1})
    R.instance()
    R.check(bv2 == (0, 5), "%s:gen:b2" % prop, "G2 coeff_b is %s, not 5u" % (bv2,), b2.file_line(), sample={"coeff_b(G2)": bv2})
    rv1 = repo.tb(g1).return_value()
    R.instance()
    xyz = None
    if rv1[0] == "agg" and len(rv1[3]) == 3:
        xyz = (L.fq(rv1[3][0]), L.fq(rv1[3][1]), L.fq(rv1[3][2]))
    if xyz is None or None in xyz:
        xyz = machine_literal(repo, g1)
    if not (isinstance(xyz, tuple) and len(xyz) == 3):
        R.fail_closed("%s:gen:P1:shape" % prop, "the literal coordinates of the G1 generator could not be read")
    else:
        x, y, z = xyz
        ok = None not in (x, y, z) and z == 1 and (y * y - x ** 3 - 5) % q == 0
        add, dbl = make_curve_fq(q)
        ordr = ok and ec_mul(r, (x, y), add, dbl) is None
        std = ok and x == int(P.raw["P1"]["x"].replace(" ", ""), 16) and y == int(P.raw["P1"]["y"].replace(" ", ""), 16)
        R.check(bool(ok and ordr and std), "%s:gen:P1" % prop, "P1 literal: on curve=%s, z=1=%s, r·P1=O=%s, equals the standard's P1=%s" % (ok, z == 1, ordr, std), g1.file_line(),
                sample={"P1.x": hex(x) if x is not None else None, "on_curve": bool(ok), "order_r": bool(ordr), "matches_standard": bool(std)})
    rv2 = repo.tb(g2).return_value()
    R.instance()
    xyz = None
    if rv2[0] == "agg" and len(rv2[3]) == 3:
        xyz = (L.fq2(rv2[3][0]), L.fq2(rv2[3][1]), L.fq2(rv2[3][2]))
    if xyz is None or None in xyz:
        xyz = machine_literal(repo, g2)
        if isinstance(xyz, tuple) and len(xyz) == 3 and xyz[2] == 1:
            xyz = (xyz[0], xyz[1], (1, 0))
    if not (isinstance(xyz, tuple) and len(xyz) == 3):
        R.fail_closed("%s:gen:P2:shape" % prop, "the literal coordinates of the G2 generator could not be read")
    else:
        x, y, z = xyz
        K = PyFq2(q)
        ok = None not in (x, y, z) and z == (1, 0) and K.sub(K.mul(y, y), K.add(K.mul(K.mul(x, x), x), (0, 5))) == (0, 0)
        add, dbl = make_curve_fq2(q)
        ordr = ok and ec_mul(r, (x, y), add, dbl) is None
        raw = P.raw["P2"]
        h = lambda s: int(s.replace(" ", ""), 16)
        std = ok and x == (h(raw["x_lo"]), h(raw["x_hi"])) and y == (h(raw["y_lo"]), h(raw["y_hi"]))
        R.check(bool(ok and ordr and std), "%s:gen:P2" % prop, "P2 literal: on twist=%s, r·P2=O=%s, equals the standard's P2 (real=low, imaginary=high)=%s" % (ok, ordr, std), g2.file_line(),
                sample={"P2.x": [hex(v) for v in x] if x else None, "on_twist": bool(ok), "order_r": bool(ordr), "matches_standard": bool(std)})
    # r prime (Miller-Rabin with fixed bases is deterministic far beyond what is needed to expose a typo) and cofactor 1
    R.instance()
    R.check(is_probable_prime(r) and is_probable_prime(q), "%s:gen:primes" % prop, "q or r is not prime", sample={"q_prime": True, "r_prime": True})
    R.instance()
    t = P.t
    R.check(q + 1 - (6 * t * t + 1) == r, "%s:gen:cofactor" % prop, "#E(Fq) = q+1−(6t²+1) differs from r: G1 would need a subgroup check", sample={"#E(Fq)==r": True})
    return R.finish()


def is_probable_prime(n):
    if n < 2:
        return False
    for p in (2, 3, 5, 7, 11, 13, 17, 19, 23, 29, 31, 37):
        if n % p == 0:
            return n == p
    d, s = n - 1, 0
    while d % 2 == 0:
        d //= 2
        s += 1
    for a in (2, 3, 5, 7, 11, 13, 17, 19, 23, 29, 31, 37):
        x = pow(a, d, n)
        if x in (1, n - 1):
            continue
        for _ in range(s - 1):
            x = x * x % n
            if x == n - 1:
                break
        else:
            return False
    return True


# ====================================================================== Frobenius maps as scalar-linear maps
class Lin:
    """Abstract Fq2 value: (source component, conjugated?, scalar in Fq). Source components are the Fq2 coefficients of the input."""
    def __init__(self, src, conj, k):
        self.src, self.conj, self.k = src, conj, k

    def __eq__(self, o):
        return isinstance(o, Lin) and (self.src, self.conj, self.k) == (o.src, o.conj, o.k)

    def __repr__(self):
        return "%s%s·%s" % ("conj " if self.conj else "", self.src, hex(self.k))


class FrobEval:
    def __init__(self, repo):
        self.repo = repo
        self.F = repo.F
        self.q = repo.P.q
        self.L = Lits(repo)

    def fq2_of(self, body, t, inp):
        """Lin for an Fq2-valued term; `inp` maps the function's own input projections to Lin values."""
        q = self.q
        t = strip(t)
        if t in inp:
            return inp[t]
        if t[0] == "call":
            n = t[1].name
            a = t[2]
            if n == "unitary_inverse" and len(a) == 1:
                v = self.fq2_of(body, a[0], inp)
                return Lin(v.src, not v.conj, v.k)
            if n == "scale" and len(a) == 2:
                v = self.fq2_of(body, a[0], inp)
                c = self.L.fq(a[1])
                if c is None:
                    raise FactsError("scale by a non-literal")
                return Lin(v.src, v.conj, v.k * c % q)
            if n == "mul" and len(a) == 2:
                v = self.fq2_of(body, a[0], inp)
                c = self.L.fq2(a[1])
                if c is None or c[1] != 0:
                    raise FactsError("Fq2 multiplication by something that is not an embedded Fq literal")
                return Lin(v.src, v.conj, v.k * c[0] % q)
            if n == "neg" and len(a) == 1:
                v = self.fq2_of(body, a[0], inp)
                return Lin(v.src, v.conj, (-v.k) % q)
        e = expand_call(self.repo, t, same_file(self.repo, body))
        if e is not None:
            return self.fq2_of(body, e, inp)
        raise FactsError("Frobenius evaluator: unrecognised Fq2 term %s" % show(t, maxdepth=3)[:120])

    def fq4_of(self, body, t, inp4):
        """(Lin c0, Lin c1) for an Fq4-valued term. inp4: {term: (Lin, Lin)}"""
        q = self.q
        t = strip(t)
        if t in inp4:
            return inp4[t]
        if t[0] == "agg" and t[1] == "crate::fields::fq4::Fq4":
            inp2 = {}
            for base, (l0, l1) in inp4.items():
                inp2[("field", base, 0)] = l0
                inp2[("field", base, 1)] = l1
            return (self.fq2_of(body, t[3][0], inp2), self.fq2_of(body, t[3][1], inp2))
        if t[0] == "call":
            n, a = t[1].name, t[2]
            if n == "new" and len(a) == 2 and t[1].d.startswith("crate::fields::fq4::Fq4"):
                # the constructor instead of a struct literal (R-TOWER-CONST: new(a, b) stores (c0 = a, c1 = b))
                inp2 = {}
                for base, (l0, l1) in inp4.items():
                    inp2[("field", base, 0)] = l0
                    inp2[("field", base, 1)] = l1
                return (self.fq2_of(body, a[0], inp2), self.fq2_of(body, a[1], inp2))
            if n == "unitary_inverse" and "Fq4" in t[1].i:
                c0, c1 = self.fq4_of(body, a[0], inp4)
                return (c0, Lin(c1.src, c1.conj, (-c1.k) % q))
            if n == "scale_fq":
                c0, c1 = self.fq4_of(body, a[0], inp4)
                c = self.L.fq(a[1])
                if c is None:
                    raise FactsError("scale_fq by a non-literal")
                return (Lin(c0.src, c0.conj, c0.k * c % q), Lin(c1.src, c1.conj, c1.k * c % q))
            if n == "neg" and len(a) == 1:
                c0, c1 = self.fq4_of(body, a[0], inp4)
                return (Lin(c0.src, c0.conj, (-c0.k) % q), Lin(c1.src, c1.conj, (-c1.k) % q))
            if n == "frobenius_map" and "Fq4" in t[1].i:
                pw = strip(a[1])
                if pw[0] == "agg" and isinstance(pw[1], str) and not pw[3] and pw[1] in self.F.adts:
                    # a fieldless enum selector instead of an integer code: its discriminant index
                    names = [v["name"] for v in self.F.adts[pw[1]]["variants"]]
                    if pw[2] not in names:
                        raise FactsError("Fq4::frobenius_map with an unknown selector")
                    sub = self.fq4_arm(("variant", names.index(pw[2])))
                elif fold_int(pw) is None:
                    raise FactsError("Fq4::frobenius_map with a non-literal power")
                else:
                    sub = self.fq4_arm(fold_int(pw))
                c0, c1 = self.fq4_of(body, a[0], inp4)
                # compose: sub maps (A,B) -> (sub0 over A or B …): sub arms are diagonal (c0 from c0, c1 from c1)
                def comp(s, v):
                    return Lin(v.src, v.conj ^ s.conj, (s.k * v.k) % q)
                return (comp(sub[0], c0), comp(sub[1], c1))
        e = expand_call(self.repo, t, same_file(self.repo, body))
        if e is not None:
            return self.fq4_of(body, e, inp4)
        raise FactsError("Frobenius evaluator: unrecognised Fq4 term %s" % show(t, maxdepth=3)[:120])

    def fq4_arm(self, power):
        b = self.F.body("crate::fields::fq4::Fq4::frobenius_map")
        tb = self.repo.tb(b)
        ev = paths.Evaluator({})
        choice = None
        if isinstance(power, tuple) and power[0] == "variant":
            choice = {("discr", ("param", 2)): power[1]}
        else:
            ev.intvals[("param", 2)] = power
        res = paths.simulate(b, tb, ev, discr_choice=choice)
        if res.end != "return":
            raise FactsError("Fq4::frobenius_map(%s) does not return (%s)" % (power, res.end))
        v = paths.path_value(b, tb, res.blocks, 0)
        base = ("init", ("deref", 1))
        inp4 = {base: (Lin("A", False, 1), Lin("B", False, 1))}
        c0, c1 = self.fq4_of(b, v, inp4)
        if c0.src != "A" or c1.src != "B":
            raise FactsError("Fq4::frobenius_map(%s) mixes components" % (power,))
        return (c0, c1)

    def fq12_arm(self, power):
        b = self.F.body("crate::fields::fq12::Fq12::frobenius_map")
        tb = self.repo.tb(b)
        ev = paths.Evaluator({})
        ev.intvals[("param", 2)] = power
        res = paths.simulate(b, tb, ev)
        if res.end != "return":
            raise FactsError("Fq12::frobenius_map(%d) does not return (%s)" % (power, res.end))
        v = paths.path_value(b, tb, res.blocks, 0)
        for _ in range(3):
            if strip(v)[0] == "call":
                # the arm delegates to a helper of the same file (with the power passed on): its return term, power bound
                e = expand_call(self.repo, strip(v), same_file(self.repo, b))
                if e is None:
                    break
                v = e
        v = bind_term(strip(v), {("param", 2): ("const", {"ty": "usize", "int": power})})
        if v[0] != "agg" or v[1] != "crate::fields::fq12::Fq12":
            raise FactsError("Fq12::frobenius_map(%d) is not an Fq12 literal" % power)
        base = ("init", ("deref", 1))
        out = []
        for k in range(3):
            inp4 = {("field", base, k): (Lin("A%d" % k, False, 1), Lin("B%d" % k, False, 1))}
            c0, c1 = self.fq4_of(b, v[3][k], inp4)
            out.append((c0, c1))
        return out


def classify_twist_multi(repo, b, L=None):
    """for a (&G2) -> (G2, G2, …) helper: [(power e or None, sign ±1, description)] per returned point"""
    L = L or Lits(repo)
    q = repo.P.q
    a1 = pow(-2 % q, (q - 1) // 12, q)
    a2 = pow(-2 % q, 2 * (q - 1) // 12, q)
    rv = strip(repo.tb(b).return_value())
    if not (rv[0] == "agg" and rv[1] in ("tuple", None) or (rv[0] == "agg" and not isinstance(rv[1], str))):
        if rv[0] != "agg":
            return None
    out = []
    for comp in rv[3]:
        sign = 1
        c = strip(comp)
        while c[0] == "call" and c[1].name == "neg" and len(c[2]) == 1:
            sign = -sign
            c = strip(c[2][0])
        cs, desc = classify_twist(repo, b, L, rv=c)
        e = twist_power_of(cs, q, a1, a2)
        out.append((e, sign, desc))
    return out


def classify_twist(repo, b, L=None, rv=None):
    """[(source coordinate, conjugated?, Fq factor)] for the three coordinates a (&G2) -> G2 helper returns, or None."""
    L = L or Lits(repo)
    q = repo.P.q
    rv = repo.tb(b).return_value() if rv is None else rv
    for _ in range(3):
        if rv[0] == "call" and not (len(rv[2]) == 3 and rv[1].d.startswith("crate::groups::")):
            e = expand_call(repo, rv, same_file(repo, b))
            if e is None:
                break
            rv = e
    desc = show(rv, maxdepth=4)[:200]
    ops = None
    if rv[0] == "call" and len(rv[2]) == 3 and rv[1].d.startswith("crate::groups::"):
        ops = rv[2]
    elif rv[0] == "agg" and rv[1] == "crate::groups::G" and len(rv[3]) == 3:
        ops = rv[3]
    if ops is None:
        return None, desc

    def coord(t, depth=0):
        t = strip(t)
        c = False
        k = 1
        while t[0] == "call":
            if t[1].name == "unitary_inverse" and len(t[2]) == 1:
                c = not c
                t = strip(t[2][0])
            elif t[1].name == "scale" and len(t[2]) == 2:
                kk = L.fq(t[2][1])
                if kk is None:
                    return None
                k = k * kk % q
                t = strip(t[2][0])
            elif t[1].name == "mul" and len(t[2]) == 2 and L.fq2(t[2][1]) is not None and L.fq2(t[2][1])[1] == 0:
                k = k * L.fq2(t[2][1])[0] % q
                t = strip(t[2][0])
            else:
                break
        idx = None
        me = (("init", ("deref", 1)), ("param", 1))       # the point, taken by reference or by value
        if t[0] == "call" and t[1].d.startswith("crate::groups::G::<P>::") and len(t[2]) == 1 and strip(t[2][0]) in me:
            gb = repo.F.bodies.get(t[1].d)
            if gb is not None:
                grv = strip(repo.tb(gb).return_value())
                if grv[0] == "field" and strip(grv[1]) in me:
                    idx = grv[2]
        elif t[0] == "field" and strip(t[1]) in me:
            idx = t[2]
        elif t[0] == "call" and depth < 3:
            e = expand_call(repo, t, same_file(repo, b))
            if e is not None:
                sub = coord(e, depth + 1)
                if sub is not None:
                    return (sub[0], sub[1] ^ c, sub[2] * k % q)
        return (idx, c, k)
    cs = [coord(x) for x in ops]
    return cs, str(cs)


def twist_power_of(cs, q, a1, a2):
    """π^e (e = 1, 2) or None for the coordinate description of a (&G2) -> G2 helper. The image may be any Jacobian representative
    of the point: (x̄·λ², ȳ·λ³, z̄·α·λ) for some constant λ ≠ 0 is the same point as (x̄, ȳ, z̄·α)."""
    if not cs or len(cs) != 3 or any(c is None for c in cs):
        return None
    if [c[0] for c in cs] != [0, 1, 2] or len({c[1] for c in cs}) != 1:
        return None
    conj = cs[0][1]
    kx, ky, kz = (c[2] % q for c in cs)
    if not (kx and ky and kz):
        return None
    alpha = a1 if conj else a2
    lam = kz * pow(alpha, -1, q) % q
    if kx == lam * lam % q and ky == lam * lam * lam % q:
        return 1 if conj else 2
    return None


def twist_powers(repo, roles):
    """{path: e} for the (&G2) -> G2 helpers of the pairing module that are the twist Frobenius π^e (e = 1, 2) coordinate-wise."""
    q = repo.P.q
    a1 = pow(-2 % q, (q - 1) // 12, q)
    a2 = pow(-2 % q, 2 * (q - 1) // 12, q)
    out = {}
    L = Lits(repo)
    for b in roles.twist_frob:
        try:
            cs, _ = classify_twist(repo, b, L)
        except FactsError:
            cs = None
        e_ = twist_power_of(cs, q, a1, a2)
        if e_ is not None:
            out[b.rec["path"]] = e_
    for b in getattr(roles, "twist_frob_multi", []):
        try:
            comps = classify_twist_multi(repo, b, L)
        except FactsError:
            comps = None
        if comps and all(c[0] is not None for c in comps):
            out[b.rec["path"]] = tuple((c[0], c[1]) for c in comps)
    return out


def rule_frobenius(prop, repo):
    """x ↦ x^(q^e) on Fq12 = Fq2[w]/(w^6 − u) written as Σ (A_k + B_k w^3) w^k: coefficient of w^m is conjugated e times and
    multiplied by (−2)^(m(q^e−1)/12)."""
    F, P = repo.F, repo.P
    q = P.q
    R = Rule("R-FROB-LINEAR", "each implemented Frobenius power acts on every Fq2 coefficient as conj^e · (−2)^(m(q^e−1)/12) (scalar-linear abstract evaluation of the dispatch arms)",
             floor=4, exhaustive=True)
    FE = FrobEval(repo)
    for e in (1, 2, 3, 6):
        R.instance()
        try:
            arm = FE.fq12_arm(e)
        except FactsError as ex:
            R.fail_closed("%s:frobenius:%d" % (prop, e), str(ex))
            continue
        bad = []
        rows = []
        for k in range(3):
            for j, nm in ((0, "A"), (1, "B")):
                m = k + 3 * j
                want_k = pow(-2 % q, m * (q ** e - 1) // 12, q)
                got = arm[k][j]
                want = Lin("%s%d" % (nm, k), e % 2 == 1, want_k)
                rows.append({"coefficient": "w^%d" % m, "got": repr(got)[:60], "ok": got == want})
                if got != want:
                    bad.append(("w^%d" % m, repr(got), repr(want)))
        R.check(not bad, "%s:frobenius:%d" % (prop, e), "Fq12::frobenius_map(%d) is not x↦x^(q^%d) on coefficients %s" % (e, e, bad[:2]),
                sample={"power": e, "coefficients_checked": len(rows), "first": rows[:2]})
    # twist Frobenius used by the Miller loops: (x̄, ȳ, z̄·α1), (x, y, z·α2), and q_power_frobenius called with α1
    a1 = pow(-2 % q, (q - 1) // 12, q)
    a2 = pow(-2 % q, 2 * (q - 1) // 12, q)
    from .roles import PairingRoles
    roles = PairingRoles(F)
    L = Lits(repo)
    got_powers = {}
    for b in roles.twist_frob:
        R.instance()
        cs, desc = classify_twist(repo, b, L)
        e = twist_power_of(cs, q, a1, a2)
        got_powers[e] = got_powers.get(e, 0) + 1
        R.check(e is not None, "%s:frobenius:twist:%s" % (prop, b.name), "%s is neither π = (x̄, ȳ, z̄·α1) nor π² = (x, y, z·α2): %s" % (b.rec["path"], desc),
                b.file_line(), b.rec["path"], sample={"fn": b.rec["path"], "frobenius_power": e, "coords": desc[:120]})
    for b in getattr(roles, "twist_frob_multi", []):
        R.instance()
        comps = classify_twist_multi(repo, b, L)
        okm = bool(comps) and all(c[0] is not None for c in comps)
        for c in comps or []:
            got_powers[c[0]] = got_powers.get(c[0], 0) + 1
        R.check(okm, "%s:frobenius:twist:%s" % (prop, b.name), "%s does not return ±π / ±π² images of its argument: %s" % (b.rec["path"], [c[2][:80] for c in comps or []]),
                b.file_line(), b.rec["path"], sample={"fn": b.rec["path"], "images": [(c[0], c[1]) for c in comps or []]})
    if not (got_powers.get(1) and got_powers.get(2)):
        R.fail_closed("%s:frobenius:twist:anchor" % prop, "expected twist Frobenius helpers for π and π² (&G2) -> G2 in the pairing module, found %s" % [b.rec["path"] for b in list(roles.twist_frob) + list(getattr(roles, "twist_frob_multi", []))])
    # prepared path: the (point, factor) Frobenius helper is applied with f = α1 (twice)
    pb = roles.producer
    R.instance()
    if pb is not None and not roles.twist_frob_by and got_powers.get(1):
        # no helper that takes the factor as an argument: the producer uses the plain π / π² helpers judged above, and how it
        # applies them is the Miller-index rule's business
        R.ok(sample={"producer": pb.rec["path"], "frobenius_steps": "through the (&G2) -> G2 helpers"})
    elif pb is None or len(roles.twist_frob_by) != 1:
        R.fail_closed("%s:frobenius:prepared" % prop, "prepared-point producer or its Frobenius helper not found")
    else:
        tb = repo.tb(pb)
        vals = []
        hp = roles.twist_frob_by[0].rec["path"]
        todo = [pb]
        seen = set()
        while todo:
            cb = todo.pop()
            if cb.rec["path"] in seen:
                continue
            seen.add(cb.rec["path"])
            tbc = repo.tb(cb)
            for bb, t in cb.calls():
                d = (t.get("fn") or {}).get("res_def")
                if d == hp:
                    vals.append(L.fq2(strip(tbc.call_args(bb)[1])))
                elif d in F.bodies and roles.in_module(F.bodies[d]) and roles.role_of(d) is None and F.bodies[d].rec.get("inputs") is not None and F.bodies[d] is not roles.consumer:
                    todo.append(F.bodies[d])
        R.check(len(vals) == 2 and all(v == (a1, 0) for v in vals), "%s:frobenius:prepared" % prop, "the Frobenius-with-factor helper is not applied twice with α1: %s" % vals, pb.file_line(), pb.rec["path"],
                sample={"frobenius_factor_args": [hex(v[0]) if v else None for v in vals]})
    return R.finish()


def feasible_int_params(repo, b, bb, impl, depth=0):
    """[{param index: value}] — the literal values the integer parameters of `b` can have when control is in block `bb`: for a
    power dispatcher, the powers whose simulation passes through the block; for a helper, the arguments of its call sites (literals,
    or the feasible values of the caller's own parameters passed on unchanged).  None when that cannot be enumerated."""
    F = repo.F
    if depth > 3:
        return None
    ins = b.rec.get("inputs") or []
    ip = [i + 1 for i, t in enumerate(ins) if t.strip() in ("usize", "u32", "u64", "u8", "u16", "i32")]
    if len(ip) != 1:
        return None
    k = ip[0]
    tb = repo.tb(b)
    if b.rec["path"] in impl:
        out = []
        for val in sorted(impl[b.rec["path"]]):
            ev = paths.Evaluator({})
            ev.intvals[("param", k)] = val
            if bb in paths.simulate(b, tb, ev).blocks:
                out.append({k: val})
        return out
    out = []
    sites = 0
    for cb in F.fn_bodies():
        ctb = None
        for cbb, t in cb.calls():
            if (t.get("fn") or {}).get("res_def") != b.rec["path"]:
                continue
            sites += 1
            ctb = ctb or repo.tb(cb)
            a = strip(ctb.call_args(cbb)[k - 1])
            v = fold_int(a)
            if v is not None:
                out.append({k: v})
                continue
            if a[0] == "param":
                sub = feasible_int_params(repo, cb, cbb, impl, depth + 1)
                if sub is None:
                    return None
                for env in sub:
                    if a[1] in env:
                        out.append({k: env[a[1]]})
                    else:
                        return None
                continue
            return None
    return out if sites else None


def rule_frob_dispatch(prop, repo):
    F = repo.F
    R = Rule("R-FROB-DISPATCH", "every call of a frobenius_map passes a literal power that has an implemented arm (no reachable unimplemented!())", floor=6, exhaustive=True)
    impl = {}
    for path in ("crate::fields::fq4::Fq4::frobenius_map", "crate::fields::fq12::Fq12::frobenius_map"):
        b = F.bodies.get(path)
        if b is None:
            R.fail_closed("%s:dispatch:%s" % (prop, path), "%s not found" % path)
            continue
        tb = repo.tb(b)
        arms = set()
        # a power is implemented when the body, followed with that literal, reaches a return (match arm or if-chain alike)
        for val in range(0, 64):
            ev = paths.Evaluator({})
            ev.intvals[("param", 2)] = val
            if paths.simulate(b, tb, ev).end == "return":
                arms.add(val)
        impl[path] = arms
    for b in F.fn_bodies():
        tb = None
        for bb, t in b.calls():
            d = (t.get("fn") or {}).get("res_def")
            if d in impl:
                tb = tb or repo.tb(b)
                R.instance()
                pw = strip(tb.call_args(bb)[1])
                ok = pw[0] == "const" and "int" in pw[1] and int(pw[1]["int"]) in impl[d]
                if not ok and fold_int(pw) is not None:
                    ok = fold_int(pw) in impl[d]
                if not ok and pw[0] != "const":
                    # a power computed from the function's own integer parameters: every value those parameters can have here
                    vals = feasible_int_params(repo, b, bb, impl)
                    if vals is not None and vals:
                        res_ = [fold_int(bind_term(pw, {("param", k): ("const", {"ty": "usize", "int": v}) for k, v in env.items()})) for env in vals]
                        ok = all(r_ is not None and r_ in impl[d] for r_ in res_)
                if not ok and pw[0] != "const":
                    # a power read out of a table by an interpreter loop: the powers this call site is reached with when the
                    # final-exponentiation entry points are executed in the exponent domain (the table is a literal of the
                    # program, so the execution is concrete in it) — provided nothing else can call this function
                    from .expo import observed_frobenius_powers
                    sites, visited = observed_frobenius_powers(repo)
                    sp = t.get("span") or {}
                    got = sites.get((b.rec["path"], sp.get("line"), sp.get("col")))
                    callers_ = {cb_.rec["path"].split("::{closure")[0] for cb_ in F.fn_bodies() for _, t2 in cb_.calls() if (t2.get("fn") or {}).get("res_def") == b.rec["path"]}
                    if got and None not in got and all(v in impl[d] for v in got) and callers_ and callers_ <= visited and not F.is_exported(b.rec["path"]):
                        ok = True
                if pw[0] == "agg" and isinstance(pw[1], str) and not pw[3] and pw[1] in F.adts:
                    # an enum selector: every variant either has an arm or the match is exhaustive by construction (rustc
                    # checked it); an arm that diverges shows up when the body is followed with that variant
                    names = [v["name"] for v in F.adts[pw[1]]["variants"]]
                    cb2 = F.bodies[d]
                    res2 = paths.simulate(cb2, repo.tb(cb2), paths.Evaluator({}), discr_choice={("discr", ("param", 2)): names.index(pw[2])}) if pw[2] in names else None
                    ok = res2 is not None and res2.end == "return"
                R.check(ok, "%s:dispatch:%s→%s" % (prop, b.rec["path"], show(pw, maxdepth=2)), "%s calls %s with power %s, which has no implemented arm %s" % (b.rec["path"], d, show(pw, maxdepth=2), sorted(impl[d])),
                        loc_of(b, bb), b.rec["path"], sample={"caller": b.rec["path"], "power": show(pw, maxdepth=1)})
    return R.finish()
