"""C13 — byte, decimal and hash conversions to field elements compute n mod p (structural clauses)."""
from core import report, paths
from core.report import Rule
from core.sm9 import Repo, U256
from core.terms import strip, alts, walk, show
from . import shared, conv2 as convert, profile, ladder, field
from .shared import loc_of

R1_64 = range(1, 65)
SPEC = {
    "crate::Fr::from_slice": {"lens": R1_64, "prefix": None, "total_lens": range(32, 65)},
    "crate::Fq::from_slice": {"lens": R1_64, "prefix": None, "total_lens": range(32, 65)},
    "<crate::Fr as core::convert::TryFrom<&[u8]>>::try_from": {"lens": R1_64, "prefix": None, "total_lens": range(32, 65)},
    "<crate::Fq as core::convert::TryFrom<&[u8]>>::try_from": {"lens": R1_64, "prefix": None, "total_lens": range(32, 65)},
    "crate::Fr::from_hash": {"lens": range(0, 65), "prefix": None},
    "crate::fields::fp::Fr::from_hash": {"lens": range(0, 65), "prefix": None},
    "crate::Fq::to_big_endian": {"lens": {32}, "prefix": None, "total_lens": {32}},
    "crate::u256::U256::to_big_endian": {"lens": {32}, "prefix": None, "total_lens": {32}},
    "crate::u256::U256::from_slice": {"lens": {32}, "prefix": None, "total_lens": {32}},
    "crate::u512::U512::from_slice": {"lens": {64}, "prefix": None, "total_lens": {64}},
    "crate::fields::fp::Fr::from_slice": {"lens": {32}, "prefix": None},
    "crate::fields::fp::Fq::from_slice": {"lens": {32}, "prefix": None},
}
VALUE_ENTRIES = {"crate::Fr::from_slice": "crate::fields::fp::Fr", "crate::Fq::from_slice": "crate::fields::fp::Fq",
                 "crate::fields::fp::Fr::from_slice": "crate::fields::fp::Fr", "crate::fields::fp::Fq::from_slice": "crate::fields::fp::Fq"}
TOTAL_EXTRA = [
    "crate::Fr::interpret", "crate::Fq::interpret", "crate::fields::fp::Fr::interpret", "crate::fields::fp::Fq::interpret",
    "crate::Fr::to_slice", "crate::Fq::to_slice", "crate::fields::fp::Fr::to_slice", "crate::fields::fp::Fq::to_slice",
    "crate::<impl core::convert::From<crate::Fr> for [u8; 32]>::from", "crate::<impl core::convert::From<crate::Fq> for [u8; 32]>::from",
    "crate::u512::U512::interpret",
]


SIBLINGS = (("crate::Fr::from_slice", "crate::Fq::from_slice"),
            ("<crate::Fr as core::convert::TryFrom<&[u8]>>::try_from", "<crate::Fq as core::convert::TryFrom<&[u8]>>::try_from"),
            ("crate::fields::fp::Fr::from_slice", "crate::fields::fp::Fq::from_slice"))


def rule_siblings(results):
    R = Rule("R-SIBLING", "hand-duplicated Fr / Fq conversions agree on every abstract input (same accept / reject / panic map)", floor=2, exhaustive=True)
    for a, b in SIBLINGS:
        ra, rb = results.get(a), results.get(b)
        R.instance()
        if ra is None or rb is None:
            R.fail_closed("C13:sibling:%s" % a, "sibling pair %s / %s not analysed" % (a, b))
            continue
        diff = convert.outcome_map_diff(ra, rb)
        R.check(not diff, "C13:sibling:%s" % a, "%s and %s disagree for abstract inputs %s" % (a, b, diff[:5]), sample={"pair": [a, b], "points": len(ra)})
    return R.finish()


def rule_setbit(repo, prop="C13"):
    F = repo.F
    R = Rule("R-SETBIT", "set_bit operates on the canonical (non-Montgomery) value and re-reduces; the public wrapper forwards (bit, to) unchanged; "
             "U256::set_bit sets/clears bit n&63 of limb n>>6 for n<256", floor=4)
    fp = repo.fp_types()
    # total constructors U256 / [u8; 64] → field (they necessarily reduce), by signature
    total_ctors = {}
    for cb in F.fn_bodies():
        ins = cb.rec.get("inputs") or []
        if cb.rec.get("output") in fp and len(ins) == 1 and not cb.impl_trait and (ins[0] == U256 or ins[0].replace(" ", "") in ("&[u8;64]", "[u8;64]")):
            total_ctors[cb.rec["path"]] = cb.rec["output"]
    def sets_canonical_bit(v, ap, me):
        """v = total_ctor(after[U256::set_bit](canonical(me), bit, to)) — the bit is set on the canonical value, which is then re-reduced"""
        v = strip(v)
        if v[0] == "call" and len(v[2]) == 1 and total_ctors.get(v[1].d) == ap:
            x = strip(v[2][0])
            if x[0] == "mutcall" and x[1].d == "crate::u256::U256::set_bit" and x[3] == 0:
                canon = shared.is_canon_conv(x[2][0], ap) == me
                fwd = x[2][1] == ("param", 2) and x[2][2] == ("param", 3)
                return canon and fwd
        return False
    w = F.bodies.get("crate::Fr::set_bit")
    wfin = repo.tb(w).final_value(("deref", 1)) if w is not None else None
    # where the work is done: in the field layer's own set_bit (the wrapper forwards), or in the public wrapper itself
    in_wrapper = wfin is not None and wfin[0] == "update" and wfin[2] == (("f", 0),) and sets_canonical_bit(wfin[3], "crate::fields::fp::Fr", ("field", ("init", ("deref", 1)), 0))
    for ap in fp:
        path = ap + "::set_bit"
        b = F.bodies.get(path)
        R.instance()
        if b is None:
            if in_wrapper:
                R.ok(sample={"fn": path, "present": False, "note": "the field layer has no set_bit of its own; the public wrapper does the work"})
            else:
                R.fail_closed("%s:setbit:%s:anchor" % (prop, path), "%s not found" % path)
            continue
        fin = repo.tb(b).final_value(("deref", 1))
        why = show(fin, maxdepth=5)[:220]
        ok = sets_canonical_bit(fin, ap, ("init", ("deref", 1)))
        R.check(ok, "%s:setbit:%s" % (prop, path), "%s does not set the bit on the canonical value and re-reduce: %s" % (path, why), b.file_line(), path,
                sample={"fn": path, "final_self": why})
    R.instance()
    if w is None:
        R.fail_closed("%s:setbit:wrapper" % prop, "crate::Fr::set_bit not found")
    else:
        fin = wfin
        ok = in_wrapper or (fin[0] == "update" and fin[2] == (("f", 0),) and fin[3][0] == "mutcall" and fin[3][1].d == "crate::fields::fp::Fr::set_bit" and fin[3][2][1:] == (("param", 2), ("param", 3)))
        R.check(ok, "%s:setbit:crate::Fr::set_bit" % prop, "Fr::set_bit neither forwards to fields::Fr::set_bit(bit, to) nor sets the bit on the canonical value itself: %s" % show(fin, maxdepth=4)[:200], w.file_line(), w.rec["path"],
                sample={"wrapper": show(fin, maxdepth=3)[:160]})
    # U256::set_bit: for every bit index, over opaque limbs — exactly one limb changes, by OR with / AND with the complement of
    # the single-bit mask 1 << (n & 63) of limb n >> 6; indices ≥ 256 change nothing and answer false
    u = F.bodies.get("crate::u256::U256::set_bit")
    R.instance()
    if u is None:
        R.fail_closed("%s:setbit:U256" % prop, "U256::set_bit not found")
    else:
        from core.bytex import Machine, T, Tup, Adt, Ref
        bad = []
        rows = 0
        adt = F.adts.get("crate::u256::U256")
        inner_ty = adt["variants"][0]["fields"][0]["ty"] if adt else ""
        inner_head = inner_ty.split("<")[0]
        for n in list(range(0, 256)) + [256, 257, 511, 4096, 2 ** 32, 2 ** 63]:
            for to in (False, True):
                limbs = Tup([T("limb", j) for j in range(4)])
                me = Adt("crate::u256::U256", "U256", [Adt(inner_head, inner_head.split("::")[-1], [limbs])])
                m = Machine(F, field.int_layer_policy(F))
                outs = m.run(u, [Ref(0, 0), n, to], holders=[me])
                rows += 1
                if len(outs) != 1 or outs[0].kind != "return" or outs[0].pc:
                    bad.append((n, to, "outcomes %r" % (outs[:2],)))
                    continue
                o = outs[0]
                after = o.roots.get(0)
                try:
                    got = list(after.fields[0].fields[0])
                except Exception:
                    bad.append((n, to, "limbs lost: %r" % (after,)))
                    continue
                want = list(limbs)
                if n < 256:
                    from core import bitprov
                    j, k = n >> 6, n & 63
                    ok_val = o.value is True or o.value == 1
                    g = got[j]
                    have = bitprov.bits(g)
                    expect = [("L", j, i, False) if i != k else int(to) for i in range(64)]
                    okl = have == expect
                    rest = all(got[i] == limbs[i] or bitprov.bits(got[i]) == bitprov.bits(limbs[i]) for i in range(4) if i != j)
                    if not (ok_val and okl and rest):
                        bad.append((n, to, "limb %d becomes %r, returns %r" % (j, g, o.value)))
                else:
                    if bool(o.value) is not False or got != want:
                        bad.append((n, to, "index ≥ 256 returns %r / changes limbs" % (o.value,)))
        R.check(not bad, "%s:setbit:crate::u256::U256::set_bit" % prop, "U256::set_bit does not set/clear exactly bit n&63 of limb n>>6 (false and untouched for n ≥ 256): %s" % bad[:3],
                u.file_line(), u.rec["path"], sample={"bit_indices_x_polarity": rows, "limbs": "opaque", "all_rows_match": not bad})
    return R.finish()


def rule_canon_conv(repo):
    """The Montgomery→canonical conversion itself: U256::from(x) = x.0 · 1 · R⁻¹ mod the type's own modulus."""
    F = repo.F
    R = Rule("R-CANON-CONV", "U256::from(field element) is the Montgomery multiplication of the raw limbs by the integer one modulo the type's own modulus", floor=2)
    fp = repo.fp_types()
    closed, _, _ = shared.classify_u256(repo)
    for ap in fp:
        c = None
        for b in F.fn_bodies():
            if b.name == "from" and b.impl_trait == "core::convert::From" and tuple(b.rec.get("inputs") or ()) == (ap,) and b.rec.get("output") == U256:
                c = b
        R.instance()
        if c is None:
            R.fail_closed("C13:canon:%s:conv" % ap, "From<%s> for U256 not found" % ap)
            continue
        rv = repo.tb(c).return_value()
        ok = False
        x = rv
        if x[0] == "mutcall" and (x[1].d == "crate::u256::U256::mul" or (closed.get(x[1].d) or {}).get("role") == "mul"):
            ok = strip(x[2][0]) == ("field", ("param", 1), 0) and strip(x[2][1])[0] == "call" and strip(x[2][1])[1].name == "one" and not strip(x[2][1])[2] and repo.static_of(x[2][2]) == fp[ap]["modulus"]
        R.check(ok, "C13:canon:%s:conv" % ap, "U256::from(%s) is not a Montgomery multiplication by 1 modulo its own modulus: %s" % (ap, show(rv, maxdepth=4)[:200]), c.file_line(), c.rec["path"],
                sample={"conversion": show(rv, maxdepth=3)[:160]})
    return R.finish()


def run(ctx):
    rules = []
    results_dev = None
    for cfg in ("dev", "rel"):
        repo = Repo(ctx.facts(cfg))
        ls = convert.make_conv(repo)
        for a, b in SIBLINGS:
            convert.share_length_domains_between(ls, a, b)       # siblings are compared over one set of representative lengths
        r, results = convert.rule_accept("C13", repo, ls, SPEC, cfg)
        r.rid = "R-LEN-PART[%s]" % cfg
        r.desc = "length partition of every byte conversion: accepted lengths, and lengths on which rejection is impossible"
        rules.append(r)
        rules.append(convert.rule_total("C13", repo, ls, list(SPEC) + TOTAL_EXTRA, cfg, results))
        if cfg == "rel":
            rules.append(profile.rule_nopanic_core("C13", repo, list(SPEC) + TOTAL_EXTRA, convert.make_conv))
        if cfg == "dev":
            results_dev = results
            rules.append(rule_siblings(results))
            rules.append(convert.rule_value_shape("C13", repo, ls, VALUE_ENTRIES))
            rules.append(convert.rule_hash("C13", repo, ls, ["crate::fields::fp::Fr::from_hash", "crate::Fr::from_hash"]))
            rules.append(ladder.rule_decimal("C13", repo))
            rules.append(rule_setbit(repo))
            rules.append(convert.rule_scalar_encoders("C13", repo, ls))
            rules.append(convert.rule_is_even("C13", repo, ls))
            rules.append(rule_canon_conv(repo))
            rules.append(convert.rule_conv_traits("C13", repo, ls))
            rules.append(profile.rule_int_total("C13", repo, ["crate::Fr::set_bit", "crate::fields::fp::Fr::set_bit", "crate::fields::fp::Fq::set_bit", "crate::u256::U256::set_bit", "crate::u256::U256::get_bit"],
                                                optional=("crate::fields::fp::Fr::set_bit", "crate::fields::fp::Fq::set_bit")))
    return report.emit(
        "C13", ctx.tier, ctx.seed, rules, ctx.started,
        "Byte-provenance abstract execution of every byte/hash conversion over the complete length partition (both profiles): accepted lengths, lengths on which rejection is "
        "impossible, no reachable panic; Fr/Fq sibling agreement; the value term of every successful path is the big-endian integer of the zero-left-padded input, range-checked / "
        "reduced as its length class requires; from_hash = (padded input mod canonical(−1)) + 1; decimal parser stops at the first non-digit with radix 10; set_bit acts on the "
        "canonical value and re-reduces; every emitted byte is a byte of the big-endian image of U256::from(self).",
        shared.ASSUMPTIONS + ["ark_ff BigInt::to_bytes_be yields 8·N big-endian bytes", "byteorder::BigEndian::read_u64 semantics"],
        ["numerical correctness of divrem / Montgomery conversion / the decimal accumulation; that Fr::new(remainder by r−1) is never None (numerical)"])
