"""C13 — byte, decimal and hash conversions to field elements compute n mod p (structural clauses)."""
from core import report, paths
from core.report import Rule
from core.sm9 import Repo, U256
from core.terms import strip, alts, walk, show
from core.lensim import OKISH, ERRISH
from . import shared, convert, profile, layout
from .shared import loc_of

R1_64 = range(1, 65)
SPEC = {
    "crate::Fr::from_slice": {"lens": R1_64, "prefix": None, "total_lens": range(32, 65)},
    "crate::Fq::from_slice": {"lens": R1_64, "prefix": None, "total_lens": range(32, 65)},
    "<crate::Fr as core::convert::TryFrom<&[u8]>>::try_from": {"lens": R1_64, "prefix": None, "total_lens": range(32, 65)},
    "<crate::Fq as core::convert::TryFrom<&[u8]>>::try_from": {"lens": R1_64, "prefix": None, "total_lens": range(32, 65)},
    "crate::Fr::from_hash": {"lens": range(0, 65), "prefix": None},
    "crate::fields::fp::Fr::from_hash": {"lens": range(0, 65), "prefix": None},
    "crate::Fq::to_big_endian": {"lens": {32}, "prefix": None, "total_lens": {32}},
    "crate::u256::U256::to_big_endian": {"lens": {32}, "prefix": None, "total_lens": {32}},
    "crate::u256::U256::from_slice": {"lens": {32}, "prefix": None, "total_lens": {32}},
    "crate::u512::U512::from_slice": {"lens": {64}, "prefix": None, "total_lens": {64}},
    "crate::fields::fp::Fr::from_slice": {"lens": {32}, "prefix": None},
    "crate::fields::fp::Fq::from_slice": {"lens": {32}, "prefix": None},
}
TOTAL_EXTRA = [
    "crate::Fr::interpret", "crate::Fq::interpret", "crate::fields::fp::Fr::interpret", "crate::fields::fp::Fq::interpret",
    "crate::Fr::to_slice", "crate::Fq::to_slice", "crate::fields::fp::Fr::to_slice", "crate::fields::fp::Fq::to_slice",
    "crate::<impl core::convert::From<crate::Fr> for [u8; 32]>::from", "crate::<impl core::convert::From<crate::Fq> for [u8; 32]>::from",
    "crate::u512::U512::interpret",
]


def rule_siblings(results):
    R = Rule("R-SIBLING", "hand-duplicated Fr / Fq conversions agree on every abstract input (same accept / reject / panic map)", floor=2, exhaustive=True)
    for a, b in (("crate::Fr::from_slice", "crate::Fq::from_slice"),
                 ("<crate::Fr as core::convert::TryFrom<&[u8]>>::try_from", "<crate::Fq as core::convert::TryFrom<&[u8]>>::try_from"),
                 ("crate::fields::fp::Fr::from_slice", "crate::fields::fp::Fq::from_slice")):
        ra, rb = results.get(a), results.get(b)
        R.instance()
        if ra is None or rb is None:
            R.fail_closed("C13:sibling:%s" % a, "sibling pair %s / %s not analysed" % (a, b))
            continue
        diff = [k for k in sorted(set(ra) | set(rb), key=str)
                if (ra.get(k) and frozenset(ra[k].variants), bool(ra.get(k) and ra[k].panics)) != (rb.get(k) and frozenset(rb[k].variants), bool(rb.get(k) and rb[k].panics))]
        R.check(not diff, "C13:sibling:%s" % a, "%s and %s disagree for abstract inputs %s" % (a, b, diff[:5]), sample={"pair": [a, b], "points": len(ra)})
    return R.finish()


def rule_padding(repo):
    """Short inputs are right-aligned (big-endian zero padding): the copy goes to buf[N - len ..] of a zeroed [u8; N]."""
    F = repo.F
    R = Rule("R-PAD", "shorter inputs are copied to buf[N-len..] of a zero-filled N-byte buffer (big-endian left padding)", floor=5)
    for path in ("crate::Fr::from_slice", "crate::Fq::from_slice", "crate::fields::fp::Fr::from_hash"):
        b = F.bodies.get(path)
        if b is None:
            R.fail_closed("C13:pad:%s:anchor" % path, "%s not found" % path)
            continue
        tb = repo.tb(b)
        for bb, t in b.calls():
            if (t.get("fn") or {}).get("name") != "copy_from_slice":
                continue
            R.instance()
            dst, src = tb.call_args(bb)
            d = strip(dst)
            ok = False
            why = show(d, maxdepth=4)[:200]
            if d[0] == "call" and d[1].name == "index_mut":
                buf = strip(d[2][0])
                rng = strip(d[2][1])
                zero = buf[0] == "repeat" and strip(buf[1]) == ("const", {"ty": "u8", "int": 0}) or (buf[0] == "repeat" and buf[1][0] == "const" and buf[1][1].get("int") == 0)
                if rng[0] == "agg" and rng[1] == "core::ops::RangeFrom" and zero:
                    st = rng[3][0]
                    if st[0] == "field" and st[1][0] == "binop" and st[1][1].startswith("Sub"):
                        a, c = st[1][2], st[1][3]
                        n = int(buf[2])
                        is_len = c[0] == "call" and c[1].name == "len" and strip(c[2][0]) in (("param", 1), ("init", ("deref", 1)))
                        ok = a[0] == "const" and int(a[1].get("int", -1)) == n and is_len and strip(src) in (("param", 1), ("init", ("deref", 1)))
            R.check(ok, "C13:pad:%s" % path, "padding copy in %s is not buf[N-len..] ← input: %s" % (path, why), loc_of(b, bb), path,
                    sample={"fn": path, "dest": why})
    return R.finish()


def rule_hash(repo):
    F = repo.F
    R = Rule("R-HASH", "from_hash = (U512(h) mod canonical(−1)) + 1: divisor provenance, +1 closure, None beyond 64 bytes", floor=3)
    b = F.bodies.get("crate::fields::fp::Fr::from_hash")
    if b is None:
        R.fail_closed("C13:hash:anchor", "fields::Fr::from_hash not found")
        return R.finish()
    tb = repo.tb(b)
    rv = tb.return_value()
    divs = [s for s in walk(rv) if s[0] == "call" and s[1].name == "divrem"]
    R.instance()
    ok = False
    desc = ""
    if len(divs) >= 1:
        dv = strip(divs[0][2][1])
        desc = show(dv, maxdepth=5)[:200]
        if dv[0] == "call" and dv[1].name == "from" and "From<crate::fields::fp::Fr> for crate::u256::U256" in dv[1].i:
            x = strip(dv[2][0])
            if x[0] == "call" and x[1].name == "neg" and x[1].get("trait") == "core::ops::Neg":
                y = strip(x[2][0])
                ok = y[0] == "call" and y[1].name == "one" and "fp::Fr" in y[1].i
    R.check(ok, "C13:hash:divisor", "divisor of from_hash is not canonical(−Fr::one()) = r−1: %s" % desc, b.file_line(), b.rec["path"], sample={"divisor": desc})
    # remainder (field 1) → Fr::new → + one
    R.instance()
    rem_ok = any(s[0] == "field" and s[2] == 1 and strip(s[1])[0] == "call" and strip(s[1])[1].name == "divrem" for s in walk(rv))
    news = [s for s in walk(rv) if s[0] == "call" and s[1].d == repo.fp_types()["crate::fields::fp::Fr"]["new"].rec["path"]]
    clos = [s for s in walk(rv) if s[0] == "agg" and isinstance(s[1], tuple) and s[1][0] == "closure"]
    plus_one = False
    for c in clos:
        cb = F.bodies.get(c[1][1])
        if cb:
            crv = repo.tb(cb).return_value()
            if crv[0] == "call" and crv[1].name == "add" and {strip(a)[0] for a in crv[2]} == {"param", "call"}:
                other = [strip(a) for a in crv[2] if strip(a)[0] == "call"][0]
                plus_one = other[1].name == "one" and "fp::Fr" in other[1].i
    R.check(rem_ok and news and plus_one, "C13:hash:shape", "from_hash is not Fr::new(remainder).map(|f| f + one): remainder=%s new=%s plus_one=%s" % (rem_ok, bool(news), plus_one),
            b.file_line(), b.rec["path"], sample={"remainder_used": rem_ok, "plus_one_closure": plus_one})
    # every alternative that can be Some is (value mod (r−1)) + 1: the remainder itself, or a raw value on the true edge of `value < r−1`
    R.instance()
    bad = []
    n_alts = 0
    fr_new = repo.fp_types()["crate::fields::fp::Fr"]["new"].rec["path"]
    for a in alts(rv):
        if a[0] == "agg" and a[2] == "None":
            continue
        if a[0] == "call" and a[1].name in ("from_residual",):
            continue
        n_alts += 1
        ok_alt = False
        if a[0] == "call" and a[1].name == "map" and strip(a[2][0])[0] == "call" and strip(a[2][0])[1].d == fr_new:
            v = strip(strip(a[2][0])[2][0])
            if v[0] == "field" and v[2] == 1 and strip(v[1])[0] == "call" and strip(v[1])[1].name == "divrem":
                ok_alt = True
            else:
                # guarded raw value
                site = a[3]
                for bi in sorted(b.reachable()):
                    term = b.blocks[bi]["term"]
                    if term["k"] != "switch":
                        continue
                    d = tb.operand(term["discr"], bi, len(b.blocks[bi]["stmts"]))
                    if d[0] == "call" and d[1].name == "lt" and len(d[2]) == 2 and strip(d[2][0]) == v:
                        dv2 = strip(d[2][1])
                        is_div = dv2[0] == "call" and dv2[1].name == "from" and strip(dv2[2][0])[0] == "call" and strip(dv2[2][0])[1].name == "neg"
                        tt = term["otherwise"] if any(int(x) == 0 for x, _ in term["arms"]) else None
                        if is_div and tt is not None and b.pred()[tt] == [bi] and b.dominates(tt, site):
                            ok_alt = True
        if not ok_alt:
            bad.append(show(a, maxdepth=4)[:160])
    R.check(not bad and n_alts >= 1, "C13:hash:every-result-is-remainder-plus-one", "a result of from_hash is not (remainder by r−1)+1 nor a value proven < r−1: %s" % bad[:2], b.file_line(), b.rec["path"],
            sample={"some_alternatives": n_alts, "all_remainder_plus_one": not bad})
    # source of the dividend: the padded 64-byte buffer interpreted as U512
    R.instance()
    src = strip(divs[0][2][0]) if divs else ("unknown",)
    R.check(src[0] == "call" and src[1].d == "crate::u512::U512::interpret", "C13:hash:dividend", "dividend is not U512::interpret(buffer): %s" % show(src, maxdepth=3)[:120],
            b.file_line(), b.rec["path"], sample={"dividend": show(src, maxdepth=2)[:100]})
    # public wrapper delegates
    w = F.bodies.get("crate::Fr::from_hash")
    R.instance()
    if w is None:
        R.fail_closed("C13:hash:wrapper", "crate::Fr::from_hash not found")
    else:
        wrv = repo.tb(w).return_value()
        ok = any(s[0] == "call" and s[1].d == "crate::fields::fp::Fr::from_hash" and strip(s[2][0]) in (("param", 1), ("init", ("deref", 1))) for s in walk(wrv))
        R.check(ok, "C13:hash:wrapper", "Fr::from_hash does not delegate to fields::Fr::from_hash on its input", w.file_line(), w.rec["path"], sample={"wrapper": show(wrv, maxdepth=3)[:160]})
    return R.finish()


def rule_str(repo):
    F = repo.F
    R = Rule("R-STR", "decimal parser: radix literal 10, multiplier ints[10], and the first non-digit returns None immediately", floor=2)
    for ap in repo.fp_types():
        path = ap + "::from_str"
        b = F.bodies.get(path)
        if b is None:
            R.fail_closed("C13:str:%s:anchor" % path, "%s not found" % path)
            continue
        tb = repo.tb(b)
        R.instance()
        td = [(bb, t) for bb, t in b.calls() if (t.get("fn") or {}).get("name") == "to_digit"]
        if len(td) != 1:
            R.fail_closed("C13:str:%s:shape" % path, "expected one to_digit call, found %d" % len(td), b.file_line())
            continue
        bb, t = td[0]
        radix = tb.call_args(bb)[1]
        rad_ok = radix[0] == "const" and int(radix[1].get("int", -1)) == 10
        # the switch on the Option discriminant of to_digit
        none_ok = False
        for sb in sorted(b.reachable()):
            term = b.blocks[sb]["term"]
            if term["k"] != "switch":
                continue
            d = tb.operand(term["discr"], sb, len(b.blocks[sb]["stmts"]))
            if d[0] == "discr" and strip(d[1])[0] == "call" and strip(d[1])[1].name == "to_digit":
                tgt = term["otherwise"]
                for val, tg in term["arms"]:
                    if int(val) == 0:
                        tgt = tg
                res = paths.simulate(b, tb, paths.Evaluator({}), start=tgt)
                v = paths.path_value(b, tb, res.blocks, 0)
                loops_again = any(c[1].name == "next" for c in res.calls)
                none_ok = res.end == "return" and not loops_again and all(x[0] == "agg" and x[2] == "None" for x in alts(v))
        # multiplier: ints[10]
        mul_ok = False
        for s in walk(tb.return_value()):
            pass
        for bb2, t2 in b.calls():
            fn = t2.get("fn") or {}
            if fn.get("name") == "index" and "Vec" in (fn.get("res_inst") or fn.get("inst") or ""):
                a = tb.call_args(bb2)
                if a[1][0] == "const" and int(a[1][1].get("int", -1)) == 10:
                    mul_ok = True
        R.check(rad_ok and none_ok and mul_ok, "C13:str:%s" % path,
                "%s: radix literal 10=%s, non-digit returns None at once=%s, multiplier ints[10]=%s" % (path, rad_ok, none_ok, mul_ok), b.file_line(), path,
                sample={"fn": path, "radix": 10 if rad_ok else None, "none_arm_returns_immediately": none_ok, "multiplier_index": 10 if mul_ok else None})
    # public FromStr maps None to Err
    for w, inner in (("<crate::Fr as core::str::FromStr>::from_str", "crate::fields::fp::Fr::from_str"), ("<crate::Fq as core::str::FromStr>::from_str", "crate::fields::fp::Fq::from_str")):
        wb = F.bodies.get(w)
        R.instance()
        if wb is None:
            R.fail_closed("C13:str:%s:anchor" % w, "%s not found" % w)
            continue
        rv = repo.tb(wb).return_value()
        ok = rv[0] == "call" and rv[1].name == "ok_or" and any(s[0] == "call" and s[1].d == inner for s in walk(rv))
        R.check(ok, "C13:str:%s" % w, "%s is not inner::from_str(s).map(..).ok_or(err): %s" % (w, show(rv, maxdepth=3)[:160]), wb.file_line(), w, sample={"wrapper": w})
    return R.finish()


def rule_setbit(repo):
    F = repo.F
    R = Rule("R-SETBIT", "set_bit operates on the canonical (non-Montgomery) value and re-reduces; the public wrapper forwards (bit, to) unchanged; "
             "U256::set_bit sets/clears bit n&63 of limb n>>6 for n<256", floor=4)
    fp = repo.fp_types()
    for ap in fp:
        path = ap + "::set_bit"
        b = F.bodies.get(path)
        R.instance()
        if b is None:
            R.fail_closed("C13:setbit:%s:anchor" % path, "%s not found" % path)
            continue
        fin = repo.tb(b).final_value(("deref", 1))
        ok = False
        why = show(fin, maxdepth=5)[:220]
        v = fin
        if v[0] == "call" and len(v[2]) == 1 and (v[1].d in (ap + "::new_mul_factor",) or v[1].d.endswith("::interpret")):
            x = strip(v[2][0])
            if x[0] == "mutcall" and x[1].d == "crate::u256::U256::set_bit" and x[3] == 0:
                canon = shared.is_canon_conv(x[2][0], ap) == ("init", ("deref", 1))
                fwd = x[2][1] == ("param", 2) and x[2][2] == ("param", 3)
                ok = canon and fwd
        R.check(ok, "C13:setbit:%s" % path, "%s does not set the bit on the canonical value and re-reduce: %s" % (path, why), b.file_line(), path,
                sample={"fn": path, "final_self": why})
    w = F.bodies.get("crate::Fr::set_bit")
    R.instance()
    if w is None:
        R.fail_closed("C13:setbit:wrapper", "crate::Fr::set_bit not found")
    else:
        fin = repo.tb(w).final_value(("deref", 1))
        ok = fin[0] == "update" and fin[2] == (("f", 0),) and fin[3][0] == "mutcall" and fin[3][1].d == "crate::fields::fp::Fr::set_bit" and fin[3][2][1:] == (("param", 2), ("param", 3))
        R.check(ok, "C13:setbit:crate::Fr::set_bit", "Fr::set_bit does not forward to fields::Fr::set_bit(bit, to): %s" % show(fin, maxdepth=4)[:200], w.file_line(), w.rec["path"],
                sample={"wrapper": show(fin, maxdepth=3)[:160]})
    # U256::set_bit: polarity and constants
    u = F.bodies.get("crate::u256::U256::set_bit")
    R.instance()
    if u is None:
        R.fail_closed("C13:setbit:U256", "U256::set_bit not found")
    else:
        ops = {0: set(), 1: set()}
        consts = set()
        tb = repo.tb(u)
        for to in (0, 1):
            for big in (0, 1):
                asg = {}
                atoms = paths.collect_atoms(u, tb)
                ev = paths.Evaluator({a: (to if a == ("bool", ("param", 3)) else 0) for a in atoms})
                # n >= 256 is a MIR comparison on the parameter: pin it through intvals
                ev.intvals[("param", 2)] = 300 if big else 70
                res = paths.simulate(u, tb, ev)
                if big:
                    continue
                for bb in res.blocks:
                    for st in u.blocks[bb]["stmts"]:
                        if st["k"] == "assign" and st["rv"]["k"] == "binop":
                            ops[to].add(st["rv"]["op"])
                            for o in (st["rv"]["a"], st["rv"]["b"]):
                                if o.get("k") == "const" and "int" in o:
                                    consts.add(int(o["int"]))
                        if st["k"] == "assign" and st["rv"]["k"] == "unop":
                            ops[to].add(st["rv"]["op"])
        ok = "BitOr" in ops[1] and "BitAnd" not in (ops[1] - {"BitAnd"}) and "Not" not in ops[1] and "Not" in ops[0] and "BitOr" not in ops[0] and {6, 63, 256} <= consts
        R.check(ok, "C13:setbit:crate::u256::U256::set_bit", "U256::set_bit polarity/constants differ: to=1 ops %s, to=0 ops %s, consts %s" % (sorted(ops[1]), sorted(ops[0]), sorted(consts)),
                u.file_line(), u.rec["path"], sample={"to=true": sorted(ops[1]), "to=false": sorted(ops[0]), "constants": sorted(consts)})
    return R.finish()


def rule_be_layout(repo, ls):
    """U256/U512::from_slice read limb j from bytes [8*(n-1-j), +8) with BigEndian — from the unrolled literal iterator."""
    F = repo.F
    R = Rule("R-BE-LAYOUT", "big-endian limb layout of U256/U512::from_slice: limb j ← BigEndian::read_u64(&s[8·(n−1−j)..])", floor=2, exhaustive=True)
    for path, n in (("crate::u256::U256::from_slice", 4), ("crate::u512::U512::from_slice", 8)):
        b = F.bodies.get(path)
        R.instance()
        if b is None:
            R.fail_closed("C13:be:%s:anchor" % path, "%s not found" % path)
            continue
        tb = repo.tb(b)
        info = ls.iterator_info(b, tb)
        elems = [e for (_, e) in info.values() if e is not None]
        be = any("byteorder::BigEndian" in ((t.get("fn") or {}).get("res_inst") or (t.get("fn") or {}).get("inst") or "") and t["fn"]["name"] == "read_u64" for _, t in b.calls())
        ok = len(elems) == 1 and sorted(elems[0]) == sorted((j, 8 * (n - 1 - j)) for j in range(n)) and be
        R.check(ok, "C13:be:%s" % path, "%s: (limb, offset) pairs %s / BigEndian=%s" % (path, elems[:1], be), b.file_line(), path,
                sample={"fn": path, "pairs": elems[0] if elems else None, "byte_order": "BigEndian" if be else "?"})
    return R.finish()


def rule_canon_out(repo):
    F = repo.F
    R = Rule("R-CANON-OUT", "to_slice / to_big_endian / is_even serialise the canonical value (through the Montgomery→canonical conversion), never the raw limbs", floor=4)
    fp = repo.fp_types()
    for ap in fp:
        b = F.bodies.get(ap + "::to_slice")
        R.instance()
        if b is None:
            R.fail_closed("C13:canon:%s" % ap, "%s::to_slice not found" % ap)
            continue
        tb = repo.tb(b)
        ok = False
        for bb, t in b.calls():
            if (t.get("fn") or {}).get("name") == "to_big_endian":
                ok = shared.is_canon_conv(tb.call_args(bb)[0], ap) == ("param", 1)
        R.check(ok, "C13:canon:%s::to_slice" % ap, "%s::to_slice does not encode U256::from(self)" % ap, b.file_line(), b.rec["path"], sample={"fn": ap + "::to_slice"})
        # the conversion itself: Montgomery multiplication by the integer one with the type's own modulus
        cpath = "crate::fields::fp::<impl core::convert::From<%s> for crate::u256::U256>::from" % ap
        c = F.bodies.get(cpath)
        R.instance()
        if c is None:
            R.fail_closed("C13:canon:%s:conv" % ap, "%s not found" % cpath)
            continue
        rv = repo.tb(c).return_value()
        ok = False
        x = rv
        if x[0] == "mutcall" and x[1].d == "crate::u256::U256::mul":
            ok = strip(x[2][0]) == ("field", ("param", 1), 0) and strip(x[2][1])[0] == "call" and strip(x[2][1])[1].d == "crate::u256::U256::one" and repo.static_of(x[2][2]) == fp[ap]["modulus"]
        R.check(ok, "C13:canon:%s:conv" % ap, "U256::from(%s) is not a Montgomery multiplication by 1 modulo its own modulus: %s" % (ap, show(rv, maxdepth=4)[:200]), c.file_line(), cpath,
                sample={"conversion": show(rv, maxdepth=3)[:160]})
    for w, inner in (("crate::Fq::to_big_endian", "into_u256"), ("crate::Fq::is_even", "into_u256"), ("crate::Fq::to_slice", None), ("crate::Fr::to_slice", None)):
        b = F.bodies.get(w)
        R.instance()
        if b is None:
            R.fail_closed("C13:canon:%s" % w, "%s not found" % w)
            continue
        names = [(t.get("fn") or {}).get("name") for _, t in b.calls()]
        good = ("into_u256" in names) or ("to_slice" in names) or ("into" in names)
        R.check(good, "C13:canon:%s" % w, "%s does not go through the canonical conversion (calls %s)" % (w, names), b.file_line(), w, sample={"fn": w, "calls": names})
    b = F.bodies.get("crate::Fq::into_u256")
    R.instance()
    if b is None:
        R.fail_closed("C13:canon:into_u256", "Fq::into_u256 not found")
    else:
        rv = repo.tb(b).return_value()
        R.check(shared.is_canon_conv(rv, "crate::fields::fp::Fq") == ("field", ("param", 1), 0), "C13:canon:crate::Fq::into_u256",
                "Fq::into_u256 is not U256::from(self.0): %s" % show(rv, maxdepth=3), b.file_line(), b.rec["path"], sample={"into_u256": show(rv, maxdepth=3)[:120]})
    return R.finish()


def run(ctx):
    rules = []
    results_dev = None
    for cfg in ("dev", "rel"):
        repo = Repo(ctx.facts(cfg))
        ls = convert.make_lensim(repo)
        r, results = convert.rule_accept("C13", repo, ls, SPEC, cfg)
        r.rid = "R-LEN-PART[%s]" % cfg
        r.desc = "length partition of every byte conversion: accepted lengths, and lengths on which rejection is impossible"
        rules.append(r)
        rules.append(convert.rule_total("C13", repo, ls, list(SPEC) + TOTAL_EXTRA, cfg, results))
        if cfg == "dev":
            results_dev = results
            rules.append(rule_siblings(results))
            rules.append(rule_padding(repo))
            rules.append(rule_hash(repo))
            rules.append(rule_str(repo))
            rules.append(rule_setbit(repo))
            rules.append(rule_be_layout(repo, ls))
            rules.append(rule_canon_out(repo))
            rules.append(layout.rule_conv_traits("C13", repo))
            rules.append(profile.rule_int_total("C13", repo, ["crate::Fr::set_bit", "crate::fields::fp::Fr::set_bit", "crate::fields::fp::Fq::set_bit", "crate::u256::U256::set_bit", "crate::u256::U256::get_bit"]))
    return report.emit(
        "C13", ctx.tier, ctx.seed, rules, ctx.started,
        "Value-set analysis of every byte/hash conversion over the complete length partition (both profiles): accepted lengths, lengths on which rejection is "
        "impossible, no reachable panic; Fr/Fq sibling agreement; big-endian padding and limb layout (literal iterator unrolled); from_hash divisor = canonical(−1) and +1; "
        "decimal parser stops at the first non-digit with radix 10; set_bit acts on the canonical value and re-reduces; outputs go through the Montgomery→canonical conversion.",
        shared.ASSUMPTIONS + ["ark_ff BigInt::to_bytes_be yields 8·N big-endian bytes", "byteorder::BigEndian::read_u64 semantics"],
        ["numerical correctness of divrem / Montgomery conversion / the decimal accumulation; that Fr::new(remainder by r−1) is never None (numerical)"])
