"""Shortcuts of the tower operations against their own main formula (C11, C12, C17).

A fast path inside `inverse`, `squared` or the multiplication of Fq2 / Fq4 / Fq12 is taken when some components of an operand
tested zero.  Whatever it returns must be what the function's *own* general formula gives for such operands.  Both are
evaluated in a graded-units domain with a scalar factor: a value is 0, or c · Π aᵢ^eᵢ with c a rational literal and the aᵢ the
opaque base-field components of the operands (the Jacobian-weight domain of C04 with the constant kept); products, squares,
doublings, negations and inverses act on (c, e); a sum is kept only when it collapses (0 + x, or like terms) — anything else
is ⊤ and the path is not judged.  With the guard's components set to 0 the general formula collapses to such monomials, and the
shortcut must produce the same ones.  Nothing is compared against a specification of the arithmetic: only one path of a
function against another path of the same function, under the first one's own guard.
"""
from fractions import Fraction
from core.report import Rule
from core.facts import FactsError
from core.absexec import AbsExec, Adt, Tup, Ref, TOP, Frame, deref_value, store_through

FP = ("crate::fields::fp::Fq", "crate::fields::fp::Fr")
TOWER = {"crate::fields::fq2::Fq2": ("crate::fields::fp::Fq", 2), "crate::fields::fq4::Fq4": ("crate::fields::fq2::Fq2", 2),
         "crate::fields::fq12::Fq12": ("crate::fields::fq4::Fq4", 3)}


class Mono:
    __slots__ = ("c", "e")

    def __init__(self, c, e=()):
        self.c = Fraction(c)
        self.e = tuple(sorted((k, v) for k, v in dict(e).items() if v)) if self.c != 0 else ()

    def key(self):
        return (self.c, self.e)

    def __eq__(self, o):
        return isinstance(o, Mono) and self.key() == o.key()

    def __hash__(self):
        return hash(self.key())

    def __repr__(self):
        if self.c == 0:
            return "0"
        return "%s%s" % (self.c, "".join("·%s^%d" % (k, v) for k, v in self.e))


ZERO = Mono(0)


def mmul(a, b):
    if a.c == 0 or b.c == 0:
        return ZERO
    e = dict(a.e)
    for k, v in b.e:
        e[k] = e.get(k, 0) + v
    return Mono(a.c * b.c, e)


def madd(a, b):
    if a.c == 0:
        return b
    if b.c == 0:
        return a
    if a.e == b.e:
        return Mono(a.c + b.c, dict(a.e))
    return TOP


def shaped(ty, name, zero_leaves, atom_ty=None):
    """an operand of the given tower type whose components of type `atom_ty` (default: the base field) are opaque atoms (or 0 for the
    listed ones)"""
    if ty in FP or ty == atom_ty:
        return ZERO if name in zero_leaves else Mono(1, {name: 1})
    inner, n = TOWER[ty]
    return Adt(ty, ty.split("::")[-1], [shaped(inner, "%s.%d" % (name, i), zero_leaves, atom_ty) for i in range(n)])


class MonoDomain:
    sound_loops = False

    def __init__(self, F, atom_ty=None):
        self.F = F
        self.atom_ty = atom_ty          # when set: values of this (intermediate tower) type are the opaque atoms

    def variant_index(self, ex, name):
        return {"None": 0, "Some": 1, "Continue": 0, "Break": 1, "Ok": 0, "Err": 1}.get(name)

    def _is_atom_ty(self, fk):
        ty = (fk.get("impl_self") or fk.i or "")
        if self.atom_ty:
            return self.atom_ty.split("::")[-1] in ty and not any(t.split("::")[-1] in ty for t in TOWER if t != self.atom_ty and len(t) > len(self.atom_ty))
        return any(p.split("::")[-1] in ty and "fq2" not in ty.lower() and "fq4" not in ty.lower() and "fq12" not in ty.lower() for p in FP)

    def refine(self, ex, fr, cond, truth):
        if cond[1] == "iszero":
            val = truth != cond[3]
            pc = list(fr.env.get("__pc", ()))
            pc.append((cond[2], val))
            fr.env["__pc"] = tuple(pc)

    fork_on_inline = True

    def merge_callee(self, ex, fr, cfr):
        """the caller continues on one path of a helper analysed in place (`self.is_zero()` of a tower value): that path's answers
        to the zero tests join the caller's, contradictory combinations are dropped"""
        pc = list(fr.env.get("__pc", ()))
        for k, val in cfr.env.get("__pc", ()):
            if k not in (None, "assumed-zero") and any(k2 == k and v2 != val for k2, v2 in pc):
                fr.env["__dead"] = True
            pc.append((k, val))
        fr.env["__pc"] = tuple(pc)

    def call(self, ex, fk, args, term, fr):
        n = fk.name
        a = [deref_value(ex, x) for x in args]
        M = lambda x: isinstance(x, Mono)
        if n in ("zero",) and not a:
            return ZERO if self._is_atom_ty(fk) else NotImplemented
        if n in ("one",) and not a:
            return Mono(1) if self._is_atom_ty(fk) else NotImplemented
        if n == "mul_by_nonresidue" and len(a) == 1 and M(a[0]) and self.atom_ty:
            # multiplication of an atom by its level's generator: an opaque constant factor (no relation of it is ever used)
            return mmul(Mono(1, {"ξ": 1}), a[0])
        if n == "is_zero" and len(a) == 1 and (M(a[0]) or a[0] is TOP):
            x = a[0]
            if M(x) and x.c != 0 and len(x.e) == 1 and x.e[0][1] == 1 and x.c == 1:
                return ("cond", "iszero", x.e[0][0], False)
            if M(x) and x.c == 0:
                # a component the guard under study assumes zero: the general formula is followed past its own zero tests as well
                return ("cond", "iszero", "assumed-zero", False)
            return ("cond", "iszero", None, False)
        if n in ("is_one", "eq", "ne", "lt", "le", "gt", "ge") and a and all(M(x) or x is TOP for x in a):
            # any other test of base-field values: an opaque condition (paths on which it held are not shortcuts this rule reads)
            return ("cond", "iszero", None, n == "ne")
        if len(a) >= 1 and all(M(x) for x in a):
            if n in ("mul", "mul_inplace", "mul_assign") and len(a) == 2:
                r = mmul(a[0], a[1])
                if n == "mul_assign":
                    store_through(ex, args[0], r)
                    return Tup([])
                return r
            if n in ("add", "add_inplace", "add_assign", "sub", "sub_inplace", "sub_assign") and len(a) == 2:
                b = a[1] if n.startswith("add") else mmul(Mono(-1), a[1])
                r = madd(a[0], b)
                if n.endswith("_assign"):
                    store_through(ex, args[0], r)
                    return Tup([])
                return r
            if n in ("neg", "neg_inplace") and len(a) == 1:
                return mmul(Mono(-1), a[0])
            if n == "double" and len(a) == 1:
                return mmul(Mono(2), a[0])
            if n == "triple" and len(a) == 1:
                return mmul(Mono(3), a[0])
            if n in ("squared", "square") and len(a) == 1:
                return mmul(a[0], a[0])
            if n == "div2" and len(a) == 1:
                return mmul(Mono(Fraction(1, 2)), a[0])
            if n == "inverse" and len(a) == 1:
                x = a[0]
                if x.c == 0:
                    return Adt("core::option::Option", "None", [])
                return Adt("core::option::Option", "Some", [Mono(1 / x.c, {k: -v for k, v in x.e})])
            if n in ("clone", "into", "from", "borrow", "deref") and len(a) == 1:
                return a[0]
        if n == "sum_of_products" and len(a) == 2 and isinstance(a[0], Tup) and isinstance(a[1], Tup) and len(a[0].items) == len(a[1].items):
            acc = ZERO
            for x, y in zip(a[0].items, a[1].items):
                if not (M(x) and M(y)):
                    return TOP
                acc = madd(acc, mmul(x, y)) if acc is not TOP else TOP
                if acc is TOP:
                    return TOP
            return acc
        if n in ("unwrap", "expect") and a and isinstance(a[0], Adt) and a[0].variant == "Some":
            return a[0].fields[0]
        if n in ("clone",) and len(a) == 1:
            return a[0]
        return NotImplemented


def _leaves(v, out):
    if isinstance(v, Adt):
        for f in v.fields:
            _leaves(f, out)
    elif isinstance(v, Tup):
        for f in v.items:
            _leaves(f, out)
    else:
        out.append(v)
    return out


def _shape(v):
    if isinstance(v, Adt):
        return (v.name.split("::")[-1], v.variant if isinstance(v.variant, str) else None, tuple(_shape(f) for f in v.fields))
    if isinstance(v, Tup):
        return ("tup", tuple(_shape(f) for f in v.items))
    if isinstance(v, Mono):
        return v.key()
    return None


def _decided(v):
    return all(isinstance(x, Mono) for x in _leaves(v, [])) and _shape(v) is not None


def run_paths(F, b, operands, atom_ty=None):
    dom = MonoDomain(F, atom_ty)
    in_fields = lambda d: ((F.bodies.get(d).rec.get("span") or {}).get("file") or "").startswith("src/fields") if F.bodies.get(d) is not None else False
    ex = AbsExec(F, dom, max_steps=200000, max_paths=512, inline=in_fields)
    ex.root_path = b.rec["path"]
    args = []
    for ty, v in operands:
        if ty.strip().startswith("&"):
            hf = Frame(b, [])
            hf.env[0] = v
            args.append(Ref(hf, 0))
        else:
            args.append(v)
    from core import absexec as _ax
    import time as _t
    if RULE_DEADLINE[0] is not None and _t.time() > RULE_DEADLINE[0]:
        raise FactsError("rule wall-clock budget exceeded")
    _ax.WALL_DEADLINE = min(_t.time() + RUN_BUDGET_S, RULE_DEADLINE[0] or float("inf"))
    try:
        rs = ex.run(b, args)
    finally:
        _ax.WALL_DEADLINE = None
    return [(v, fr.env.get("__pc", ())) for v, fr in rs]


RULE_BUDGET_S = 60     # wall-clock budget of the whole rule on one tree (seconds; it needs 1-6 s on the pinned tree); functions reached after it are not judged
RULE_DEADLINE = [None]
RUN_BUDGET_S = 12      # wall-clock budget of one abstract run; beyond it the function is not judged (never a verdict)
OPS = ("inverse", "squared", "mul_inplace", "mul")


def rule_shortcut_formulas(prop, repo, types):
    F = repo.F
    import time as _tt
    RULE_DEADLINE[0] = _tt.time() + RULE_BUDGET_S
    R = Rule("R-SHORTCUT-FORMULA", "a fast path of a tower inverse / squaring / multiplication that is taken when operand components tested zero returns what the "
             "function's own general formula gives for such operands (graded-units domain with scalar factor: both collapse to monomials)", floor=3, exhaustive=True)
    judged = 0
    for b in F.fn_bodies():
        ty = b.rec.get("impl_self_adt")
        if ty not in types or ty not in TOWER or (b.name or "") not in OPS or b.rec["kind"] not in ("Fn", "AssocFn"):
            continue
        ins = b.rec.get("inputs") or []
        if not ins or not all(ty.split("::")[-1] in i for i in ins) or len(ins) > 2:
            continue
        R.instance()
        names = ["a", "b"][:len(ins)]
        bad = []
        nguards = 0
        # two granularities: base-field components as atoms, and (for Fq4 / Fq12) the components one level down as atoms
        for atom_ty in [None] + ([TOWER[ty][0]] if TOWER[ty][0] not in FP else []):
            bad_g, ng, j_ = compare_shortcuts(F, b, ty, ins, names, atom_ty)
            bad += bad_g
            nguards += ng
            judged += j_
        R.check(not bad, "%s:shortcut-formula:%s" % (prop, b.rec["path"]), "%s: %s" % (b.rec["path"], "; ".join(bad[:2])), b.file_line(), b.rec["path"],
                sample={"fn": b.rec["path"], "guards_compared": nguards} if nguards else None)
    R.note("%d guarded shortcuts compared with the general formula of their function" % judged)
    return R.finish()


def compare_shortcuts(F, b, ty, ins, names, atom_ty):
    judged = 0
    if True:
        try:
            rows = run_paths(F, b, [(i, shaped(ty, nm, (), atom_ty)) for i, nm in zip(ins, names)], atom_ty)
        except (FactsError, RecursionError, Exception):
            return [], 0, 0
        guards = []
        for v, pc in rows:
            z = tuple(sorted({k for k, val in pc if val and k not in (None, "assumed-zero")}))
            if z and any(k is None and val for k, val in pc) is False and z not in guards:
                guards.append(z)
        bad = []
        for z in guards[:8]:
            fast = [v for v, pc in rows if tuple(sorted({k for k, val in pc if val and k not in (None, "assumed-zero")})) == z and not any(k is None and val for k, val in pc)]
            try:
                rows2 = run_paths(F, b, [(i, shaped(ty, nm, set(z), atom_ty)) for i, nm in zip(ins, names)], atom_ty)
            except (FactsError, RecursionError, Exception):
                continue
            # the general formula: the paths on which no zero test of an opaque component (or of an assumed-zero one) answered "zero"
            main = [v for v, pc in rows2 if not any(val for k, val in pc)]
            main = [v for v in main if _decided(v)]
            fast = [v for v in fast if _decided(v)]
            if not main or not fast:
                continue
            judged += 1
            ms = {_shape(v) for v in main}
            for v in fast:
                # the shortcut's value with the guard's components set to zero
                if _shape(_subst(v, set(z))) not in ms:
                    bad.append("with %s zero the general formula gives %s, the shortcut %s" % (list(z), [repr(_leaves(m, []))[:80] for m in main][:1], repr(_leaves(_subst(v, set(z)), []))[:80]))
        return bad, len(guards), judged


def _subst(v, zeros):
    if isinstance(v, Adt):
        return Adt(v.name, v.variant, [_subst(f, zeros) for f in v.fields])
    if isinstance(v, Tup):
        return Tup([_subst(f, zeros) for f in v.items])
    if isinstance(v, Mono):
        if any(k in zeros and e > 0 for k, e in v.e):
            return ZERO
        if any(k in zeros for k, e in v.e):
            return TOP
        return v
    return v


# ---------------------------------------------------------------------- component-wise maps by evaluation
def leaf_names(ty, name):
    if ty in FP:
        return [name]
    inner, n = TOWER[ty]
    out = []
    for i in range(n):
        out += leaf_names(inner, "%s.%d" % (name, i))
    return out


def _mbnr(ty, leaves):
    """multiplication by the level's non-residue generator, on the list of base-field leaves of a value of type `ty`"""
    if ty == "crate::fields::fq2::Fq2":
        return [mmul(Mono(-2), leaves[1]), leaves[0]]
    inner, n = TOWER[ty]
    k = len(leaves) // n
    parts = [leaves[i * k:(i + 1) * k] for i in range(n)]
    return _mbnr(inner, parts[-1]) + [x for p in parts[:-1] for x in p]


def expected_map(ty, op):
    """the defining component-wise / permuting action of `op` on a value `a` of tower type `ty` (and, for scalings by a base-field
    element, `b`), as a list of monomials over the leaves; None when the action is not monomial"""
    a = [Mono(1, {nm: 1}) for nm in leaf_names(ty, "a")]
    if op in ("double", "triple", "div2"):
        c = {"double": Mono(2), "triple": Mono(3), "div2": Mono(Fraction(1, 2))}[op]
        return [mmul(c, x) for x in a]
    if op == "unitary_inverse":
        h = len(a) // 2 if ty != "crate::fields::fq12::Fq12" else None
        if h is None:
            return None
        return a[:h] + [mmul(Mono(-1), x) for x in a[h:]]
    if op == "mul_by_nonresidue":
        return _mbnr(ty, a)
    if op in ("scale", "scale_fq", "scale_by_fq"):
        return [mmul(x, Mono(1, {"b": 1})) for x in a]
    return None


def evaluates_to(F, b, ty, op):
    """does the function, evaluated in the monomial domain on opaque operands, return exactly the defining action on every path?"""
    want = expected_map(ty, op)
    if want is None:
        return False
    ins = b.rec.get("inputs") or []
    ops = [(ins[0], shaped(ty, "a", ()))]
    if len(ins) == 2:
        bty = ins[1].lstrip("&").strip()
        if bty not in FP:
            return False
        ops.append((ins[1], Mono(1, {"b": 1})))
    elif len(ins) != 1:
        return False
    try:
        rows = run_paths(F, b, ops)
    except Exception:
        return False
    if not rows:
        return False
    for v, pc in rows:
        zeros = {k for k, val in pc if val and k not in (None, "assumed-zero")}
        if any(k is None and val for k, val in pc):
            return False
        got = _leaves(v, [])
        if len(got) != len(want) or not all(isinstance(x, Mono) for x in got):
            return False
        w2 = [_subst(x, zeros) for x in want]
        g2 = [_subst(x, zeros) for x in got]
        if [x.key() if isinstance(x, Mono) else None for x in w2] != [x.key() if isinstance(x, Mono) else None for x in g2]:
            return False
    return True
