"""Structural rules of the field / scalar layer: operator forwarding, square-and-multiply shape, bit scan order,
canonical scalars, inverse-None, tower constants, purity (C05, C06, C11, C12, C16)."""
import copy
from core.report import Rule
from core.facts import FactsError
from core.terms import strip, alts, walk, show
from core import paths
from core.sm9 import U256
from . import shared
from .shared import loc_of, is_canon_conv

OPS = {"core::ops::Add": "add", "core::ops::Sub": "sub", "core::ops::Mul": "mul", "core::ops::Neg": "neg",
       "core::ops::AddAssign": "add", "core::ops::SubAssign": "sub", "core::ops::MulAssign": "mul"}
FIELD_TYPES = ["crate::fields::fp::Fr", "crate::fields::fp::Fq", "crate::fields::fq2::Fq2", "crate::fields::fq4::Fq4", "crate::fields::fq12::Fq12",
               "crate::Fr", "crate::Fq", "crate::Fq2"]


def peel_arg(t):
    """Reduce an argument term to (param index, field path) if it is (a projection of) a parameter."""
    t = strip(t)
    path = []
    while t[0] == "field":
        path.append(t[2])
        t = strip(t[1])
    if t[0] == "param":
        return (t[1], tuple(reversed(path)))
    if t[0] == "init":
        return (t[1][1], tuple(reversed(path)))
    return None


def rule_ops_forward(prop, repo, types=None):
    """Every operator form (value/reference/compound) ends in the same *_inplace (or limb primitive) with operands in order."""
    F = repo.F
    types = types or FIELD_TYPES
    R = Rule("R-OPS-FORWARD", "every operator impl (by value, by reference, compound assignment) forwards to the same operation with (self, rhs) in order; "
             "component-wise ops act on matching components", floor=8 * len(types or FIELD_TYPES), exhaustive=True)
    for imp in F.impls:
        tr = imp.get("trait")
        if tr not in OPS or imp.get("self_adt") not in types:
            continue
        tf = imp.get("trait_full", "")
        if "<" in tf and imp["self_adt"] not in tf:
            continue        # mixed-type operators (scalar * point) are checked by R-COMM
        op = OPS[tr]
        for item in imp["items"]:
            b = F.bodies.get(item)
            if b is None:
                continue
            R.instance()
            tb = repo.tb(b)
            assign = tr.endswith("Assign")
            v = tb.final_value(("deref", 1)) if assign else tb.return_value()
            nargs = 1 if op == "neg" else 2
            def either(val, b=b, op=op, nargs=nargs):
                r = forward_ok(repo, b, val, op, nargs)
                if r[0]:
                    return r
                r2 = inplace_ok(repo, b, val, op, nargs)      # the operator impl itself is the newtype / component-wise form
                return r2 if r2[0] else r
            ok, why = shared.forwards(repo, b, either, op, ("deref", 1) if assign else 0)
            R.check(ok, "%s:ops:%s" % (prop, item), "%s does not forward to `%s` on (self%s) in order: %s" % (item, op, ", rhs" if nargs == 2 else "", why), b.file_line(), item,
                    sample={"impl": item, "forwards": show(v, maxdepth=2)[:120]} if R.instances % 25 == 1 else None)
    # the *_inplace functions themselves
    for ty in types:
        for op in ("add", "sub", "mul", "neg"):
            cands = [b for b in F.fn_bodies() if b.rec.get("impl_self_adt") == ty and not b.impl_trait and b.name == op + "_inplace"]
            for b in cands:
                R.instance()
                v = repo.tb(b).return_value()
                nargs = 1 if op == "neg" else 2
                ok, why = inplace_ok(repo, b, v, op, nargs)
                if not ok:
                    # early exits that use an identity of the operation on the path their operand test guards (−0 = 0, x·1 = x, x·x = x²)
                    ok2, why2 = shared.forwards(repo, b, lambda val, b=b, op=op, nargs=nargs: inplace_ok(repo, b, val, op, nargs), op)
                    if ok2:
                        ok, why = True, ""
                R.check(ok, "%s:ops:%s" % (prop, b.rec["path"]), "%s is not the `%s` of its operands in order: %s" % (b.rec["path"], op, why), b.file_line(), b.rec["path"],
                        sample={"fn": b.rec["path"], "shape": show(v, maxdepth=3)[:160]})
    return R.finish()


def limb_role(repo, d):
    cache = getattr(repo, "_limb_roles", None)
    if cache is None:
        closed, _, _ = shared.classify_u256(repo)
        cache = {p: i.get("role") for p, i in closed.items()}
        repo._limb_roles = cache
    return cache.get(d)


def forward_ok(repo, b, v, op, nargs):
    v = strip(v)
    if v[0] != "call":
        return False, show(v, maxdepth=3)[:120]
    n = v[1].name
    if n not in (op, op + "_inplace"):
        return False, "calls %s" % v[1].i
    args = [peel_arg(a) for a in v[2]]
    if len(args) != nargs or any(a is None for a in args):
        return False, "arguments %s" % show(v, maxdepth=3)[:120]
    if [a[0] for a in args] != list(range(1, nargs + 1)) or any(a[1] for a in args):
        return False, "operands %s" % args
    return True, ""


def inplace_ok(repo, b, v, op, nargs):
    F = repo.F
    v = strip(v)
    if op == "mul" and b.rec.get("impl_self_adt") in ("crate::fields::fq2::Fq2", "crate::fields::fq4::Fq4", "crate::fields::fq12::Fq12"):
        # tower multiplication formulas are numerical content: any shape (Karatsuba, interleaved sums, fast paths) is outside this rule
        return True, "multiplication formula (numerical; not decided here)"
    # (1) newtype around a limb primitive: T(after[U256::op](&self.0, &other.0, …))
    if v[0] == "agg" and len(v[3]) == 1:
        inner = strip(v[3][0])
        if inner[0] == "mutcall" and inner[3] == 0 and (inner[1].name == op or limb_role(repo, inner[1].d) == op):
            a0 = peel_arg(inner[2][0])
            ok = a0 == (1, (0,))
            if nargs == 2:
                ok = ok and peel_arg(inner[2][1]) == (2, (0,))
            return ok, "operands %s" % [peel_arg(x) for x in inner[2][:nargs]]
        if inner[0] == "call" and inner[1].name in (op, op + "_inplace"):
            args = [peel_arg(a) for a in inner[2]]
            ok = args == [(i + 1, (0,)) for i in range(nargs)]
            return ok, "operands %s" % args
        return False, show(inner, maxdepth=3)[:120]
    # (2) component-wise: T{c_i: self.c_i.op(&rhs.c_i)}
    if v[0] == "agg" and len(v[3]) > 1:
        if op == "mul":
            return True, "multiplication formula (numerical; not decided here)"
        for i, comp in enumerate(v[3]):
            c = strip(comp)
            if c[0] != "call" or c[1].name not in (op, op + "_inplace"):
                return False, "component %d: %s" % (i, show(c, maxdepth=2)[:80])
            args = [peel_arg(a) for a in c[2]]
            if args != [(k + 1, (i,)) for k in range(nargs)]:
                return False, "component %d uses %s" % (i, args)
        return True, ""
    if v[0] == "call" and op == "mul":
        return True, "multiplication formula (numerical; not decided here)"
    return False, show(v, maxdepth=3)[:120]


# ====================================================================== double-and-add / square-and-multiply
def rule_ladder(prop, repo, which):
    """Left-to-right binary ladder: acc starts at the neutral element; every iteration first doubles/squares the accumulator,
    then combines it with the base exactly when the scanned bit is set; the accumulator is returned."""
    F = repo.F
    R = Rule("R-LADDER", "scalar multiplication / exponentiation is a left-to-right binary ladder over the canonical bits: neutral start, unconditional double (square) "
             "then conditional add (multiply) of the base, accumulator returned", floor=len(which), exhaustive=True)
    for path, neutral, dbl, comb in which:
        b = F.bodies.get(path)
        R.instance()
        if b is None:
            R.fail_closed("%s:ladder:%s" % (prop, path), "%s not found" % path)
            continue
        tb = repo.tb(b)
        why = []
        rv = tb.return_value()
        # the accumulator local: root of the returned value
        al = alts(rv)
        if not any(a[0] == "call" and a[1].name == neutral and not a[2] for a in al):
            why.append("accumulator does not start at %s()" % neutral)
        # every value the function can return is a state of the ladder accumulator (no shortcut exits)
        for a in al:
            ok_alt = (a[0] == "call" and a[1].name in (neutral, dbl)) or (a[0] == "mutcall" and a[1].name == comb) or a[0] == "cycle"
            if not ok_alt and strip(a) in (("param", 1), ("init", ("deref", 1))) and neutral == "zero":
                # `if self.is_zero() { return self }` is a correct shortcut: allowed only on the true edge of exactly that test
                ok_alt = returns_base_only_when_identity(b, tb)
            if not ok_alt:
                why.append("returns %s, which is not the ladder accumulator" % show(a, maxdepth=2)[:80])
        # calls inside the loop
        nexts = [bb for bb, t in b.calls() if (t.get("fn") or {}).get("name") == "next"]
        dbls = [bb for bb, t in b.calls() if (t.get("fn") or {}).get("name") == dbl]
        combs = [bb for bb, t in b.calls() if (t.get("fn") or {}).get("name") == comb]
        if len(nexts) != 1 or len(dbls) != 1 or len(combs) != 1:
            why.append("expected one next / %s / %s call, found %d / %d / %d" % (dbl, comb, len(nexts), len(dbls), len(combs)))
        else:
            nb, db, cb = nexts[0], dbls[0], combs[0]
            # Some-edge of the iterator switch
            body_entry = None
            bit_term = None
            for bi in sorted(b.reachable()):
                t = b.blocks[bi]["term"]
                if t["k"] != "switch":
                    continue
                d = tb.operand(t["discr"], bi, len(b.blocks[bi]["stmts"]))
                if d[0] == "discr" and strip(d[1])[0] == "call" and strip(d[1])[1].name == "next":
                    for val, tg in t["arms"]:
                        if int(val) == 1:
                            body_entry = tg
            if body_entry is None:
                why.append("loop over the bit iterator not recognised")
            else:
                # the doubling is executed on every iteration: its block is on every path from the loop body entry back to `next`
                if not on_every_path(b, body_entry, nb, db):
                    why.append("%s is not executed on every iteration" % dbl)
                # the combination is guarded by the scanned bit and comes after the doubling
                guard = None
                for bi in sorted(b.reachable()):
                    t = b.blocks[bi]["term"]
                    if t["k"] == "switch":
                        d = tb.operand(t["discr"], bi, len(b.blocks[bi]["stmts"]))
                        ds = strip(d)
                        if ds[0] == "field" and strip(ds[1])[0] == "down" and strip(strip(ds[1])[1])[0] == "call" and strip(strip(ds[1])[1])[1].name == "next":
                            true_t = t["otherwise"] if any(int(v) == 0 for v, _ in t["arms"]) else None
                            guard = (bi, true_t)
                if guard is None or guard[1] is None:
                    why.append("no branch on the scanned bit")
                else:
                    gb, tt = guard
                    if not b.dominates(db, gb):
                        why.append("%s does not precede the test of the bit" % dbl)
                    if not b.dominates(tt, cb) or b.pred()[tt] != [gb]:
                        why.append("%s is not guarded by the bit being set" % comb)
            # operands: double(acc) assigned back to acc; comb(acc, base)
            dargs = tb.call_args(db)
            cargs = tb.call_args(cb)
            base_ok = strip(cargs[1]) in (("param", 1), ("init", ("deref", 1)))
            if not base_ok:
                why.append("%s combines with %s, not with the base" % (comb, show(cargs[1], maxdepth=2)))
        R.check(not why, "%s:ladder:%s" % (prop, path), "%s: %s" % (path, "; ".join(why)), b.file_line(), path,
                sample={"fn": path, "neutral": neutral, "step": dbl, "conditional": comb})
    return R.finish()


def returns_base_only_when_identity(body, tb):
    """Every assignment `_0 = self` is dominated by the true edge of a test `self.is_zero()`."""
    sites = []
    for bb, evs in tb.events.items():
        for idx, root, rec in evs:
            if root == 0 and rec["kind"] == "assign":
                v = strip(tb.rvalue(rec["stmt"]["rv"], bb, idx))
                if v in (("param", 1), ("init", ("deref", 1))):
                    sites.append(bb)
    if not sites:
        return False
    for sb in sites:
        ok = False
        for bi in sorted(body.reachable()):
            t = body.blocks[bi]["term"]
            if t["k"] != "switch":
                continue
            d = tb.operand(t["discr"], bi, len(body.blocks[bi]["stmts"]))
            base_is_identity = d[0] == "call" and d[1].name == "is_zero" and strip(d[2][0]) in (("param", 1), ("init", ("deref", 1)))
            SC = (("param", 2), ("init", ("deref", 2)))
            scalar_is_one = (d[0] == "call" and d[1].name == "is_one" and strip(d[2][0]) in SC) or \
                            (d[0] == "call" and d[1].name == "eq" and len(d[2]) == 2 and ((strip(d[2][0]) in SC and strip(d[2][1])[0] == "call" and strip(d[2][1])[1].name == "one") or
                                                                                       (strip(d[2][1]) in SC and strip(d[2][0])[0] == "call" and strip(d[2][0])[1].name == "one")))
            if base_is_identity or scalar_is_one:
                tt = t["otherwise"] if any(int(v) == 0 for v, _ in t["arms"]) else None
                if tt is not None and body.pred()[tt] == [bi] and body.dominates(tt, sb):
                    ok = True
        if not ok:
            return False
    return True


def on_every_path(body, start, end, must):
    """Is block `must` on every path start → end (within the reachable CFG)?"""
    if start == must:
        return True
    seen = set()
    st = [start]
    while st:
        x = st.pop()
        if x in seen or x == must:
            continue
        seen.add(x)
        if x == end:
            return False
        st.extend(body.succ()[x])
    return True


def canonical_scalar(repo, b, t, depth=0):
    """is the 256-bit integer `t` (a term of body b) the canonical value of a prime-field element?  A conversion written out, a thin
    crate-local wrapper of one, a generic `.into()` all of whose instances are one, or an argument of a crate-internal function
    all of whose callers pass one. → (ok, why)"""
    F = repo.F
    fp = repo.fp_types()
    t = strip(t)
    if any(is_canon_conv(t, ap) is not None for ap in fp):
        return True, ""
    if t[0] == "call" and t[1].name == "into" and "Into<crate::u256::U256>" in t[1].i:
        res = [c["inst"] for i in F.instances.values() if i["def"] == b.rec["path"] and i.get("expanded") for c in i["calls"]
               if c.get("bb") is not None and "core::convert::Into<crate::u256::U256>>::into" in c.get("inst", "")]
        if res and all(any(("<%s as core::convert::Into<crate::u256::U256>>::into" % ap) == r for ap in fp) for r in res):
            return True, ""
        return False, "a generic conversion in %s resolves to %s" % (b.rec["path"], sorted(set(res))[:3])
    if t[0] == "call" and depth < 4:
        from core.terms import expand_call
        cb = F.bodies.get(t[1].d)
        if cb is not None and len(cb.blocks) <= 6:
            e = expand_call(repo, t, lambda c: True)
            if e is not None:
                # (judged as a term of the wrapper: its own conversions resolve in its own instances)
                return canonical_scalar(repo, cb, repo.tb(cb).return_value(), depth + 1)
    if t[0] == "param" and not F.is_exported(b.rec["path"]) and depth < 4:
        ok, why, _ = canonical_at_call_sites(repo, b, t[1], depth + 1)
        return ok, why
    return False, "%s in %s is not a canonical conversion of a field element" % (show(t, maxdepth=3)[:100], b.rec["path"])


def canonical_at_call_sites(repo, b, k, depth=0):
    F = repo.F
    path = b.rec["path"]
    n = 0
    for cb in F.fn_bodies():
        tb = None
        for bb, t in cb.calls():
            fn = t.get("fn") or {}
            if path not in (fn.get("res_def"), fn.get("def")):
                continue
            tb = tb or repo.tb(cb)
            args = tb.call_args(bb)
            if len(args) < k:
                return False, "a call in %s passes %d arguments" % (cb.rec["path"], len(args)), n
            n += 1
            ok, why = canonical_scalar(repo, cb, args[k - 1], depth)
            if not ok:
                return False, why, n
    if n == 0:
        return False, "no call site of %s was found" % path, 0
    return True, "", n


def rule_bits(prop, repo):
    F = repo.F
    R = Rule("R-BITS", "the scanned scalar is the canonical (non-Montgomery) value; bits are produced from 255 down to 0 after skipping leading zeros", floor=5, exhaustive=True)
    # 1. every bit scan starts from a canonical conversion
    fp = repo.fp_types()
    for b in F.fn_bodies():
        tb = None
        for bb, t in b.calls():
            fn = t.get("fn") or {}
            if fn.get("res_def") in ("crate::u256::U256::bits_without_leading_zeros", "crate::u256::U256::bits"):
                tb = tb or repo.tb(b)
                recv = strip(tb.call_args(bb)[0])
                if b.rec.get("impl_self_adt") == "crate::u256::U256" and recv in (("init", ("deref", 1)), ("param", 1)):
                    continue          # one bit-scan method of the integer delegating to another on the same value: judged at its own callers
                R.instance()
                ok = any(is_canon_conv(recv, ap) is not None for ap in fp)
                if not ok and recv[0] == "param" and not F.is_exported(b.rec["path"]):
                    # the integer arrives as an argument of a crate-internal function: the conversion is its callers' business —
                    # every call site in the crate has to hand over a canonical conversion
                    okc, whyc, nsites = canonical_at_call_sites(repo, b, recv[1])
                    R.check(okc, "%s:bits:%s" % (prop, b.rec["path"]), "%s scans the bits of its argument %d, and %s" % (b.rec["path"], recv[1], whyc), loc_of(b, bb), b.rec["path"],
                            sample={"fn": b.rec["path"], "scans": "argument %d" % recv[1], "call_sites_judged": nsites})
                    continue
                generic_into = recv[0] == "call" and recv[1].name == "into" and "Into<crate::u256::U256>" in recv[1].i
                if generic_into and not ok:
                    # generic `by.into()`: every instance must resolve to the canonical conversion of a prime-field type
                    insts = [i for i in F.instances.values() if i["def"] == b.rec["path"] and i.get("expanded")]
                    res = []
                    for i in insts:
                        for c in i["calls"]:
                            if c.get("bb") is not None and "core::convert::Into<crate::u256::U256>>::into" in c.get("inst", ""):
                                res.append(c["inst"])
                    ok = bool(res) and all(any(("<%s as core::convert::Into<crate::u256::U256>>::into" % ap) == r for ap in fp) for r in res)
                    R.check(ok, "%s:bits:%s" % (prop, b.rec["path"]), "generic scalar conversion in %s resolves to %s" % (b.rec["path"], sorted(set(res))), loc_of(b, bb), b.rec["path"],
                            sample={"fn": b.rec["path"], "instances": sorted(set(res))})
                else:
                    R.check(ok, "%s:bits:%s" % (prop, b.rec["path"]), "%s scans the bits of %s, which is not a canonical conversion of a field element" % (b.rec["path"], show(recv, maxdepth=3)[:100]),
                            loc_of(b, bb), b.rec["path"], sample={"fn": b.rec["path"], "scans": show(recv, maxdepth=2)[:100]})
    # 2. the iterator
    nb = next((b_ for p_, b_ in F.bodies.items() if p_.startswith("<crate::u256::BitIterator") and p_.endswith(" as core::iter::Iterator>::next")), None)      # (whatever the lifetime is called)
    R.instance()
    if nb is None:
        R.fail_closed("%s:bits:next" % prop, "BitIterator::next not found")
    else:
        # evaluated over opaque limbs for counters on both sides of every limb boundary: n == 0 → None and n stays 0;
        # otherwise the answer is bit n−1 of the integer and the counter becomes n−1
        from core.bytex import Machine, Adt as BAdt, Ref as BRef
        adt = F.adts.get("crate::u256::BitIterator") or {}
        flds = (adt.get("variants") or [{}])[0].get("fields") or []
        int_pos = next((i for i, f in enumerate(flds) if "U256" in f.get("ty", "")), None)
        n_pos = next((i for i, f in enumerate(flds) if f.get("ty", "").strip() == "usize"), None)
        bad = []
        if len(flds) != 2 or int_pos is None or n_pos is None:
            bad.append("BitIterator is not {&U256, usize}: %s" % [f.get("ty") for f in flds])
        else:
            same_file = (nb.rec.get("span") or {}).get("file")
            for k in (0, 1, 2, 63, 64, 65, 128, 129, 192, 193, 255, 256):
                me, limbs = structured_u256(F)
                fields = [None, None]
                fields[int_pos] = BRef(0, 1)
                fields[n_pos] = k
                it = BAdt("crate::u256::BitIterator", "BitIterator", fields)
                try:
                    outs = Machine(F, int_layer_policy(F)).run(nb, [BRef(0, 0)], holders=[it, me])
                except Exception as e:
                    bad.append("n=%d not evaluated: %s" % (k, str(e)[:60]))
                    continue
                ans = bit_answer(outs)
                after = set()
                for o in outs:
                    h = o.roots.get(0) if o.roots else None
                    after.add(h.fields[n_pos] if isinstance(h, BAdt) and len(h.fields) == 2 else None)
                want = ("none",) if k == 0 else ("bit", ("L", (k - 1) >> 6, (k - 1) & 63, False))
                want_n = {0} if k == 0 else {k - 1}
                if ans != want or after != want_n:
                    bad.append("n=%d answers %r and leaves n=%s" % (k, ans, sorted(map(repr, after))))
        ok = not bad
        rv = bad[:3]
        R.check(ok, "%s:bits:next" % prop, "BitIterator::next is not {n == 0 → None; n −= 1; bit n of the integer}: %s" % (bad[:3],), nb.file_line(), nb.rec["path"],
                sample={"next": "n==0 → None; n -= 1; bit n", "counters_evaluated": 12})
    wb = F.bodies.get("crate::u256::U256::bits_without_leading_zeros")
    R.instance()
    if wb is None:
        R.fail_closed("%s:bits:skip" % prop, "bits_without_leading_zeros not found")
    else:
        rv = repo.tb(wb).return_value()
        ok = False
        if rv[0] == "call" and rv[1].name == "skip_while":
            it = strip(rv[2][0])
            if it[0] == "call":
                # `self.bits().skip_while(..)`: the plain iterator through its own constructor method
                from core.terms import expand_call, same_file
                e = expand_call(repo, it, same_file(repo, wb))
                if e is not None:
                    it = strip(e)
            clo = strip(rv[2][1])
            start = it[0] == "agg" and it[1] == "crate::u256::BitIterator" and strip(it[3][0]) in (("init", ("deref", 1)), ("param", 1)) and it[3][1][0] == "const" and int(it[3][1][1]["int"]) == 256
            cb = F.bodies.get(clo[1][1]) if clo[0] == "agg" and isinstance(clo[1], tuple) else None
            neg = False
            if cb:
                crv = repo.tb(cb).return_value()
                neg = (crv[0] == "unop" and crv[1] == "Not") or (crv[0] == "call" and crv[1].name == "not" and crv[1].get("trait") == "core::ops::Not" and strip(crv[2][0]) in (("param", 2), ("init", ("deref", 2))))
            ok = start and neg
        R.check(ok, "%s:bits:skip" % prop, "bits_without_leading_zeros is not BitIterator{self, 256}.skip_while(|b| !b): %s" % show(rv, maxdepth=3)[:160], wb.file_line(), wb.rec["path"],
                sample={"iterator": "BitIterator{int: self, n: 256}.skip_while(!bit)"})
    gb = F.bodies.get("crate::u256::U256::get_bit")
    R.instance()
    if gb is None:
        R.fail_closed("%s:bits:get_bit" % prop, "U256::get_bit not found")
    else:
        # for every index: Some(bit n&63 of limb n>>6) below 256, None from 256 on — over opaque limbs, read off at bit granularity
        from core.bytex import Machine, Ref as BRef
        bad = []
        same_file = (gb.rec.get("span") or {}).get("file")
        for n in list(range(256)) + [256, 257, 1 << 20]:
            me, limbs = structured_u256(F)
            m = Machine(F, int_layer_policy(F))
            try:
                outs = m.run(gb, [BRef(0, 0), n], holders=[me])
            except Exception as e:
                bad.append((n, "not evaluated: %s" % str(e)[:60]))
                continue
            ans = bit_answer(outs)
            want = ("bit", ("L", n >> 6, n & 63, False)) if n < 256 else ("none",)
            if ans != want:
                bad.append((n, "answers %r: %r" % (ans, outs[:2])))
        R.check(not bad, "%s:bits:get_bit" % prop, "U256::get_bit(n) is not Some(bit n&63 of limb n>>6) for n < 256 and None beyond: %s" % bad[:3], gb.file_line(), gb.rec["path"],
                sample={"get_bit": "all 256 indices over opaque limbs", "rows": 259})
    return R.finish()


_INT_LAYER_WORDS = {"u8", "u16", "u32", "u64", "u128", "usize", "bool", "U256", "U512", "BigInt", "Option", "Result", "Error", "mut", "const", "crate", "u256", "u512",
                    "ark_ff", "biginteger", "core", "option", "result", "self", "Self", "N", "BitIterator", "a", "static", "cmp", "Ordering", "arith", "MulBuffer",
                    "as", "ops", "Index", "IndexMut", "Output", "Deref", "DerefMut", "Target", "AsRef", "AsMut", "convert", "iter", "Iterator", "Item"}


def int_layer_policy(F):
    """inline policy of the rules that evaluate the multi-limb integer helpers: any crate-local function whose signature is made of
    machine integers, booleans, limb arrays / slices and the fixed-width integer types only (wherever the maintainer keeps it)"""
    import re as _re

    def pol(cb):
        if not cb.rec.get("local", True):
            return False
        tys = list(cb.rec.get("inputs") or []) + [cb.rec.get("output") or ""]
        words = set()
        for t in tys:
            words |= set(_re.findall(r"[A-Za-z_][A-Za-z0-9_]*", t))
        return words <= _INT_LAYER_WORDS
    return pol


def structured_u256(F):
    """a U256 whose four limbs are opaque: (value, limb terms)"""
    from core.bytex import T, Tup, Adt as BAdt
    adt = F.adts.get("crate::u256::U256")
    inner_ty = adt["variants"][0]["fields"][0]["ty"] if adt and adt.get("variants") and adt["variants"][0]["fields"] else "ark_ff::BigInt<4>"
    inner_head = inner_ty.split("<")[0]
    limbs = Tup([T("limb", j) for j in range(4)])
    return BAdt("crate::u256::U256", "U256", [BAdt(inner_head, inner_head.split("::")[-1], [limbs])]), limbs


def bit_answer(outs):
    """What a function returning bool / Option<bool> answers, read off its machine outcomes: ('none',), ('bit', provenance)
    with provenance 0 / 1 / ('L', limb, bit, negated), or None when it cannot be read."""
    from core.bytex import T, Adt as BAdt
    from core import bitprov

    def of_value(v):
        if isinstance(v, BAdt) and v.name.endswith("Option"):
            if v.variant == "None":
                return ("none",)
            if v.variant == "Some" and v.fields:
                p = bitprov.boolprov(v.fields[0])
                return ("bit", p) if p is not None else None
            return None
        p = bitprov.boolprov(v)
        return ("bit", p) if p is not None else None
    if len(outs) == 1 and outs[0].kind == "return" and not outs[0].pc:
        return of_value(outs[0].value)
    if len(outs) == 2 and all(o.kind == "return" and len(o.pc) == 1 for o in outs) and outs[0].pc[0][0] == outs[1].pc[0][0]:
        # forked on one opaque predicate: the answer is that predicate (or its negation)
        p = bitprov.boolprov(outs[0].pc[0][0])
        if p is None:
            return None
        res = {}
        for o in outs:
            a = of_value(o.value)
            if a is None or a[0] != "bit" or a[1] not in (0, 1):
                return None
            res[bool(o.pc[0][1])] = a[1]
        if res.get(True) == 1 and res.get(False) == 0:
            return ("bit", p)
        if res.get(True) == 0 and res.get(False) == 1:
            return ("bit", bitprov._neg(p))
    return None


def selected_bit(v, me):
    """(limb index, bit index) a boolean value term selects out of the 256-bit integer `me`, or None."""
    from core.bytex import T

    def limb(t):
        # self.0.0[j] / self.0[j] (through Index impls) → j
        if isinstance(t, T) and t[0] == "idx" and isinstance(t[2], int):
            base = t[1]
            while isinstance(base, T) and base[0] == "field":
                base = base[1]
            if base == me:
                return t[2]
        return None
    if isinstance(v, T) and v[0] == "call" and v[1].split("::")[-1] == "get_bit" and len(v[3]) == 2 and isinstance(v[3][1], int):
        base = v[3][0]
        while isinstance(base, T) and base[0] == "field":
            base = base[1]
        if base == me:
            return (v[3][1] >> 6, v[3][1] & 63)
        return None
    if isinstance(v, T) and v[0] == "binop" and v[1] in ("Eq", "Ne"):
        x, c = v[2], v[3]
        if isinstance(x, int):
            x, c = c, x
        if isinstance(x, T) and x[0] == "binop" and x[1] == "BitAnd" and isinstance(c, int):
            y, mk = x[2], x[3]
            if isinstance(y, int):
                y, mk = mk, y
            if isinstance(mk, int):
                # ((L >> k) & 1) == 1 / != 0
                if isinstance(y, T) and y[0] == "binop" and y[1] == "Shr" and isinstance(y[3], int) and mk == 1 and ((v[1] == "Eq" and c == 1) or (v[1] == "Ne" and c == 0)):
                    j = limb(y[2])
                    return (j, y[3]) if j is not None else None
                # (L & (1 << k)) != 0 / == 1 << k
                if mk > 0 and mk & (mk - 1) == 0 and ((v[1] == "Ne" and c == 0) or (v[1] == "Eq" and c == mk)):
                    j = limb(y)
                    return (j, mk.bit_length() - 1) if j is not None else None
    return None


SHORTCUT_OPS = {"mul": "mul", "mul_inplace": "mul", "mul_assign": "mul", "squared": "squared", "square": "squared", "inverse": "inverse", "add": "add", "add_inplace": "add",
                "add_assign": "add", "sub": "sub", "sub_inplace": "sub", "sub_assign": "sub", "neg": "neg", "neg_inplace": "neg", "double": "double"}


def rule_shortcuts(prop, repo, types):
    """Early exits of the arithmetic implementations.  A path that is taken because an operand test answered true and that
    returns a value of a known class (zero, one, an operand, the square of an operand, None) is an algebraic shortcut; it
    is right for every operand the test lets through only when the test implies the identity used (x·y = x² needs x = y
    or x = 0 — comparing one component does not give that).  Paths whose test or value the table cannot read are not
    judged."""
    F = repo.F
    R = Rule("R-SHORTCUT", "every early exit of a field / tower operation that returns zero, one, an operand, the square of an operand or None is guarded by an operand "
             "test that implies the identity it uses (whole-value tests, or a test of every component)", floor=6, exhaustive=True)
    nfields = {}
    for ap, adt in F.adts.items():
        vs = adt.get("variants") or []
        if len(vs) == 1:
            nfields[ap] = len(vs[0].get("fields") or [])
    judged = 0
    for b in F.fn_bodies():
        ty = b.rec.get("impl_self_adt")
        if ty not in types or b.rec["kind"] not in ("Fn", "AssocFn"):
            continue
        nm = b.name or ""
        op = SHORTCUT_OPS.get(nm)        # the general operations only: sparse / scaled variants have identities of their own
        if op is None:
            continue
        ins = b.rec.get("inputs") or []
        if not ins or not all(ty.split("::")[-1] in i for i in ins[:2]):
            continue          # operands of another type (scalar, limb integer): not an operation of this table
        try:
            rows = shared.path_table(repo, b, ("deref", 1) if (b.rec.get("output") in ("()", None) and ins[0].startswith("&mut")) else 0)
        except Exception:
            rows = None
        R.instance()
        if not rows:
            R.ok(sample=None)
            continue
        n = nfields.get(ty, 0)

        def whole(facts, kind, k):
            if (kind, (k, ())) in facts:
                return True
            return n > 0 and all((kind, (k, (i,))) in facts for i in range(n))

        def equal(facts):
            if ("eq", (1, ()), (2, ())) in facts:
                return True
            return n > 0 and all(("eq", (1, (i,)), (2, (i,))) in facts for i in range(n))
        bad = []
        for asg, val, res in rows:
            facts = shared.algebra_facts(asg)
            if not facts or ("other",) in facts:
                continue
            v = strip(val)
            vc = shared.classify_value(v)
            if vc is None and v[0] == "call" and len(v[2]) == 1 and any(k in v[1].name for k in ("squar",)):
                k = shared.peel_param(v[2][0])
                if k is not None and not k[1]:
                    vc = ("squared", k[0])
            if vc is None:
                continue
            judged += 1
            Z = lambda k: whole(facts, "zero", k)
            O = lambda k: whole(facts, "one", k)
            arg = lambda k: vc == ("arg", k, ())
            if op == "mul":
                ok = (vc == "ZERO" and (Z(1) or Z(2))) or (arg(1) and (O(2) or Z(1))) or (arg(2) and (O(1) or Z(2))) or (vc == "ONE" and O(1) and O(2)) or \
                     (isinstance(vc, tuple) and vc[0] == "squared" and (equal(facts) or Z(vc[1])))
            elif op == "squared":
                ok = (vc == "ZERO" and Z(1)) or (vc == "ONE" and O(1)) or (arg(1) and (Z(1) or O(1)))
            elif op == "inverse":
                ok = (vc == "NONE" and Z(1)) or (vc in (("SOME", "ONE"), ("SOME", ("arg", 1, ()))) and O(1))
            elif op == "add":
                ok = (arg(2) and Z(1)) or (arg(1) and Z(2)) or (vc == "ZERO" and Z(1) and Z(2))
                if vc == "ZERO" and not ok:
                    continue          # a + b = 0 for b = −a: not a fact this table reads
            elif op == "sub":
                ok = (arg(1) and Z(2)) or (vc == "ZERO" and (equal(facts) or (Z(1) and Z(2))))
            else:
                ok = (vc == "ZERO" or arg(1)) and Z(1)
            if not ok:
                bad.append("returns %s where only %s" % (show(v, maxdepth=2)[:60], sorted(facts)))
        R.check(not bad, "%s:shortcut:%s" % (prop, b.rec["path"]), "%s takes a shortcut its operand test does not justify: %s" % (b.rec["path"], "; ".join(bad[:2])),
                b.file_line(), b.rec["path"], sample={"fn": b.rec["path"], "op": op, "paths": len(rows)} if R.instances % 6 == 1 else None)
    R.note("%d early exits with a readable test and value class judged" % judged)
    return R.finish()


def rule_limb_predicates(prop, repo):
    """U256::is_zero / is_one answer for the whole 256-bit value.  The predicate is evaluated once over opaque limbs; its
    decision paths are then confronted with witness valuations (the matching value, and the matching value with one limb
    disturbed in its low bit / high bit / all bits): a fully understood path that answers wrongly is a violation with the
    valuation as counter-example; a path through a library call the evaluator does not know is left undecided (note)."""
    from core.bytex import Machine, T, Tup, Adt as BAdt, Ref as BRef
    F = repo.F
    R = Rule("R-LIMB-PRED", "U256::is_zero / is_one depend on every one of the four limbs: over opaque limbs, no decision path answers true for a value "
             "with one limb disturbed, and the matching value is answered true", floor=2, exhaustive=True)
    M64 = 2 ** 64 - 1
    adt = F.adts.get("crate::u256::U256")
    inner_ty = adt["variants"][0]["fields"][0]["ty"] if adt and adt.get("variants") and adt["variants"][0]["fields"] else ""
    inner_head = inner_ty.split("<")[0]

    def flat(v, val):
        """list of concrete limb values of an evaluated term, or None"""
        if isinstance(v, bool):
            return None
        if isinstance(v, int):
            return [v]
        if isinstance(v, BAdt):
            out = []
            for f in v.fields:
                x = flat(f, val)
                if x is None:
                    return None
                out += x
            return out
        if isinstance(v, Tup):
            out = []
            for f in v:
                x = flat(f, val)
                if x is None:
                    return None
                out += x
            return out
        if isinstance(v, BRef):
            return None
        x = ev(v, val)
        return [x] if isinstance(x, int) and not isinstance(x, bool) else None

    def ev(t, val):
        if isinstance(t, (bool, int)):
            return t
        if not isinstance(t, T):
            return None
        h = t[0]
        if h == "limb":
            return val[t[1]]
        if h == "not":
            x = ev(t[1], val)
            return (not x) if isinstance(x, bool) else ((~x) & M64 if isinstance(x, int) else None)
        if h == "cast":
            return ev(t[1], val)
        if h == "binop":
            a, b = ev(t[2], val), ev(t[3], val)
            if a is None or b is None:
                return None
            o = t[1]
            if o in ("Eq", "Ne", "Lt", "Le", "Gt", "Ge"):
                return {"Eq": a == b, "Ne": a != b, "Lt": a < b, "Le": a <= b, "Gt": a > b, "Ge": a >= b}[o]
            if isinstance(a, bool) or isinstance(b, bool):
                return {"BitAnd": a and b, "BitOr": a or b, "BitXor": a != b}.get(o) if isinstance(a, bool) and isinstance(b, bool) else None
            if o in ("BitAnd", "BitOr", "BitXor"):
                return {"BitAnd": a & b, "BitOr": a | b, "BitXor": a ^ b}[o]
            return None          # arithmetic on limbs may wrap: not interpreted
        if h == "call":
            nm = t[1].split("::")[-1] if isinstance(t[1], str) else ""
            args = t[3]
            if nm in ("eq", "ne") and len(args) == 2:
                sides = []
                for a in args:
                    if isinstance(a, T) and a[0] == "call" and not a[3] and a[1].split("::")[-1] in ("zero", "one"):
                        sides.append(a[1].split("::")[-1])
                    else:
                        sides.append(flat(a, val))
                if sides[0] is None or sides[1] is None or (isinstance(sides[0], str) and isinstance(sides[1], str)):
                    return None
                for k in (0, 1):
                    if isinstance(sides[k], str):
                        n = len(sides[1 - k])
                        sides[k] = [0] * n if sides[k] == "zero" else [1] + [0] * (n - 1)
                if len(sides[0]) != len(sides[1]):
                    return None
                return (sides[0] == sides[1]) == (nm == "eq")
            if nm in ("is_zero", "is_one") and len(args) == 1:
                x = flat(args[0], val)
                if x is None or not x:
                    return None
                return x == ([0] * len(x) if nm == "is_zero" else [1] + [0] * (len(x) - 1))
        return None

    for path, want in (("crate::u256::U256::is_zero", [0, 0, 0, 0]), ("crate::u256::U256::is_one", [1, 0, 0, 0])):
        b = F.bodies.get(path)
        R.instance()
        if b is None or not inner_head:
            R.fail_closed("%s:limb-pred:%s" % (prop, path), "%s not found" % path)
            continue
        limbs = Tup([T("limb", j) for j in range(4)])
        me = BAdt("crate::u256::U256", "U256", [BAdt(inner_head, inner_head.split("::")[-1], [limbs])])
        same_file = (b.rec.get("span") or {}).get("file")
        try:
            outs = Machine(F, int_layer_policy(F)).run(b, [BRef(0, 0)], holders=[me])
        except Exception as e:       # the machine could not follow the body: nothing decided, nothing alleged
            R.note("%s: not evaluated (%s)" % (path, str(e)[:80]))
            R.ok(path, sample={"fn": path, "decided": False})
            continue
        # a comparison returned as a value is the last test of a conjunction: split it into its two answers
        split = []
        for o in outs:
            if o.kind == "return" and isinstance(o.value, T):
                for ans in (True, False):
                    o2 = copy.copy(o)
                    o2.value, o2.pc = ans, tuple(o.pc) + ((o.value, ans),)
                    split.append(o2)
            else:
                split.append(o)
        vals = [("the matching value", list(want), True)]
        for j in range(4):
            for d, dn in ((1, "low bit"), (1 << 63, "high bit"), (M64, "all bits")):
                v = list(want)
                v[j] ^= d
                vals.append(("limb %d disturbed in its %s" % (j, dn), v, False))
        wrong, undecided = [], 0
        for label, val, expect in vals:
            answers, unknown = set(), False
            for o in split:
                st = True
                for atom, ch in o.pc:
                    x = ev(atom, val)
                    if x is None:
                        st = None if st else st
                    elif bool(x) != bool(ch):
                        st = False
                        break
                if st is False:
                    continue
                if st is None or o.kind != "return" or not isinstance(o.value, bool):
                    unknown = True
                else:
                    answers.add(o.value)
            if (not expect) in answers and not unknown:
                wrong.append("%s (%s) is answered %s" % (label, ["%#x" % x for x in val], not expect))
            elif unknown or answers != {expect}:
                undecided += 1
        if undecided and not wrong:
            R.note("%s: %d of %d valuations go through calls the evaluator does not interpret" % (path, undecided, len(vals)))
        R.check(not wrong, "%s:limb-pred:%s" % (prop, path), "%s does not decide its predicate on the whole value: %s" % (path, "; ".join(wrong[:3])), b.file_line(), path,
                sample={"fn": path, "valuations": len(vals), "undecided": undecided})
    return R.finish()


def rule_comm(prop, repo):
    F = repo.F
    R = Rule("R-COMM", "k * P delegates to P * k; the public Mul<Fr> forwards (point, scalar) to the inner ladder", floor=4)
    for w in ("<crate::Fr as core::ops::Mul<crate::G1>>::mul", "<crate::Fr as core::ops::Mul<crate::G2>>::mul"):
        b = F.bodies.get(w)
        R.instance()
        if b is None:
            R.fail_closed("%s:comm:%s" % (prop, w), "%s not found" % w)
            continue
        rv = repo.tb(b).return_value()
        def rev(rv):
            if rv[0] == "call" and rv[1].name == "mul" and [strip(a) for a in rv[2]] == [("param", 2), ("param", 1)]:
                return True
            # … or straight to the inner ladder on the wrapped values, wrapped again: Wrapper(point.0 * scalar.0)
            if rv[0] == "agg" and isinstance(rv[1], str) and len(rv[3]) == 1:
                c = strip(rv[3][0])
                return c[0] == "call" and c[1].name == "mul" and "crate::groups::G<" in c[1].i and [strip(a) for a in c[2]] == [("field", ("param", 2), 0), ("field", ("param", 1), 0)]
            return False
        ok, _ = shared.forwards(repo, b, rev, "smul_rev")
        R.check(ok, "%s:comm:%s" % (prop, w), "%s is not `other * self`: %s" % (w, show(rv, maxdepth=2)), b.file_line(), w, sample={"impl": w, "is": "other * self"})
    for w in ("<crate::G1 as core::ops::Mul<crate::Fr>>::mul", "<crate::G2 as core::ops::Mul<crate::Fr>>::mul"):
        b = F.bodies.get(w)
        R.instance()
        if b is None:
            R.fail_closed("%s:comm:%s" % (prop, w), "%s not found" % w)
            continue
        rv = repo.tb(b).return_value()
        ok, _ = shared.forwards(repo, b, lambda rv: rv[0] == "agg" and strip(rv[3][0])[0] == "call" and strip(rv[3][0])[1].name == "mul" and [strip(a) for a in strip(rv[3][0])[2]] == [("field", ("param", 1), 0), ("field", ("param", 2), 0)], "smul")
        R.check(ok, "%s:comm:%s" % (prop, w), "%s is not G(self.0 * other.0): %s" % (w, show(rv, maxdepth=3)), b.file_line(), w, sample={"impl": w, "is": "G(self.0 * other.0)"})
    return R.finish()


def rule_inv_none(prop, repo):
    F = repo.F
    R = Rule("R-INV-NONE", "Fp::inverse returns None ⇔ is_zero (truth table); inverse is applied to the stored value with the type's own constants", floor=2, exhaustive=True)
    for ap, info in repo.fp_types().items():
        path = "<%s as crate::fields::FieldElement>::inverse" % ap
        b = F.bodies.get(path)
        R.instance()
        if b is None:
            R.fail_closed("%s:inverse:%s" % (prop, path), "%s not found" % path)
            continue
        tb = repo.tb(b)
        atoms = paths.collect_atoms(b, tb)
        bad = []
        rows = []
        for asg in paths.enumerate_assignments(atoms):
            res = paths.simulate(b, tb, paths.Evaluator(asg))
            v = paths.path_value(b, tb, res.blocks, 0)
            iz = [val for a, val in asg.items() if a[0] == "bool" and a[1][0] == "call" and a[1][1].name == "is_zero"]
            names = {x[2] for x in alts(v) if x[0] == "agg"}
            rows.append({"is_zero": iz, "returns": sorted(names)})
            want = {"None"} if iz and iz[0] else {"Some"}
            if names != want or len(iz) != 1:
                bad.append(rows[-1])
            inv_called = bool(res.called(lambda f: f.name == "invert"))
            if inv_called != (want == {"Some"}):
                bad.append({"invert_called": inv_called, "is_zero": iz})
        R.check(not bad, "%s:inverse:%s" % (prop, path), "%s: %s" % (path, bad[:2]), b.file_line(), path, sample={"fn": path, "rows": rows})
    # the limb-level inversion routine (found by role): no exit leaves *self as it was on entry — it cannot know the
    # Montgomery one, so "this value is its own inverse" is not something it can decide from the raw limbs
    closed, _, _ = shared.classify_u256(repo)
    inv = [p for p, i in closed.items() if i.get("role") == "invert"]
    R.instance()
    if len(inv) != 1:
        R.fail_closed("%s:inverse:limb-routine" % prop, "limb-level inversion routine not found by role (%d candidates)" % len(inv))
    else:
        ib = F.bodies[inv[0]]
        fin = repo.tb(ib).final_value(("deref", 1))
        unchanged = [a for a in alts(fin) if a == ("init", ("deref", 1))]
        R.check(not unchanged, "%s:inverse:%s:unchanged-exit" % (prop, inv[0]), "%s has an exit on which *self keeps its entry value (an input returned as its own inverse)" % inv[0], ib.file_line(), inv[0],
                sample={"fn": inv[0], "final_self_alternatives": len(alts(fin)), "entry_value_among_them": False})
    return R.finish()


def rule_guard_extra(prop, repo):
    """divrem's subtract/quotient guards and div2's odd test (ordering / boolean domain)."""
    F = repo.F
    R = Rule("R-GUARD-2", "512-bit division: subtract ⇔ remainder ≥ modulus ∨ carry, quotient rejected ⇔ quotient ≥ modulus; halving adds the modulus ⇔ odd; "
             "Fq::sqrt takes −root ⇔ −root < root", floor=3, exhaustive=True)
    b = F.bodies.get("crate::u512::U512::divrem")
    R.instance()
    if b is None:
        R.fail_closed("%s:guard:divrem" % prop, "divrem not found")
    else:
        tb = repo.tb(b)
        # loop body = Some-edge of the bit iterator; evaluate it over (ordering of remainder vs modulus) x (carry) x (other tests)
        from core.absexec import natural_loops
        loops = natural_loops(b)
        entry = None
        for bi in sorted(b.reachable()):
            t_ = b.blocks[bi]["term"]
            if t_["k"] == "switch":
                d = tb.operand(t_["discr"], bi, len(b.blocks[bi]["stmts"]))
                if d[0] == "discr" and strip(d[1])[0] == "call" and strip(d[1])[1].name == "next":
                    for val, tg in t_["arms"]:
                        if int(val) == 1:
                            entry = tg
        ok = False
        why = "loop over the dividend's bits not recognised"
        rows = []

        def is_mod(x):
            return strip(x) in (("param", 2), ("init", ("deref", 2)))
        # one iteration is followed from the block that shifts the running remainder (the carry computation), whatever construct
        # (`for`, `while`, iterator) drives the loop; a division written as several loops over parts of the dividend (bits the
        # quotient cannot hold, then the rest) has the same guard in each of them
        per_loop = []
        for hdr, nodes in sorted((loops or {}).items()):
            shifts = [bb for bb, t_ in b.calls() if bb in nodes and (t_.get("fn") or {}).get("name") == "mul2"]
            inner = [n2 for h2, n2 in loops.items() if h2 != hdr and n2 < nodes]
            if len(shifts) == 1 and not any(shifts[0] in n2 for n2 in inner):
                per_loop.append((shifts[0], nodes))
        if not per_loop and entry is not None and loops:
            per_loop = [(entry, set().union(*loops.values()))]
        verdicts = []
        for start_bb, nodes in per_loop:
            atoms = paths.collect_atoms(b, tb, blocks=sorted(nodes))
            ords = [a for a in atoms if a[0] == "ord"]
            carries = [a for a in atoms if a[0] == "bool" and a[1][0] in ("call", "mutcall") and getattr(a[1][1], "name", "") == "mul2"]
            oa = [a for a in ords if is_mod(a[1]) or is_mod(a[2])]      # the ordering test of the running remainder against the modulus parameter
            if len(oa) == 1 and len(carries) == 1:
                oa, ca = oa[0], carries[0]
                flipped = is_mod(oa[1])
                bad = []
                for asg in paths.enumerate_assignments(atoms):
                    res = paths.simulate(b, tb, paths.Evaluator(asg), start=start_bb)
                    sub = bool(res.called(lambda f: f.name == "sub_with_borrow"))
                    o = asg[oa]
                    if flipped:
                        o = {"L": "G", "G": "L", "E": "E"}[o]
                    want = bool(asg[ca]) or o != "L"
                    rows.append({"remainder_vs_modulus": o, "carry": asg[ca], "subtracts": sub})
                    if sub != want:
                        bad.append(rows[-1])
                verdicts.append(not bad)
                if bad:
                    why = "rows that differ: %s" % bad[:3]
            else:
                verdicts.append(False)
                why = "expected one remainder/modulus comparison and one carry test in the loop, found %d / %d" % (len(oa), len(carries))
        ok = bool(verdicts) and all(verdicts)
        R.check(ok, "%s:guard:divrem" % prop, "divrem: subtract ⇔ carry ∨ remainder ≥ modulus does not hold (%s)" % why, b.file_line(), b.rec["path"],
                sample={"fn": b.rec["path"], "rows": rows[:6], "row_count": len(rows)})
    d2 = F.bodies.get("crate::u256::U256::div2")
    R.instance()
    if d2 is None:
        R.fail_closed("%s:guard:div2" % prop, "U256::div2 not found")
    else:
        tb = repo.tb(d2)
        atoms = paths.collect_atoms(d2, tb)
        bad = []
        for asg in paths.enumerate_assignments(atoms):
            res = paths.simulate(d2, tb, paths.Evaluator(asg))
            if res.end != "return":
                continue
            odd = [v for a, v in asg.items() if a[0] == "bool" and a[1][0] == "call" and a[1][1].name == "is_odd"] + \
                  [1 - v for a, v in asg.items() if a[0] == "bool" and a[1][0] == "call" and a[1][1].name == "is_even"]      # the same question asked the other way round
            added = bool(res.called(lambda f: f.name == "add_with_carry"))
            halved = bool(res.called(lambda f: f.name == "div2"))
            if not odd or added != bool(odd[0]) or not halved:
                bad.append({"is_odd": odd, "adds_modulus": added, "halves": halved})
        R.check(not bad, "%s:guard:div2" % prop, "U256::div2: %s" % bad[:2], d2.file_line(), d2.rec["path"], sample={"fn": d2.rec["path"], "rule": "add modulus ⇔ odd, then halve"})
    sq = F.bodies.get("crate::fields::fp::Fq::sqrt")
    R.instance()
    if sq is None:
        R.fail_closed("%s:guard:sqrt" % prop, "Fq::sqrt not found")
    else:
        ok = False
        # the comparison may sit in sqrt itself or in a helper of the same type that sqrt hands the root to
        where = [sq]
        for _, t in sq.calls():
            cb = F.bodies.get((t.get("fn") or {}).get("res_def") or (t.get("fn") or {}).get("def"))
            if cb is not None and cb.rec.get("impl_self_adt") == sq.rec.get("impl_self_adt") and not cb.impl_trait and cb.rec.get("output") == sq.rec.get("impl_self_adt") \
                    and (cb.rec.get("span") or {}).get("file") == (sq.rec.get("span") or {}).get("file") and cb not in where:
                where.append(cb)
        for wb in where:
            tb = repo.tb(wb)
            for bi in sorted(wb.reachable()):
                t = wb.blocks[bi]["term"]
                if t["k"] != "switch":
                    continue
                d = tb.operand(t["discr"], bi, len(wb.blocks[bi]["stmts"]))
                if d[0] == "call" and d[1].name == "lt" and len(d[2]) == 2:
                    l, r_ = strip(d[2][0]), strip(d[2][1])
                    xl, xr = is_canon_conv(l, "crate::fields::fp::Fq"), is_canon_conv(r_, "crate::fields::fp::Fq")
                    if xl is not None and xr is not None and xl[0] == "call" and xl[1].name == "neg" and strip(xl[2][0]) == xr:
                        ok = True
        R.check(ok, "%s:guard:sqrt-sign" % prop, "Fq::sqrt does not compare canonical(−root) < canonical(root) to pick the smaller root", sq.file_line(), sq.rec["path"],
                sample={"fn": sq.rec["path"], "rule": "take −root ⇔ canonical(−root) < canonical(root)"})
    return R.finish()


# ====================================================================== tower constants / accessors (C11, C12)
def rule_tower_consts(prop, repo):
    F = repo.F
    R = Rule("R-TOWER-CONST", "one() / zero() of the tower: only the lowest coefficient of one() is Fq::one(); Fq2::new(a,b) stores (c0=a, c1=b); real()/imaginary() read c0/c1; "
             "mul_by_nonresidue, unitary_inverse, scale, i() have their defining shapes", floor=10, exhaustive=True)

    def shape(t):
        t = strip(t)
        if t[0] == "agg" and isinstance(t[1], str) and t[1].startswith("crate::fields"):
            return tuple(shape(x) for x in t[3])
        if t[0] == "call" and t[1].name in ("one", "zero") and not t[2]:
            b = F.bodies.get(t[1].d)
            ty = t[1].i
            if "fp::Fq" in ty or "fp::Fr" in ty:
                return t[1].name
            if b is not None:
                return shape(repo.tb(b).return_value())
            return t[1].name + "?"
        return "?"

    def flat(s):
        if isinstance(s, tuple):
            out = []
            for x in s:
                out += flat(x)
            return out
        return [s]
    for ty, n in (("crate::fields::fq2::Fq2", 2), ("crate::fields::fq4::Fq4", 4), ("crate::fields::fq12::Fq12", 12)):
        for name in ("one", "zero"):
            cands = [b for b in F.fn_bodies() if b.rec.get("impl_self_adt") == ty and b.name == name and not b.rec.get("inputs")]
            R.instance()
            if len(cands) != 1:
                R.fail_closed("%s:tower:%s::%s" % (prop, ty, name), "%s::%s not found uniquely" % (ty, name))
                continue
            fl = flat(shape(repo.tb(cands[0]).return_value()))
            want = (["one"] + ["zero"] * (n - 1)) if name == "one" else ["zero"] * n
            R.check(fl == want, "%s:tower:%s::%s" % (prop, ty, name), "%s::%s has coefficients %s" % (ty, name, fl), cands[0].file_line(), cands[0].rec["path"],
                    sample={"fn": "%s::%s" % (ty.split("::")[-1], name), "coefficients": fl})
    fq2 = "crate::fields::fq2::Fq2"
    checks = {
        "new": lambda rv: rv[0] == "agg" and [strip(x) for x in rv[3]] == [("param", 1), ("param", 2)],
        "real": lambda rv: strip(rv) == ("field", ("init", ("deref", 1)), 0),
        "imaginary": lambda rv: strip(rv) == ("field", ("init", ("deref", 1)), 1),
        "unitary_inverse": lambda rv: rv[0] == "agg" and strip(rv[3][0]) == ("field", ("init", ("deref", 1)), 0) and strip(rv[3][1])[0] == "call" and strip(rv[3][1])[1].name == "neg" and strip(strip(rv[3][1])[2][0]) == ("field", ("init", ("deref", 1)), 1),
        "mul_by_nonresidue": lambda rv: rv[0] == "agg" and strip(rv[3][1]) == ("field", ("init", ("deref", 1)), 0) and strip(rv[3][0])[0] == "call" and strip(rv[3][0])[1].name == "neg"
                             and strip(strip(rv[3][0])[2][0])[0] == "call" and strip(strip(rv[3][0])[2][0])[1].name == "double" and strip(strip(strip(rv[3][0])[2][0])[2][0]) == ("field", ("init", ("deref", 1)), 1),
        "scale": lambda rv: rv[0] == "agg" and all(strip(c)[0] == "call" and strip(c)[1].name == "mul" and strip(strip(c)[2][0]) == ("field", ("init", ("deref", 1)), i) and strip(strip(c)[2][1]) in (("param", 2), ("init", ("deref", 2))) for i, c in enumerate(rv[3])),
        "i": lambda rv: rv[0] == "call" and rv[1].name == "new" and [strip(x)[1].name for x in rv[2] if strip(x)[0] == "call"] == ["zero", "one"],
    }
    for name, pred in checks.items():
        b = F.bodies.get("%s::%s" % (fq2, name))
        R.instance()
        if b is None:
            R.fail_closed("%s:tower:Fq2::%s" % (prop, name), "Fq2::%s not found" % name)
            continue
        rv = repo.tb(b).return_value()
        try:
            ok = bool(pred(rv))
        except (IndexError, KeyError, TypeError):
            ok = False
        if not ok:
            # early exits that are the defining shape specialised by an operand test (0·x = 0, −(2·0) = 0) are the same map
            ok, _why = shared.forwards(repo, b, pred, {"scale": "mul", "mul_by_nonresidue": "neg", "unitary_inverse": "neg"}.get(name))
        if not ok and name in ("mul_by_nonresidue", "unitary_inverse", "scale"):
            # the same map spelled differently ((−c1) + (−c1) for −2·c1): evaluated in the graded-units domain with scalar factor
            from . import mono
            ok = mono.evaluates_to(F, b, fq2, name)
        R.check(ok, "%s:tower:Fq2::%s" % (prop, name), "Fq2::%s does not have its defining shape: %s" % (name, show(rv, maxdepth=4)[:200]), b.file_line(), b.rec["path"],
                sample={"fn": "Fq2::" + name, "shape": show(rv, maxdepth=3)[:120]})
    # every override of One::is_one is `*self == Self::one()` (the default's meaning)
    for b in F.fn_bodies():
        if b.name == "is_one" and (b.impl_trait or "").endswith("One"):
            R.instance()
            rv = repo.tb(b).return_value()
            ok = rv[0] == "call" and rv[1].name == "eq" and len(rv[2]) == 2 and strip(rv[2][0]) in (("init", ("deref", 1)), ("param", 1)) and strip(rv[2][1])[0] == "call" and strip(rv[2][1])[1].name == "one" and not strip(rv[2][1])[2]
            R.check(ok, "%s:tower:is_one:%s" % (prop, b.rec.get("impl_self_adt")), "%s is not `*self == Self::one()`: %s" % (b.rec["path"], show(rv, maxdepth=3)[:160]), b.file_line(), b.rec["path"],
                    sample={"fn": b.rec["path"], "is": "*self == Self::one()"})
    for w, inner, idx in (("crate::Fq2::new", "new", None), ("crate::Fq2::real", "real", None), ("crate::Fq2::imaginary", "imaginary", None)):
        b = F.bodies.get(w)
        R.instance()
        if b is None:
            R.fail_closed("%s:tower:%s" % (prop, w), "%s not found" % w)
            continue
        rv = repo.tb(b).return_value()
        calls = [s for s in walk(rv) if s[0] == "call" and s[1].d == "%s::%s" % (fq2, inner)]
        ok = len(calls) == 1
        if ok and inner == "new":
            ok = [strip(a) for a in calls[0][2]] == [("field", ("param", 1), 0), ("field", ("param", 2), 0)]
        R.check(ok, "%s:tower:%s" % (prop, w), "%s does not forward to Fq2::%s in order: %s" % (w, inner, show(rv, maxdepth=3)[:160]), b.file_line(), w, sample={"wrapper": w})
    return R.finish()


# ====================================================================== purity (C16)
def rule_pure(prop, repo):
    F = repo.F
    R = Rule("R-PURE", "no hidden state: no `static mut`; the only non-Freeze statics are lazy_static cells whose initialisers are closed terms over literals; value types are "
             "Copy + Freeze; randomness enters only through an explicit RNG parameter; no unsafe code", floor=8, exhaustive=True)
    for s in F.raw["statics"]:
        R.instance()
        if s["mutable"]:
            R.violation("%s:pure:static-mut:%s" % (prop, s["path"]), "mutable static %s" % s["path"])
            continue
        if not s["freeze"]:
            ok = s["ty"].startswith("lazy_static::lazy::Lazy<") and s["path"].endswith("::__stability::LAZY")
            R.check(ok, "%s:pure:static:%s" % (prop, s["path"]), "static %s has interior mutability and is not a lazy_static cell (%s)" % (s["path"], s["ty"]),
                    sample={"static": s["path"].split(" as ")[0][-40:], "cell": s["ty"]} if R.instances % 9 == 1 else None)
        else:
            R.ok()
    # initialisers are closed: no parameters, no reads of other non-lazy state
    for path, sv in repo.static_values().items():
        R.instance()
        t = sv["term"]
        leaves_ok = True
        for sub in walk(t):
            if sub[0] in ("param", "init", "unknown", "cycle"):
                leaves_ok = False
        R.check(leaves_ok, "%s:pure:init:%s" % (prop, path), "initialiser of %s depends on something other than literals / other constants" % path, sample=None)
    for ap in ("crate::Fr", "crate::Fq", "crate::Fq2", "crate::G1", "crate::G2", "crate::Gt", "crate::AffineG1", "crate::AffineG2",
               "crate::fields::fp::Fr", "crate::fields::fp::Fq", "crate::fields::fq2::Fq2", "crate::fields::fq4::Fq4", "crate::fields::fq12::Fq12", "crate::u256::U256"):
        adt = F.adts.get(ap)
        R.instance()
        if adt is None:
            R.fail_closed("%s:pure:type:%s" % (prop, ap), "type %s not found" % ap)
            continue
        R.check(adt.get("copy") is True and adt.get("freeze") is True, "%s:pure:type:%s" % (prop, ap), "%s is not Copy + Freeze (copy=%s freeze=%s)" % (ap, adt.get("copy"), adt.get("freeze")),
                sample={"type": ap, "copy": adt.get("copy"), "freeze": adt.get("freeze")} if ap in ("crate::G1", "crate::Gt") else None)
    # generic group type: fields are P::Base values only
    g = F.adts.get("crate::groups::G")
    R.instance()
    R.check(g is not None and all(f["ty"] == "<P as crate::groups::GroupParams>::Base" for f in g["variants"][0]["fields"]), "%s:pure:type:crate::groups::G" % prop,
            "groups::G has fields other than three base-field coordinates", sample={"type": "groups::G<P>", "fields": [f["ty"] for f in g["variants"][0]["fields"]] if g else None})
    # RNG use needs an explicit generic RNG parameter
    for b in F.fn_bodies():
        uses = [t for _, t in b.calls() if ((t.get("fn") or {}).get("def") or "").startswith("rand")]
        if uses:
            R.instance()
            R.check(bool(b.rec.get("requires_mono")) and any("&mut R" in x or x == "&mut R" for x in (b.rec.get("inputs") or [])), "%s:pure:rng:%s" % (prop, b.rec["path"]),
                    "%s draws randomness without an explicit RNG parameter" % b.rec["path"], b.file_line(), b.rec["path"], sample={"fn": b.rec["path"], "rng_parameter": True})
    R.instance()
    R.check(F.raw.get("lint_unsafe_code") == "Forbid", "%s:pure:unsafe" % prop, "crate does not forbid unsafe code", sample={"forbid(unsafe_code)": True})
    return R.finish()


def rule_zero_cover(prop, repo):
    """is_zero of every tower level is the conjunction of is_zero over *all* coefficients; Fp::is_zero tests the limbs."""
    F = repo.F
    R = Rule("R-ZERO-COVER", "is_zero of Fq2/Fq4/Fq12 holds exactly when every coefficient's is_zero holds (each field covered once, conjunction)", floor=3, exhaustive=True)
    for ty, n in (("crate::fields::fq2::Fq2", 2), ("crate::fields::fq4::Fq4", 2), ("crate::fields::fq12::Fq12", 3)):
        cands = [b for b in F.fn_bodies() if b.rec.get("impl_self_adt") == ty and b.name == "is_zero" and (b.impl_trait or "").endswith("Zero")]
        R.instance()
        if len(cands) != 1:
            R.fail_closed("%s:zero-cover:%s" % (prop, ty), "%s::is_zero not found uniquely" % ty)
            continue
        b = cands[0]
        tb = repo.tb(b)
        atoms = paths.collect_atoms(b, tb)
        fields = {}
        for a in atoms:
            if a[0] == "bool" and a[1][0] == "call" and a[1][1].name == "is_zero":
                x = strip(a[1][2][0])
                if x[0] == "field" and strip(x[1]) in (("init", ("deref", 1)), ("param", 1)):
                    fields.setdefault(x[2], a)
        # the last test may be returned directly instead of branched on
        rv = tb.return_value()
        for x in alts(rv):
            if x[0] == "call" and x[1].name == "is_zero":
                y = strip(x[2][0])
                if y[0] == "field" and strip(y[1]) in (("init", ("deref", 1)), ("param", 1)):
                    fields.setdefault(y[2], ("ret", x))
        covered = sorted(fields)
        ok = covered == list(range(n))
        if ok:
            # conjunction: any branched-on coefficient being non-zero must lead to `false`
            bad = []
            batoms = [a for a in atoms]
            for asg in paths.enumerate_assignments(batoms):
                res = paths.simulate(b, tb, paths.Evaluator(asg))
                v = paths.path_value(b, tb, res.blocks, 0)
                falsy = any(not val for a, val in asg.items())
                if falsy and not (v[0] == "const" and int(v[1].get("int", 1)) == 0) and not (v[0] == "call" and v[1].name == "is_zero" and all(val for val in asg.values())):
                    # allowed: all tested so far true and the remaining coefficient's test returned directly
                    tested_true = all(val for val in asg.values())
                    if not tested_true:
                        bad.append(asg)
            ok = not bad
        R.check(ok, "%s:zero-cover:%s" % (prop, ty), "%s::is_zero tests coefficients %s of %d (each must be tested, conjunctively)" % (ty, covered, n), b.file_line(), b.rec["path"],
                sample={"type": ty.split("::")[-1], "coefficients_tested": covered})
    return R.finish()


# ====================================================================== simple linear maps of the tower / sparse operands
def _comp(t):
    """(ops applied outermost-first, source field index | None, extra argument) of a component term rooted at *self."""
    ops = []
    extra = None
    t = strip(t)
    while t[0] == "call" and t[2]:
        ops.append(t[1].name)
        if len(t[2]) == 2:
            extra = strip(t[2][1])
        t = strip(t[2][0])
    if t[0] == "field" and strip(t[1]) in (("init", ("deref", 1)), ("param", 1)):
        return tuple(ops), t[2], extra
    return tuple(ops), None, extra


def rule_tower_shapes(prop, repo):
    F = repo.F
    R = Rule("R-TOWER-SHAPE", "component-wise / permuting maps of the tower (double, triple, div2, unitary_inverse, mul_by_nonresidue, scale, scale_fq) have their defining shape; "
             "sparse-multiplication helpers only ever receive operands whose ignored components are literally zero", floor=6, exhaustive=True)
    T2, T4, T12 = "crate::fields::fq2::Fq2", "crate::fields::fq4::Fq4", "crate::fields::fq12::Fq12"
    BY = (("param", 2), ("init", ("deref", 2)))
    specs = []
    for ty, n in ((T2, 2), (T4, 2), (T12, 3)):
        for op in ("double", "triple"):
            specs.append(("<%s as crate::fields::FieldElement>::%s" % (ty, op), [((op,), i, None) for i in range(n)]))
    specs += [
        ("%s::div2" % T2, [(("div2",), 0, None), (("div2",), 1, None)]),
        ("%s::unitary_inverse" % T4, [((), 0, None), (("neg",), 1, None)]),
        ("%s::mul_by_nonresidue" % T4, [(("mul_by_nonresidue",), 1, None), ((), 0, None)]),
        ("%s::mul_by_nonresidue" % T12, [(("mul_by_nonresidue",), 2, None), ((), 0, None), ((), 1, None)]),
        ("%s::scale" % T4, [(("mul",), 0, "by"), (("mul",), 1, "by")]),
        ("%s::scale_fq" % T4, [(("scale",), 0, "by"), (("scale",), 1, "by")]),
        ("%s::scale" % T12, [(("mul",), 0, "by"), (("mul",), 1, "by"), (("mul",), 2, "by")]),
    ]
    SELF_ = (("param", 1), ("init", ("deref", 1)))

    def is_double_plus_self(rv):
        rv = strip(rv)
        ok = rv[0] == "call" and rv[1].name == "add" and len(rv[2]) == 2
        if ok:
            a, c = strip(rv[2][0]), strip(rv[2][1])
            if a in SELF_:
                a, c = c, a
            ok = c in SELF_ and a[0] == "call" and a[1].name == "double" and strip(a[2][0]) in SELF_
        return ok
    # a type without a `triple` of its own inherits the trait's provided method: `self.double() + self` for every implementor
    # (its double and its + are judged on their own)
    pb_ = F.bodies.get("crate::fields::FieldElement::triple")
    provided_triple = pb_ is not None and is_double_plus_self(repo.tb(pb_).return_value())
    for path, want in specs:
        b = F.bodies.get(path)
        R.instance()
        if b is None and path.endswith("::triple") and provided_triple:
            R.ok(sample={"fn": path, "inherits": "FieldElement::triple = self.double() + self"} if R.instances % 4 == 1 else None)
            continue
        if b is None:
            R.fail_closed("%s:shape:%s" % (prop, path), "%s not found" % path)
            continue
        rv = repo.tb(b).return_value()
        got = []

        def has_shape(rv, want=want, got=got):
            rv = strip(rv)
            ok = rv[0] == "agg" and len(rv[3]) == len(want)
            del got[:]
            if ok:
                for c, (ops, src, ex) in zip(rv[3], want):
                    o, s, e = _comp(c)
                    got.append((o, s))
                    if o != ops or s != src or (ex == "by" and e not in BY):
                        ok = False
            return ok
        ok = has_shape(rv)
        if not ok:
            g0 = list(got)
            ok, _why = shared.forwards(repo, b, has_shape, "mul" if any(w[2] == "by" for w in want) else "neg")
            got[:] = g0
        if not ok:
            from . import mono
            tyq = next((t_ for t_ in (T2, T4, T12) if t_ in path), None)
            if tyq is not None:
                ok = mono.evaluates_to(F, b, tyq, path.split("::")[-1])
        R.check(ok, "%s:shape:%s" % (prop, path), "%s has components %s; defining shape is %s" % (path, got, [(w[0], w[1]) for w in want]), b.file_line(), path,
                sample={"fn": path.split("::")[-2] + "::" + path.split("::")[-1], "components": [str(g) for g in got]} if R.instances % 4 == 1 else None)
    for ap in repo.fp_types():
        path = "<%s as crate::fields::FieldElement>::triple" % ap
        b = F.bodies.get(path)
        R.instance()
        if b is None and provided_triple:
            R.ok(sample={"fn": path, "inherits": "FieldElement::triple = self.double() + self"})
            continue
        if b is None:
            R.fail_closed("%s:shape:%s" % (prop, path), "%s not found" % path)
            continue
        rv = repo.tb(b).return_value()
        ok = is_double_plus_self(rv)
        R.check(ok, "%s:shape:%s" % (prop, path), "%s is not double(self) + self: %s" % (path, show(rv, maxdepth=3)[:120]), b.file_line(), path, sample={"fn": path, "is": "self.double() + self"})
    # ---- sparse helpers: table of (function, parameter, component path that the function never reads)
    SPARSE = [("%s::mul_1" % T4, 2, (0,), "b.c0 = 0"), ("%s::mul_015" % T12, 2, (1,), "b.c1 = 0"), ("%s::mul_015" % T12, 2, (2, 0), "b.c2.c0 = 0")]

    def zero_shaped(t, path, depth=0):
        """Is component `path` of term t structurally zero?"""
        t = strip(t)
        if depth > 8:
            return False
        if t[0] == "call" and t[1].name == "zero" and not t[2]:
            return True
        # value taken out of an Option / iterator adaptor: look at what produces the elements
        if t[0] == "call" and t[1].name in ("unwrap", "expect", "clone", "cloned", "copied", "unwrap_unchecked") and t[2]:
            return zero_shaped(t[2][0], path, depth + 1)
        if t[0] == "field" and t[2] == 0 and strip(t[1])[0] == "down":
            return zero_shaped(strip(t[1])[1], path, depth + 1)
        if t[0] == "call" and t[1].name == "next" and t[2]:
            return zero_shaped(t[2][0], path, depth + 1)
        if t[0] == "mutcall" and t[1].name == "next":
            return zero_shaped(t[2][t[3]], path, depth + 1)
        if t[0] == "cycle":
            return True          # the iterator itself, one step later (co-inductive; a merge still needs a real producer)
        if t[0] == "phi":
            real = [x for x in t[1] if strip(x)[0] != "cycle"]
            return bool(real) and all(zero_shaped(x, path, depth + 1) for x in real)
        if t[0] == "call" and t[1].name == "map" and len(t[2]) == 2:
            clo = strip(t[2][1])
            if clo[0] == "agg" and isinstance(clo[1], tuple) and clo[1][0] == "closure":
                cbd = F.bodies.get(clo[1][1])
                if cbd is not None:
                    return zero_shaped(repo.tb(cbd).return_value(), path, depth + 1)
            return False
        if not path:
            return False
        if t[0] == "agg" and isinstance(t[1], str) and path[0] < len(t[3]):
            return zero_shaped(t[3][path[0]], path[1:])
        if t[0] == "call" and t[1].name == "new" and path[0] < len(t[2]):
            return zero_shaped(t[2][path[0]], path[1:])
        if t[0] == "call" and len(t[2]) >= 1:
            cb = F.bodies.get(t[1].d)
            if cb is not None:
                crv = repo.tb(cb).return_value()
                if crv[0] in ("agg", "call"):
                    return zero_shaped(crv, path)
        return False

    def reads_component(b, p, path):
        tb = repo.tb(b)
        base = {("param", p), ("init", ("deref", p))}
        for bb, t in list(b.calls()):
            for a in tb.call_args(bb):
                x = strip(a)
                chain = []
                while x[0] == "field":
                    chain.append(x[2])
                    x = strip(x[1])
                if x in base:
                    chain = tuple(reversed(chain))
                    if chain[:len(path)] == path or path[:len(chain)] == chain and len(chain) < len(path) and not _callee_ignores(t, chain, path):
                        return True
        return False

    def _callee_ignores(term, chain, path):
        # passing a super-component on to another sparse helper that ignores the rest
        d = (term.get("fn") or {}).get("res_def")
        rest = path[len(chain):]
        return any(s[0] == d and s[2] == rest for s in SPARSE)

    def tested_zero(cb, bb, x, comp):
        k = shared.peel_param(x)
        if k is None:
            return False
        try:
            rows = shared.path_table(repo, cb, max_atoms=8)
        except Exception:
            rows = None
        if not rows:
            return False
        full = k[1] + tuple(comp)
        hit = False
        for asg, val, res in rows:
            if bb not in res.blocks:
                continue
            hit = True
            facts = shared.algebra_facts(asg, repo)
            if not any(("zero", (k[0], full[:j])) in facts for j in range(len(full) + 1)):
                return False
        return hit

    def lifted_ok(cb, x, comp, depth):
        """`x` is (a projection of) a parameter of `cb`: the requirement moves to every call site of `cb`"""
        k = shared.peel_param(x)
        if k is None or depth > 2 or F.is_exported(cb.rec["path"]):
            return False
        full = tuple(k[1]) + tuple(comp)
        sites2 = 0
        for cb2 in F.fn_bodies():
            tb2 = None
            for bb2, t2 in cb2.calls():
                if (t2.get("fn") or {}).get("res_def") != cb.rec["path"]:
                    continue
                tb2 = tb2 or repo.tb(cb2)
                a2 = strip(tb2.call_args(bb2)[k[0] - 1])
                sites2 += 1
                if not (zero_shaped(a2, full) or tested_zero(cb2, bb2, a2, full) or lifted_ok(cb2, a2, full, depth + 1)):
                    return False
        return sites2 > 0

    lifted = {}
    for path, p, comp, desc in SPARSE:
        b = F.bodies.get(path)
        R.instance()
        if b is None:
            R.fail_closed("%s:sparse:%s" % (prop, path), "%s not found" % path)
            continue
        if reads_component(b, p, comp):
            R.note("%s reads %s: the sparse precondition no longer applies (entry stale, nothing to require)" % (path, desc))
            R.ok()
            continue
        sites = 0
        bad = []
        for cb in F.fn_bodies():
            ctb = None
            for bb, t in cb.calls():
                if (t.get("fn") or {}).get("res_def") != path:
                    continue
                ctb = ctb or repo.tb(cb)
                arg = ctb.call_args(bb)[p - 1]
                sites += 1
                x = strip(arg)
                # forwarded sub-component of the caller's own sparse parameter: covered by the caller's table entry
                chain = []
                y = x
                while y[0] == "field":
                    chain.append(y[2])
                    y = strip(y[1])
                chain = tuple(reversed(chain))
                if y in (("param", 2), ("init", ("deref", 2))) and any(s[0] == cb.rec["path"] and s[2] == chain + comp for s in SPARSE):
                    continue
                if not zero_shaped(x, comp) and tested_zero(cb, bb, x, comp):
                    continue      # the caller reached this call only over the true edge of is_zero() on that very component
                if not zero_shaped(x, comp) and lifted_ok(cb, x, comp, 0):
                    continue      # a thin wrapper handing on (a field of) its own parameter: every caller of the wrapper passes a zero there
                if not zero_shaped(x, comp):
                    bad.append("%s at %s passes %s" % (cb.rec["path"], loc_of(cb, bb), show(x, maxdepth=3)[:100]))
        if sites == 0:
            R.note("%s has no caller any more: nothing to require" % path)
            R.ok()
            continue
        R.check(not bad and sites >= 1, "%s:sparse:%s:%s" % (prop, path, desc), "%s ignores %s of its operand, but a caller passes a value that is not structurally zero there: %s" % (path, desc, bad[:2]),
                b.file_line(), path, sample={"helper": path, "requires": desc, "call_sites": sites})
    return R.finish()
