"""Rules shared by several properties. Each function returns a finished core.report.Rule."""
from core.report import Rule
from core.facts import FactsError
from core.terms import TermBuilder, strip, alts, walk, show, field as tfield
from core.sm9 import Repo, place_types, pointee, literal_u256, U256
from core import paths

ASSUMPTIONS = [
    "rustc's MIR construction and trait resolution (nightly 1.97) and the driver's faithful dump of it",
    "the SM9 parameter / layout tables in sa/tables (transcribed from the standard; derived values recomputed)",
    "contracts of ark_ff::BigInt limb primitives, byteorder and core slice/iterator functions",
    "library target only (--lib, no cfg(test)); both cargo profiles with the repository's own flags",
]


def loc_of(body, bb, idx=None):
    blk = body.blocks[bb]
    if idx is not None and idx < len(blk["stmts"]):
        sp = blk["stmts"][idx]["span"]
    else:
        sp = blk["term"]["span"]
    return fmt_span(sp)


def fmt_span(sp):
    if sp.get("macros") and sp.get("inner_file") and not sp["inner_file"].startswith("/"):
        return "%s:%s (expanded at %s:%s)" % (sp.get("inner_file"), sp.get("inner_line"), sp.get("file"), sp.get("line"))
    return "%s:%s" % (sp.get("file"), sp.get("line"))


# ====================================================================== typing of terms
def type_of_term(F, body, t):
    h = t[0]
    if h == "param":
        return body.locals[t[1]]["ty"]
    if h == "init":
        return pointee(body.locals[t[1][1]]["ty"])
    if h == "deref":
        x = type_of_term(F, body, t[1])
        return pointee(x) if x else None
    if h == "ref":
        x = type_of_term(F, body, t[1])
        return ("&" + x) if x else None
    if h == "call":
        d = body.blocks[t[3]]["term"]["dest"]
        if not d["p"]:
            return body.locals[d["l"]]["ty"]
        return None
    if h == "mutcall":
        a = t[2][t[3]]
        x = type_of_term(F, body, a)
        return pointee(x) if x else None
    if h == "update":
        return type_of_term(F, body, t[1])
    if h == "phi":
        for x in t[1]:
            ty = type_of_term(F, body, x)
            if ty:
                return ty
        return None
    if h == "agg" and isinstance(t[1], str) and t[1] not in ("tuple", "array"):
        return t[1]
    if h == "field":
        x = type_of_term(F, body, t[1])
        if x and x in F.adts:
            fs = F.adts[x]["variants"][0]["fields"]
            if t[2] < len(fs):
                return fs[t[2]]["ty"]
        return None
    if h == "down":
        return type_of_term(F, body, t[1])
    return None


def flag_enum(F, ty):
    """the two variants of a crate-local field-less enum used as a flag, or None"""
    adt = F.adts.get((ty or "").strip())
    if adt and adt.get("kind") == "Enum" and len(adt.get("variants") or []) == 2 and not any(v.get("fields") for v in adt["variants"]):
        return [v["name"] for v in adt["variants"]]
    return None


def flag_true_variant(repo, ty):
    """index of the variant that every `fn(bool) -> ty` of the crate returns for `true` (and the other one for `false`), or None"""
    F = repo.F
    names = flag_enum(F, ty)
    if names is None:
        return None
    got = set()
    for b in F.fn_bodies():
        if (b.rec.get("inputs") or []) != ["bool"] or (b.rec.get("output") or "").strip() != ty.strip():
            continue
        tb = repo.tb(b)
        img = {}
        for val in (0, 1):
            res = paths.simulate(b, tb, paths.Evaluator({("bool", ("param", 1)): val}))
            if res.end != "return":
                return None
            v = strip(paths.path_value(b, tb, res.blocks, 0))
            if v[0] != "agg" or v[2] not in names:
                return None
            img[val] = names.index(v[2])
        if img[0] == img[1]:
            return None
        got.add(img[1])
    return got.pop() if len(got) == 1 else None


# ====================================================================== U256 method classes
CLOSED_II = {
    # name: (modulus param index (1-based local), operands that must already be reduced, one-line reason)
    "sub": (3, ["self", 2], "a-b+p*[a<b] lies in [0,p) when a,b in [0,p)"),
    "neg": (2, ["self"], "p-a lies in (0,p) for a in (0,p); 0 stays 0"),
    "div2": (2, ["self"], "(a + p*[a odd])/2 < p for a < p"),
    "invert": (2, ["self"], "result is one of b, c which are only updated by div2 / sub modulo p"),
}


def classify_u256(repo):
    """Role-based classification of U256 methods that may legitimately produce field limbs.

    returns ({def path: {'class', 'mod', 'needs'}}, primitive def path, rule R-RED-STEP)
    """
    F = repo.F
    R = Rule("R-RED-STEP", "every modular U256 operation reaches its exit only through the conditional subtraction "
             "applied to the value it leaves in *self (must-pass-through)", floor=4)
    methods = [b for b in F.fn_bodies() if b.rec.get("impl_self_adt") == U256 and not b.impl_trait]
    prim = None
    for b in methods:
        ins = b.rec.get("inputs") or []
        # in place (`&mut self`) or by value (`self -> U256`); the carry is a bool or a two-valued flag type of the crate
        if len(ins) == 3 and ins[1] == "&" + U256 and (ins[0] == "&mut " + U256 or (ins[0] == U256 and b.rec.get("output") == U256)) and \
                (ins[2] == "bool" or flag_enum(F, ins[2]) is not None):
            if any(fn.get("name") == "sub_with_borrow" for _, t in b.calls() for fn in [t.get("fn") or {}]):
                if prim is not None:
                    raise FactsError("two candidates for the conditional-subtraction primitive")
                prim = b
    if prim is None:
        raise FactsError("conditional-subtraction primitive (U256, &modulus, carry) not found")
    prim_by_value = (prim.rec.get("inputs") or [""])[0] == U256
    closed = {prim.rec["path"]: {"class": "prim", "mod": 2, "needs": [], "by_value": prim_by_value}}
    # helper functions whose *result* is a value that just went through the conditional subtraction (a phase split off a
    # modular operation): {def path: index of its modulus parameter}
    reduced_fns = {}
    if prim_by_value:
        reduced_fns[prim.rec["path"]] = 2
    for hb in F.fn_bodies():
        if hb.rec.get("output") != U256 or hb is prim:
            continue
        rvh = repo.tb(hb).return_value()
        ks = set()
        okh = True
        for a in alts(rvh):
            v = a
            while v[0] == "field" and v[2] == 0:
                v = v[1]
            if (v[0] == "mutcall" and v[1].d == prim.rec["path"] and v[3] == 0) or (prim_by_value and v[0] == "call" and v[1].d == prim.rec["path"]):
                m = strip(v[2][1])
                if m[0] == "init" and isinstance(m[1], tuple):
                    ks.add(m[1][1])
                elif m[0] == "param":
                    ks.add(m[1])
                else:
                    okh = False
            else:
                okh = False
        if okh and len(ks) == 1:
            reduced_fns[hb.rec["path"]] = ks.pop()
    for b in methods:
        ins = b.rec.get("inputs") or []
        if not ins or ins[0] != "&mut " + U256 or b is prim:
            continue
        tb = repo.tb(b)
        fin = tb.final_value(("deref", 1))
        mods = set()
        ok = True
        for a in alts(fin):
            v = a
            # peel `*self with .0 := X.0`
            while v[0] == "update" and v[2] == (("f", 0),):
                v = v[3]
            while v[0] == "field" and v[2] == 0:
                v = v[1]
            if v[0] == "mutcall" and v[1].d == prim.rec["path"] and v[3] == 0:
                m = strip(v[2][1])
                if m[0] == "init" and isinstance(m[1], tuple):
                    mods.add(m[1][1])
                elif m[0] == "param":
                    mods.add(m[1])
                else:
                    ok = False
            elif v[0] == "call" and v[1].d in reduced_fns and len(v[2]) >= reduced_fns[v[1].d]:
                m = strip(v[2][reduced_fns[v[1].d] - 1])
                if m[0] == "init" and isinstance(m[1], tuple):
                    mods.add(m[1][1])
                elif m[0] == "param":
                    mods.add(m[1])
                else:
                    ok = False
            else:
                ok = False
        if ok and len(mods) == 1:
            k = mods.pop()
            name = b.name
            needs = {"add": ["self", 2], "mul2": ["self"], "square": ["self"], "mul": ["self|2"]}.get(name, ["self"])
            ins_ = b.rec.get("inputs") or []
            cs_ = {(tt.get("fn") or {}).get("name") for _, tt in b.calls()}
            role = ("add" if len(ins_) == 3 and "add_with_carry" in cs_ else "mul" if len(ins_) == 4 and ins_[1] == "&" + U256 else
                    "mul2" if len(ins_) == 2 and "mul2" in cs_ else "square" if len(ins_) == 3 and ins_[2] == "u64" else name)
            needs = {"add": ["self", 2], "mul2": ["self"], "square": ["self"], "mul": ["self|2"]}.get(role, ["self"])
            closed[b.rec["path"]] = {"class": "I", "mod": k, "needs": needs, "role": role}
            R.instance()
            R.ok(sample={"method": b.rec["path"], "modulus_param": b.local_name(k), "exit": "…→ %s(self, %s, carry)" % (prim.name, b.local_name(k))})
    # class II is found by role (signature + characteristic limb primitives), not by name: a rename stays silent
    def callee_names(b):
        return {(t.get("fn") or {}).get("name") for _, t in b.calls()}

    def has_loop(b):
        return any(b.dominates(h, u) for u in b.reachable() for h in b.succ()[u])

    def helper_callees(b):
        out = set()
        f0 = (b.rec.get("span") or {}).get("file")
        for _, t in b.calls():
            cb = F.bodies.get((t.get("fn") or {}).get("res_def") or (t.get("fn") or {}).get("def"))
            if cb is not None and (cb.rec.get("span") or {}).get("file") == f0 and not F.is_exported(cb.rec["path"]):
                out |= callee_names(cb)
        return out
    roles = {
        "sub": lambda b, ins, cs: ins == ["&mut " + U256, "&" + U256, "&" + U256] and {"add_with_carry", "sub_with_borrow"} <= cs and not has_loop(b),
        "neg": lambda b, ins, cs: ins == ["&mut " + U256, "&" + U256] and {"is_zero", "sub_with_borrow"} <= cs and "add_with_carry" not in cs and not has_loop(b),
        "div2": lambda b, ins, cs: ins == ["&mut " + U256, "&" + U256] and ({"is_odd", "is_even"} & cs) and {"add_with_carry", "div2"} <= cs and not has_loop(b),
        # (the halving / subtracting steps may sit in private helpers of the same file: their callees count as the routine's own)
        "invert": lambda b, ins, cs: ins == ["&mut " + U256, "&" + U256, "&" + U256] and has_loop(b) and ({"is_even", "is_odd"} & (cs | helper_callees(b))) and ({"div2"} & (cs | helper_callees(b)) or {"is_one"} & cs),
    }
    for role, (k, needs, reason) in CLOSED_II.items():
        cands = [b for b in methods if b.rec["path"] not in closed and roles[role](b, b.rec.get("inputs") or [], callee_names(b))]
        if len(cands) == 1:
            b = cands[0]
            closed[b.rec["path"]] = {"class": "II", "mod": k, "needs": needs, "reason": reason, "role": role}
            R.assume("%s (role %s)" % (b.rec["path"], role), reason)
        else:
            R.note("class-II role %s matched %d methods" % (role, len(cands)))
    # today's members of class I, confirmed by reading: a rename is tolerated, a method that *stops* ending in
    # the conditional subtraction is not (it would no longer be class I and every Fp write through it is reported)
    return closed, prim, R.finish()


class Reducer:
    """Judgement `Reduced(term, Fp type)`: the term is produced by a reduction-closed operation w.r.t. that type's modulus."""
    def __init__(self, repo, closed):
        self.repo, self.F, self.closed = repo, repo.F, closed
        self.fp = repo.fp_types()
        self.mod_int = {ap: repo.static_int(info["modulus"]) for ap, info in self.fp.items()}

    def reduced(self, body, tb, t, ap, site_bb, why):
        M = self.fp[ap]["modulus"]
        for a in alts(t):
            if not self.reduced1(body, tb, a, ap, M, site_bb, why):
                return False
        return True

    def reduced1(self, body, tb, t, ap, M, site_bb, why):
        h = t[0]
        if h == "update" and t[2] == (("f", 0),):
            return self.reduced(body, tb, t[3], ap, site_bb, why)
        if h == "field" and t[2] == 0:
            ty = type_of_term(self.F, body, t[1])
            if ty == ap:
                return True
            if ty and ty in self.fp:
                why.append("limbs of a %s used for a %s" % (ty, ap))
                return False
        if h == "field" and t[2] == 1 and strip(t[1])[0] == "call" and strip(t[1])[1].name == "divrem":
            c = strip(t[1])
            if self.repo.static_of(c[2][1]) == M:
                return True
            why.append("remainder taken modulo %s, not %s" % (show(c[2][1], maxdepth=2), M))
            return False
        if h == "mutcall":
            return self.judge_mutcall(body, tb, t[1], t[2], t[3], ap, M, site_bb, why)
        if h == "call":
            d = t[1].d
            if d in ("crate::u256::U256::zero", "crate::u256::U256::one"):
                return True
            info = self.closed.get(d)
            if info and info.get("by_value"):
                # the conditional subtraction in its by-value form: the returned value is what the in-place form leaves in *self
                marg = t[2][info["mod"] - 1]
                if self.repo.static_of(marg) == M:
                    return True
                why.append("%s applied with modulus %s, but the type's modulus is %s" % (t[1].name, show(marg, maxdepth=3), M))
                return False
            if d == "crate::u256::U256::random":
                if self.repo.static_of(t[2][1]) == M:
                    return True
                why.append("random modulo another modulus")
                return False
        st = self.repo.static_of(t)
        if st is not None:
            v = self.repo.static_values().get(st, {}).get("int")
            if v is not None and v < self.mod_int[ap]:
                return True
            why.append("static %s is not a literal below the modulus" % st)
            return False
        lit = literal_u256(t)
        if lit is not None:
            if lit < self.mod_int[ap]:
                return True
            why.append("literal %#x is not below the modulus" % lit)
            return False
        # a raw value on an edge on which `value < MODULUS` holds (either spelling of the comparison, either polarity), or on
        # the edge on which it tested zero
        if self.guarded_below(body, tb, t, M, site_bb):
            return True
        why.append("value %s is not produced by a reduction-closed operation" % show(t, maxdepth=4)[:200])
        return False

    def guarded_below(self, body, tb, t, M, site_bb):
        for bi in sorted(body.reachable()):
            term = body.blocks[bi]["term"]
            if term["k"] != "switch":
                continue
            d = tb.operand(term["discr"], bi, len(body.blocks[bi]["stmts"]))
            neg = False
            while d[0] == "unop" and d[1] == "Not":
                d = d[2]
                neg = not neg
            if d[0] != "call" or not d[2]:
                continue
            want = None       # value of the (un-negated) call result on the edge where t < M / t == 0 holds
            if d[1].name in ("lt", "le", "gt", "ge") and len(d[2]) == 2:
                a, b = strip(d[2][0]), strip(d[2][1])
                if a == t and self.repo.static_of(d[2][1]) == M:
                    want = {"lt": 1, "ge": 0}.get(d[1].name)
                elif b == t and self.repo.static_of(d[2][0]) == M:
                    want = {"gt": 1, "le": 0}.get(d[1].name)
            elif d[1].name == "is_zero" and len(d[2]) == 1 and strip(d[2][0]) == t:
                want = 1
            if want is None:
                continue
            if neg:
                want = 1 - want
            tgt = None
            for val, tg in term["arms"]:
                if int(val) == want:
                    tgt = tg
            if tgt is None and not any(int(v) == want for v, _ in term["arms"]):
                tgt = term["otherwise"]
            if tgt is not None and body.pred()[tgt] == [bi] and body.dominates(tgt, site_bb):
                return True
        return False

    def judge_mutcall(self, body, tb, fn, args, argpos, ap, M, site_bb, why):
        d = fn.d
        info = self.closed.get(d)
        if info is None:
            why.append("limbs handed by &mut to %s, which is not reduction-closed" % fn.i)
            return False
        if argpos != 0:
            why.append("limbs handed to %s as argument %d (not the receiver)" % (fn.i, argpos))
            return False
        marg = args[info["mod"] - 1]
        if self.repo.static_of(marg) != M:
            why.append("%s applied with modulus %s, but the type's modulus is %s" % (fn.name, show(marg, maxdepth=3), M))
            return False
        for need in info["needs"]:
            if need == "self":
                prev = strip(args[0])
                if not self.reduced(body, tb, prev, ap, site_bb, why):
                    return False
            elif need == "self|2":
                w1, w2 = [], []
                if not (self.reduced(body, tb, strip(args[0]), ap, site_bb, w1) or self.reduced(body, tb, strip(args[1]), ap, site_bb, w2)):
                    why.append("neither operand of %s is known reduced (%s; %s)" % (fn.name, "; ".join(w1[:1]), "; ".join(w2[:1])))
                    return False
            else:
                if not self.reduced(body, tb, strip(args[need - 1]), ap, site_bb, why):
                    return False
        return True


# ====================================================================== R-RED
def rule_red(repo, closed=None):
    F = repo.F
    fp = repo.fp_types()
    if closed is None:
        closed, prim, _ = classify_u256(repo)
    R = Rule("R-RED", "every write to the limbs of a prime-field element is by a reduction-closed operation against "
             "the type's own modulus (typestate Reduced)", floor=10)
    mod_int = {ap: repo.static_int(info["modulus"]) for ap, info in fp.items()}

    def crosses(body, place):
        ts = place_types(body, place)
        for i, e in enumerate(place["p"]):
            if isinstance(e, dict) and e.get("f") == 0 and ts[i] in fp:
                return ts[i]
        return None

    red = Reducer(repo, closed)
    reduced = red.reduced
    judge_mutcall = red.judge_mutcall

    for b in F.fn_bodies():
        tb = None
        for bi in sorted(b.reachable()):
            blk = b.blocks[bi]
            for si, st in enumerate(blk["stmts"]):
                if st["k"] != "assign":
                    continue
                rv = st["rv"]
                # (a) construction of an Fp value
                if rv["k"] == "aggregate" and rv.get("agg") == "adt" and rv["adt"] in fp:
                    tb = tb or repo.tb(b)
                    R.instance()
                    val = tb.operand(rv["ops"][0], bi, si)
                    why = []
                    key = "C07:unreduced-write:%s→construct %s" % (b.rec["path"], rv["adt"].split("::")[-1])
                    R.check(reduced(b, tb, val, rv["adt"], bi, why), key,
                            "Fp value built from limbs that are not shown reduced: %s" % "; ".join(why[:2]),
                            loc_of(b, bi, si), b.rec["path"],
                            sample={"site": loc_of(b, bi, si), "fn": b.rec["path"], "limbs": show(val, maxdepth=3)[:160]})
                # (b) direct store into the limb field
                ap = crosses(b, st["place"])
                if ap:
                    tb = tb or repo.tb(b)
                    R.instance()
                    val = tb.rvalue(rv, bi, si)
                    why = []
                    exact = st["place"]["p"] and st["place"]["p"][-1] == {"f": 0, "ty": U256} or (st["place"]["p"][-1].get("f") == 0 if isinstance(st["place"]["p"][-1], dict) else False)
                    key = "C07:unreduced-write:%s→store" % b.rec["path"]
                    if not exact:
                        R.violation(key, "a part of the limbs of a %s is overwritten in place" % ap, loc_of(b, bi, si), b.rec["path"])
                    else:
                        R.check(reduced(b, tb, val, ap, bi, why), key, "limb field assigned a value not shown reduced: %s" % "; ".join(why[:2]),
                                loc_of(b, bi, si), b.rec["path"])
                # (c) &mut to (part of) the limb field
                if rv["k"] in ("ref", "rawptr") and rv.get("mut", True):
                    ap = crosses(b, rv["place"])
                    if ap and not st["place"]["p"]:
                        tb = tb or repo.tb(b)
                        R.instance()
                        uses = mutref_uses(b, st["place"]["l"])
                        key_base = "C07:unreduced-write:%s→" % b.rec["path"]
                        if not uses["calls"] or uses["escapes"]:
                            R.violation(key_base + "escaping-&mut-limbs", "a mutable reference to the limbs of a %s escapes (%s)" % (ap, ", ".join(uses["escapes"]) or "unused"),
                                        loc_of(b, bi, si), b.rec["path"])
                        exact_field = isinstance(rv["place"]["p"][-1], dict) and rv["place"]["p"][-1].get("f") == 0 and place_types(b, rv["place"])[-2] == ap
                        for (cbb, argpos, term) in uses["calls"]:
                            fn = term.get("fn") or {}
                            args = tb.call_args(cbb)
                            from core.terms import _fnkey
                            fk = _fnkey(term.get("fn"), term)
                            why = []
                            key = key_base + (fk.d or "indirect")
                            if not exact_field:
                                R.violation(key, "a mutable reference *into* the limbs of a %s is handed to %s" % (ap, fk.i), loc_of(b, cbb), b.rec["path"])
                                continue
                            R.check(judge_mutcall(b, tb, fk, args, argpos, ap, fp[ap]["modulus"], cbb, why), key,
                                    "limbs of a %s mutated in place by %s: %s" % (ap.split("::")[-1], fk.i, "; ".join(why[:2])),
                                    loc_of(b, cbb), b.rec["path"],
                                    sample={"site": loc_of(b, cbb), "fn": b.rec["path"], "op": fk.i})
            t = blk["term"]
            if t["k"] == "call":
                ap = crosses(b, t["dest"])
                if ap:
                    tb = tb or repo.tb(b)
                    R.instance()
                    val = tb._call_term(t, bi)
                    why = []
                    R.check(reduced(b, tb, val, ap, bi, why), "C07:unreduced-write:%s→store-call" % b.rec["path"],
                            "limb field assigned a call result not shown reduced: %s" % "; ".join(why[:2]), loc_of(b, bi), b.rec["path"])
    return R.finish()


def mutref_uses(body, tmp):
    """Where does a `&mut` temporary go? calls: (bb, argpos, term); escapes: descriptions."""
    calls, escapes = [], []
    seen = set()
    work = [tmp]
    while work:
        cur = work.pop()
        if cur in seen:
            continue
        seen.add(cur)
        if cur == 0:
            escapes.append("returned")
            continue
        for bi in sorted(body.reachable()):
            blk = body.blocks[bi]
            for si, st in enumerate(blk["stmts"]):
                if st["k"] != "assign":
                    continue
                rv = st["rv"]
                used = False
                if rv["k"] in ("use", "cast") and rv["op"].get("k") in ("copy", "move") and rv["op"]["place"]["l"] == cur and not rv["op"]["place"]["p"]:
                    used = True
                    if st["place"]["p"]:
                        escapes.append("stored at %s" % loc_of(body, bi, si))
                    else:
                        work.append(st["place"]["l"])
                elif rv["k"] in ("ref", "rawptr") and rv["place"]["l"] == cur and rv["place"]["p"][:1] == ["deref"]:
                    if not st["place"]["p"]:
                        if len(rv["place"]["p"]) == 1:
                            work.append(st["place"]["l"])
                        else:
                            escapes.append("reborrowed into a part at %s" % loc_of(body, bi, si))
                elif rv["k"] == "aggregate":
                    for op in rv["ops"]:
                        if op.get("k") in ("copy", "move") and op["place"]["l"] == cur:
                            escapes.append("captured at %s" % loc_of(body, bi, si))
                if st["place"]["l"] == cur and st["place"]["p"][:1] == ["deref"]:
                    escapes.append("written through at %s" % loc_of(body, bi, si))
            t = blk["term"]
            if t["k"] == "call":
                for ai, a in enumerate(t["args"]):
                    if a.get("k") in ("copy", "move") and a["place"]["l"] == cur and not a["place"]["p"]:
                        calls.append((bi, ai, t))
    return {"calls": calls, "escapes": escapes}


# ====================================================================== R-GUARD (ordering-domain truth tables)
def truth_table(repo, body, spec_effect, effect_name):
    """Simulate `body` over all assignments of its branch atoms; return [(assignment, effect_happened, end)]."""
    tb = repo.tb(body)
    atoms = paths.collect_atoms(body, tb)
    rows = []
    for asg in paths.enumerate_assignments(atoms):
        res = paths.simulate(body, tb, paths.Evaluator(asg))
        rows.append((asg, res))
    return atoms, rows


def rule_guard(repo):
    """Polarity of every modulus-boundary comparison (C06/C07), as exact iff-rules over a finite domain."""
    F = repo.F
    R = Rule("R-GUARD", "modulus-boundary comparisons have the specified truth table over the ordering domain "
             "{Less,Equal,Greater} x booleans", floor=5, exhaustive=True)
    closed, prim, _ = classify_u256(repo)

    def run(body, describe, spec, key, effect):
        tb = repo.tb(body)
        atoms = paths.collect_atoms(body, tb)
        R.instance()
        bad = []
        n = 0
        table = []
        for asg in paths.enumerate_assignments(atoms):
            if not consistent(asg):
                continue
            res = paths.simulate(body, tb, paths.Evaluator(asg))
            if res.end.startswith("unknown") or res.end == "loop":
                R.fail_closed(key + ":shape", "cannot evaluate %s over the finite domain (%s)" % (body.rec["path"], res.end), body.file_line())
                return
            n += 1
            got = effect(res, asg, tb)
            want = spec(asg, atoms)
            table.append({"assignment": {show_atom(a): v for a, v in asg.items()}, "effect": got})
            if got != want:
                bad.append(({show_atom(a): v for a, v in asg.items()}, got, want))
        R.check(not bad, key, "%s: truth table differs from the specification: %s" % (describe, bad[:3]), body.file_line(), body.rec["path"],
                sample={"fn": body.rec["path"], "rule": describe, "rows": n, "table": table[:6]})

    def show_atom(a):
        if a[0] == "ord":
            return "cmp(%s,%s)" % (show(a[1], maxdepth=2), show(a[2], maxdepth=2))
        return show(a[1], maxdepth=2)

    def base(t):
        t = strip(t)
        while t[0] == "field" and t[2] == 0:
            t = strip(t[1])
        return t

    def consistent(asg):
        """nothing is smaller than a value that tested zero: drop the rows an `is_zero` answer contradicts"""
        zeros = [base(a[1][2][0]) for a, v in asg.items() if v == 1 and a[0] == "bool" and a[1][0] == "call" and a[1][1].name == "is_zero" and len(a[1][2]) == 1]
        for a, v in asg.items():
            if a[0] == "ord":
                if v == "L" and base(a[2]) in zeros:
                    return False
                if v == "G" and base(a[1]) in zeros:
                    return False
        return True

    def ord_atom(atoms, lhs_pred, rhs_pred):
        for a in atoms:
            if a[0] == "ord" and lhs_pred(a[1]) and rhs_pred(a[2]):
                return a, False
            if a[0] == "ord" and lhs_pred(a[2]) and rhs_pred(a[1]):
                return a, True
        return None, False

    def is_self0(t):
        return t == ("field", ("init", ("deref", 1)), 0) or t == ("init", ("deref", 1))

    def is_par0(k):
        return lambda t: t == ("field", ("init", ("deref", k)), 0) or t == ("init", ("deref", k)) or t == ("param", k)

    def flip(o):
        return {"L": "G", "G": "L", "E": "E"}[o]

    # 1. the primitive: subtract iff carry or self >= modulo
    by_value = closed[prim.rec["path"]].get("by_value")
    is_self_v = (lambda t: t == ("field", ("param", 1), 0) or t == ("param", 1)) if by_value else is_self0
    carry_ty = (prim.rec.get("inputs") or ["", "", "bool"])[2]
    carry_set = 1
    if carry_ty != "bool":
        # a flag type instead of bool: the variant that means "carried" is the one the crate's own bool → flag conversions give
        # for `true` (they must all agree); without such a conversion the variants' meaning is not readable from the code
        carry_set = flag_true_variant(repo, carry_ty)

    def spec_prim(asg, atoms):
        a, rev = ord_atom(atoms, is_self_v, is_par0(2))
        carry = asg.get(("bool", ("param", 3))) if carry_ty == "bool" else asg.get(("discr", ("param", 3)))
        if a is None or carry is None or carry_set is None:
            return "?"
        o = flip(asg[a]) if rev else asg[a]
        return carry == carry_set or o != "L"

    def eff_prim(res, asg, tb):
        # what *self ends up as (by value: what is returned): untouched, or the result of one subtraction of the modulus (in place,
        # or tried on a copy and kept)
        v = strip(paths.path_value(prim, tb, res.blocks, 0 if by_value else ("deref", 1)))
        if by_value and v[0] == "phi":
            # `self` handed back: what the (mutable) parameter holds at the end of this path
            v = strip(paths.path_value(prim, tb, res.blocks, 1))
            if v[0] == "phi":
                return "?"
        if v == (("param", 1) if by_value else ("init", ("deref", 1))):
            return False
        return any(x[0] == "mutcall" and x[1].name == "sub_with_borrow" for x in walk(v))
    run(prim, "conditional subtraction: subtract ⇔ carry ∨ self ≥ modulus", spec_prim,
        "C06:guard:%s" % prim.rec["path"], eff_prim)

    # 2. modular subtraction (found by role): add the modulus iff self < other
    role_of = {p: i.get("role") for p, i in closed.items()}
    for b in F.fn_bodies():
        if role_of.get(b.rec["path"]) == "sub":
            def spec_sub(asg, atoms):
                a, rev = ord_atom(atoms, is_self0, is_par0(2))
                if a is None:
                    return "?"
                o = flip(asg[a]) if rev else asg[a]
                return o == "L"
            run(b, "modular subtraction: add modulus ⇔ self < other", spec_sub, "C06:guard:%s" % b.rec["path"],
                lambda res, asg, tb: bool(res.called(lambda f: f.name == "add_with_carry")))
        # 3. neg: p - a iff a != 0
        if role_of.get(b.rec["path"]) == "neg":
            def spec_neg(asg, atoms):
                for a in atoms:
                    if a[0] == "bool" and a[1][0] == "call" and a[1][1].name == "is_zero":
                        return not asg[a]
                return "?"
            run(b, "negation: p − a ⇔ a ≠ 0", spec_neg, "C06:guard:%s" % b.rec["path"],
                lambda res, asg, tb: bool(res.called(lambda f: f.name == "sub_with_borrow")))
    # 4. Fp::new: Some iff a < modulus   (per field type)
    for ap, info in repo.fp_types().items():
        b = info["new"]

        def spec_new(asg, atoms, M=info["modulus"]):
            for a in atoms:
                if a[0] == "ord" and a[1] == ("param", 1) and repo.static_of(a[2]) == M:
                    return asg[a] == "L"
                if a[0] == "ord" and a[2] == ("param", 1) and repo.static_of(a[1]) == M:
                    return asg[a] == "G"
            return "?"

        def eff_new(res, asg, tb, b=b):
            v = paths.path_value(b, tb, res.blocks, 0)
            return any(x[0] == "agg" and x[2] == "Some" for x in alts(v)) and not any(x[0] == "agg" and x[2] == "None" for x in alts(v))
        run(b, "%s::new: Some ⇔ value < modulus" % ap.split("::")[-1], spec_new, "C06:guard:%s" % b.rec["path"], eff_new)
    return R.finish()


# ====================================================================== R-EQ-DERIVED
def rule_eq_derived(repo, adts):
    F = repo.F
    R = Rule("R-EQ-DERIVED", "`==` on these types is the compiler-derived field-wise comparison (covers every limb)", floor=len(adts))
    for ap in adts:
        imps = [i for i in F.impls if i.get("self_adt") == ap and i.get("trait") == "core::cmp::PartialEq" and i["self_ty"] == ap]
        R.instance()
        if not imps:
            R.fail_closed("eq:%s:missing" % ap, "no PartialEq impl for %s" % ap)
            continue
        imp = imps[0]
        if imp["derived"]:
            R.ok(sample={"type": ap, "impl": "derive(PartialEq)", "fields": [f["name"] for f in F.adts[ap]["variants"][0]["fields"]] if ap in F.adts else None})
            continue
        # hand-written: accepted only when it is recognisably the conjunction of `==` over every field (truth table);
        # anything else (byte loops, folds, …) fails closed with the idiom named — an unrecognised == cannot be certified
        eqs = [F.bodies.get(p) for p in imp["items"] if p.endswith("::eq")]
        nfields = len(F.adts[ap]["variants"][0]["fields"])
        ok = False
        why = "no eq body"
        for b in eqs:
            if b is None:
                continue
            tb = repo.tb(b)
            atoms = paths.collect_atoms(b, tb)
            fld = {}
            for a in atoms:
                x = y = None
                if a[0] == "ord":
                    x, y = a[1], a[2]
                elif a[0] == "bool" and a[1][0] == "call" and a[1][1].name in ("eq", "ne") and len(a[1][2]) == 2:
                    x, y = strip(a[1][2][0]), strip(a[1][2][1])
                if x is not None and x[0] == "field" and y[0] == "field" and x[2] == y[2] and strip(x[1]) in (("init", ("deref", 1)), ("param", 1)) and strip(y[1]) in (("init", ("deref", 2)), ("param", 2)):
                    fld[x[2]] = a
            rv = tb.return_value()
            for x in alts(rv):
                if x[0] == "call" and x[1].name in ("eq",) and len(x[2]) == 2:
                    l, r_ = strip(x[2][0]), strip(x[2][1])
                    if l[0] == "field" and r_[0] == "field" and l[2] == r_[2]:
                        fld.setdefault(l[2], ("ret",))
            loops = any(b.dominates(h, u) for u in b.reachable() for h in b.succ()[u])
            if sorted(fld) == list(range(nfields)) and not loops and len(atoms) <= nfields:
                ok = True
            else:
                why = "compares fields %s of %d%s" % (sorted(fld), nfields, ", contains a loop" if loops else "")
        R.check(ok, "eq:%s:hand-written" % ap, "hand-written == for %s is not recognisably the field-wise conjunction (%s)" % (ap, why),
                sample={"type": ap, "impl": "hand-written field-wise conjunction"})
    return R.finish()


# ====================================================================== R-EQ-READS
def _places(o, out):
    if isinstance(o, dict):
        if "l" in o and "p" in o and isinstance(o.get("p"), list):
            out.append(o)
        for v in o.values():
            _places(v, out)
    elif isinstance(o, list):
        for v in o:
            _places(v, out)
    return out


def rule_eq_reads(prop, repo, adts):
    """necessary condition for value equality of a hand-written `==`: a comparison that never reads some field of one of its operands
    cannot separate two values that differ in that field only.  Decided on the MIR places of the eq body: each (operand, field) must
    occur as a projection of the operand, unless the operand is handed on as a whole (then the reader is elsewhere: not judged)."""
    F = repo.F
    R = Rule("R-EQ-READS", "a hand-written `==` reads every field of both operands (a field it ignores is a pair of different values it calls equal)", floor=len(adts))
    for ap in adts:
        imps = [i for i in F.impls if i.get("self_adt") == ap and i.get("trait") == "core::cmp::PartialEq" and i["self_ty"].split("<")[0] == ap]
        if not imps:
            R.instance()
            R.fail_closed("%s:eq-reads:%s:missing" % (prop, ap), "no PartialEq impl for %s" % ap)
            continue
        for imp in imps:
            R.instance()
            if imp["derived"]:
                R.ok(sample={"type": ap, "impl": "derive(PartialEq)"})
                continue
            fields = F.adts[ap]["variants"][0]["fields"] if ap in F.adts else []
            bs = [F.bodies.get(q) for q in imp["items"] if q.endswith("::eq")]
            bs = [b for b in bs if b is not None]
            if not bs or not fields:
                R.fail_closed("%s:eq-reads:%s:anchor" % (prop, ap), "eq body or field list of %s not found" % ap)
                continue
            b = bs[0]
            read, whole = set(), set()
            for pl in _places(b.rec["mir"]["blocks"], []):
                if pl["l"] not in (1, 2):
                    continue
                proj = [x for x in pl["p"] if x != "deref"]
                if proj and isinstance(proj[0], dict) and "f" in proj[0]:
                    read.add((pl["l"], proj[0]["f"]))
                elif not proj:
                    whole.add(pl["l"])
            missing = [("self" if o == 1 else "other", fields[k]["name"]) for o in (1, 2) for k in range(len(fields)) if (o, k) not in read and o not in whole]
            R.check(not missing, "%s:eq-reads:%s" % (prop, ap), "== of %s never reads %s" % (ap, ", ".join("%s.%s" % m for m in missing)), b.file_line(), b.rec["path"],
                    sample={"type": ap, "fields_read_of_each_operand": [f["name"] for f in fields]})
    return R.finish()


# ====================================================================== R-ENCAPS
def rule_encaps(repo):
    F = repo.F
    R = Rule("R-ENCAPS", "limbs are unreachable from outside the crate: no unsafe code, limb fields not public", floor=5)
    R.instance()
    R.check(F.raw.get("lint_unsafe_code") == "Forbid", "encaps:forbid-unsafe", "crate does not forbid(unsafe_code) (level %s)" % F.raw.get("lint_unsafe_code"),
            sample={"lint": "unsafe_code", "level": F.raw.get("lint_unsafe_code")})
    limb_types = list(repo.fp_types()) + [U256, "crate::u512::U512"]
    for ap in limb_types:
        adt = F.adts.get(ap)
        if not adt:
            R.fail_closed("encaps:%s" % ap, "ADT %s missing" % ap)
            continue
        for f in adt["variants"][0]["fields"]:
            R.instance()
            R.check(f["vis"] != "Public", "encaps:%s.%s" % (ap, f["name"]), "field %s.%s is `pub`: limbs writable from outside" % (ap, f["name"]),
                    sample={"field": "%s.%s" % (ap, f["name"]), "vis": f["vis"]})
    return R.finish()


# ====================================================================== R-RNG
def rule_rng(repo):
    F = repo.F
    R = Rule("R-RNG", "random field elements are the remainder of a 512-bit draw by the caller's modulus; no function draws from the RNG inside a loop whose exit depends on "
             "what was drawn (no rejection sampling: constant RNG streams are in the quantifier)", floor=6)
    b = F.bodies.get("crate::u256::U256::random")
    if b is None:
        R.fail_closed("rng:anchor", "U256::random not found")
        return R.finish()
    R.instance()
    rv = repo.tb(b).return_value()
    ok = False
    if rv[0] == "field" and rv[2] == 1:
        c = strip(rv[1])
        if c[0] == "call" and c[1].name == "divrem":
            src = strip(c[2][0])
            m = strip(c[2][1])
            ok = src[0] == "call" and src[1].d == "crate::u512::U512::random" and m in (("param", 2), ("init", ("deref", 2)))
    R.check(ok, "rng:U256::random", "U256::random is not `U512::random(rng).divrem(modulo).1`: %s" % show(rv, maxdepth=4)[:200], b.file_line(), b.rec["path"],
            sample={"fn": b.rec["path"], "returns": show(rv, maxdepth=4)[:200]})
    # no rejection sampling: a loop that draws from the RNG may be left only because a counter / iterator ran out, never because of
    # what was drawn — with a constant RNG stream (the statement quantifies over those) a redraw-until loop never ends
    def draws(t):
        d = (t.get("fn") or {}).get("res_def") or (t.get("fn") or {}).get("def") or ""
        return "rand::Rng" in d or "RngCore" in d or d.startswith(("rand::", "rand_core::"))
    drawing = set()
    changed = True
    while changed:
        changed = False
        for fb in F.fn_bodies():
            if fb.rec["path"] in drawing:
                continue
            for _, t in fb.calls():
                d = (t.get("fn") or {}).get("res_def") or (t.get("fn") or {}).get("def")
                if draws(t) or d in drawing:
                    drawing.add(fb.rec["path"])
                    changed = True
                    break
    for path in sorted(drawing):
        fb = F.bodies[path]
        R.instance()
        succ = fb.succ()
        bad = None
        for u in sorted(fb.reachable()):
            for h in succ[u]:
                if not fb.dominates(h, u):
                    continue
                # natural loop of the back edge u → h
                loop, todo = {h}, [u]
                while todo:
                    x = todo.pop()
                    if x in loop:
                        continue
                    loop.add(x)
                    todo.extend(fb.pred()[x])
                if not any(fb.blocks[x]["term"]["k"] == "call" and (draws(fb.blocks[x]["term"]) or ((fb.blocks[x]["term"].get("fn") or {}).get("res_def") or (fb.blocks[x]["term"].get("fn") or {}).get("def")) in drawing)
                           for x in loop):
                    continue
                tb = None
                for x in sorted(loop):
                    outs = [y for y in succ[x] if y not in loop]
                    t = fb.blocks[x]["term"]
                    if not outs or t["k"] != "switch":
                        continue          # (a call's unwind / a return inside the loop is an exit too, but returns are handled below)
                    tb = tb or repo.tb(fb)
                    dsc = strip(tb.operand(t["discr"], x, len(fb.blocks[x]["stmts"])))
                    inner = strip(dsc[1]) if dsc[0] == "discr" else dsc
                    if not (inner[0] in ("call", "mutcall") and inner[1].name == "next" and "Iterator" in (inner[1].get("trait") or inner[1].i)):
                        bad = "the loop at block %d is left on a test of %s" % (h, show(dsc, maxdepth=3)[:80])
                # a `return` inside the loop: leaving because of a drawn value
                if bad is None and any(fb.blocks[x]["term"]["k"] == "return" for x in loop):
                    bad = "the loop at block %d returns from inside" % h
        R.check(bad is None, "rng:no-rejection:%s" % path, "%s draws from the RNG inside a loop whose exit depends on what was drawn (%s): a constant RNG stream never leaves it" % (path, bad),
                fb.file_line(), path, sample={"fn": path, "loops_with_draws": "none, or left only when a counter / iterator runs out"} if R.discharged % 4 == 0 else None)
    return R.finish()


def is_canon_conv(t, ap):
    """Is term `t` the Montgomery→canonical conversion U256::from(x) / x.into() of a value of prime-field type `ap`? Returns x or None."""
    t = strip(t)
    if t[0] != "call" or len(t[2]) != 1 or t[1].name not in ("from", "into"):
        return None
    s = t[1].i + " " + (t[1].get("inst") or "")
    if ("From<%s> for crate::u256::U256" % ap) in s or ("%s as core::convert::Into<crate::u256::U256>" % ap) in s:
        return strip(t[2][0])
    return None


# ====================================================================== forwarding wrappers with algebraic fast paths
def peel_param(t):
    """(param index, field path) if the term is (a projection of) a parameter or of the memory behind one."""
    t = strip(t)
    path = []
    while t[0] == "field":
        path.append(t[2])
        t = strip(t[1])
    if t[0] == "param":
        return (t[1], tuple(reversed(path)))
    if t[0] == "init" and isinstance(t[1], tuple) and t[1][0] == "deref":
        return (t[1][1], tuple(reversed(path)))
    return None


def path_table(repo, b, root=0, max_atoms=6):
    """Loop-free body: [(assignment of its branch atoms, value of `root` at the return, PathResult)], panicking rows
    dropped; None when some row cannot be followed to a return."""
    from core import paths
    tb = repo.tb(b)
    atoms = paths.collect_atoms(b, tb)
    if len(atoms) > max_atoms:
        return None
    rows = []
    seen = set()
    for asg in paths.enumerate_assignments(atoms):
        res = paths.simulate(b, tb, paths.Evaluator(asg))
        if res.end == "diverge":
            continue
        if res.end != "return":
            return None
        key = tuple(res.blocks)
        # only the atoms actually consulted on this path matter
        val = paths.path_value(b, tb, res.blocks, root)
        used = {}
        for a, v in asg.items():
            used[a] = v
        if (key, tuple(sorted((repr(a), v) for a, v in used.items()))) in seen:
            continue
        seen.add((key, tuple(sorted((repr(a), v) for a, v in used.items()))))
        rows.append((asg, val, res))
    return rows


_PRED_FACTS = {}


def predicate_facts(repo, cb):
    """What a crate-local boolean helper of one operand guarantees when it answers true: the operand facts common to all of its
    true-returning paths (`fn is_sparse(x) -> bool { x.c1.is_zero() && x.c2.c0.is_zero() }` → {zero x.c1, zero x.c2.c0}); None when
    it cannot be read."""
    key = cb.rec["path"]
    if key in _PRED_FACTS:
        return _PRED_FACTS[key]
    _PRED_FACTS[key] = None
    if (cb.rec.get("output") or "").strip() != "bool" or len(cb.rec.get("inputs") or []) != 1:
        return None
    try:
        rows = path_table(repo, cb, max_atoms=6)
    except Exception:
        rows = None
    if not rows:
        return None
    common = None
    for asg, val, res in rows:
        v = strip(val)
        fs = set(algebra_facts(asg))
        if v[0] == "const":
            try:
                truth = int(v[1].get("int", 0)) != 0
            except Exception:
                return None
            if not truth:
                continue
        elif v[0] == "call" and v[1].name in ("is_zero", "is_one") and len(v[2]) == 1 and peel_param(v[2][0]) is not None:
            fs.add(("zero" if v[1].name == "is_zero" else "one", peel_param(v[2][0])))     # the last conjunct, returned directly
        else:
            return None
        if ("other",) in fs:
            return None
        common = fs if common is None else (common & fs)
    _PRED_FACTS[key] = common
    return common


def algebra_facts(asg, repo=None):
    """What an assignment of branch atoms says about the operands: {('zero'|'one', (param, proj))}; plus 'other' when an
    atom it cannot read is true."""
    facts = set()
    for atom, val in asg.items():
        if repo is not None and atom[0] == "bool" and isinstance(atom[1], tuple) and atom[1][0] == "call" and len(atom[1][2]) == 1 and atom[1][1].name not in ("is_zero", "is_one"):
            cb = repo.F.bodies.get(atom[1][1].d)
            k = peel_param(atom[1][2][0])
            pf = predicate_facts(repo, cb) if cb is not None and k is not None else None
            if pf is not None:
                if val == 1:
                    for kind, (pi, proj) in [f for f in pf if f[0] in ("zero", "one")]:
                        facts.add((kind, (k[0], k[1] + tuple(proj))))
                    if not pf:
                        facts.add(("other",))
                continue
        if atom[0] == "bool" and isinstance(atom[1], tuple) and atom[1][0] == "call" and atom[1][1].name in ("is_zero", "is_one") and len(atom[1][2]) == 1:
            k = peel_param(atom[1][2][0])
            if val == 1 and k is not None:
                facts.add(("zero" if atom[1][1].name == "is_zero" else "one", k))
            elif val == 1:
                facts.add(("other",))
            continue
        if atom[0] == "ord":
            a, b = atom[1], atom[2]
            hit = False
            for x, y in ((a, b), (b, a)):
                y = strip(y)
                if y[0] == "call" and not y[2] and y[1].name in ("one", "zero"):
                    k = peel_param(x)
                    if k is not None:
                        hit = True
                        if val == "E":
                            facts.add((y[1].name, k))
            if not hit:
                ka, kb = peel_param(a), peel_param(b)
                if ka is not None and kb is not None and ka[0] != kb[0]:
                    hit = True
                    if val == "E":
                        facts.add(("eq", min(ka, kb), max(ka, kb)))
            if not hit and val == "E":
                facts.add(("other",))
            continue
        if val in (1, "E"):
            facts.add(("other",))
    return facts


def classify_value(v):
    v = strip(v)
    if v[0] == "call" and not v[2] and v[1].name in ("zero", "one"):
        return v[1].name.upper()
    k = peel_param(v)
    if k is not None:
        return ("arg",) + k
    if v[0] == "agg" and v[1] == "core::option::Option":
        return "NONE" if v[2] == "None" else ("SOME", classify_value(v[3][0]))
    if v[0] == "call" and v[1].name in ("squared", "square") and len(v[2]) == 1:
        k = peel_param(v[2][0])
        if k is not None and not k[1]:
            return ("squared", k[0])
    return None


def identity_ok(op, facts, vc):
    """Is returning the value class `vc` an algebraic identity of `op` under the operand facts? (P·0 = O, x^1 = x, …)"""
    Z = lambda k: ("zero", (k, ())) in facts
    O = lambda k: ("one", (k, ())) in facts
    arg = lambda k: vc == ("arg", k, ())
    if op == "smul":       # (point, scalar)
        return (Z(2) and vc == "ZERO") or (O(2) and arg(1)) or (Z(1) and (vc == "ZERO" or arg(1)))
    if op == "smul_rev":   # (scalar, point)
        return (Z(1) and vc == "ZERO") or (O(1) and arg(2)) or (Z(2) and (vc == "ZERO" or arg(2)))
    if op == "pow":
        return (Z(2) and vc == "ONE") or (O(2) and arg(1)) or (O(1) and (vc == "ONE" or arg(1)))
    if op == "inverse":
        return (Z(1) and vc == "NONE") or (O(1) and vc in (("SOME", "ONE"), ("SOME", ("arg", 1, ()))))
    if op == "add":
        return (Z(1) and arg(2)) or (Z(2) and arg(1))
    if op == "sub":
        return Z(2) and arg(1)
    if op == "gsub":       # group subtraction: A − O = A; O − O is an identity, whichever representative is handed back
        return (Z(2) and arg(1)) or (Z(1) and Z(2) and (arg(2) or vc == "ZERO"))
    if op == "mul":
        if isinstance(vc, tuple) and vc and vc[0] == "squared":
            return ("eq", (1, ()), (2, ())) in facts or Z(vc[1])
        return (Z(1) and (vc == "ZERO" or arg(1))) or (Z(2) and (vc == "ZERO" or arg(2))) or (O(1) and arg(2)) or (O(2) and arg(1))
    if op in ("neg", "double"):
        return Z(1) and (vc == "ZERO" or arg(1))
    if op == "squared":
        return (Z(1) and (vc == "ZERO" or arg(1))) or (O(1) and (vc == "ONE" or arg(1)))
    if op == "normalize":
        return Z(1) and arg(1)
    return False


ZERO_T, ONE_T = ("ZERO",), ("ONE",)
_ABSORB = ("mul", "mul_inplace", "scale", "scale_fq", "mul_assign", "mul_1", "mul_015", "mul_by_fq", "mul_by_nonresidue")
_ZERO_FIX = ("neg", "neg_inplace", "double", "triple", "squared", "square", "div2", "mul_by_nonresidue", "frobenius_map", "unitary_inverse", "conjugate")


def specialise(repo, t, facts, depth=0):
    """Normal form of a value term under operand facts {('zero'|'one', (param, proj))}: operands (and their components) known to be
    zero / one are replaced and 0·x = 0, 1·x = x, 0 + x = x, x − 0 = x, −0 = 0, 2·0 = 0, 0² = 0 are applied; nothing else is
    rewritten.  Two value terms with the same normal form under the facts of a path are equal on that path."""
    t = strip(t)
    if depth > 12:
        return t
    k = peel_param(t)
    if k is not None:
        for j in range(len(k[1]) + 1):
            if ("zero", (k[0], k[1][:j])) in facts:
                return ZERO_T
        if ("one", k) in facts:
            return ONE_T
        return ("arg",) + k
    if t[0] == "call":
        nm = t[1].name
        args = [specialise(repo, a, facts, depth + 1) for a in t[2]]
        if nm in ("zero",) and not args:
            return ZERO_T
        if nm in ("one",) and not args:
            return ONE_T
        if nm in _ZERO_FIX and len(args) >= 1 and args[0] == ZERO_T:
            return ZERO_T
        if nm in _ABSORB and len(args) == 2:
            if ZERO_T in args:
                return ZERO_T
            if nm in ("mul", "mul_inplace", "scale", "scale_fq") and ONE_T in args:
                return args[1] if args[0] == ONE_T else args[0]
        if nm in ("add", "add_inplace") and len(args) == 2 and ZERO_T in args:
            return args[1] if args[0] == ZERO_T else args[0]
        if nm in ("sub", "sub_inplace") and len(args) == 2 and args[1] == ZERO_T:
            return args[0]
        if nm in ("new",) and args and all(a == ZERO_T for a in args):
            return ZERO_T
        if nm in ("new",) and len(args) >= 2 and args[0] == ONE_T and all(a == ZERO_T for a in args[1:]):
            return ONE_T
        return ("call", nm, tuple(args))
    if t[0] == "agg" and isinstance(t[1], str):
        args = [specialise(repo, a, facts, depth + 1) for a in t[3]]
        if t[1].startswith("crate::fields"):
            if args and all(a == ZERO_T for a in args):
                return ZERO_T
            if len(args) >= 2 and args[0] == ONE_T and all(a == ZERO_T for a in args[1:]):
                return ONE_T
            # a tower value whose components are exactly the components of one operand is that operand
            ks = [a for a in args if isinstance(a, tuple) and a and a[0] == "arg"]
            if len(ks) == len(args) and args and all(a[1] == args[0][1] and a[2][:-1] == args[0][2][:-1] and a[2][-1:] == (i,) for i, a in enumerate(args)):
                return ("arg", args[0][1], args[0][2][:-1])
        return ("agg", t[1], t[2], tuple(args))
    if t[0] == "phi":
        vs = {specialise(repo, x, facts, depth + 1) for x in t[1]}
        return vs.pop() if len(vs) == 1 else ("phi", tuple(sorted(map(repr, vs))))
    return t


def whole_arg(repo, k, nfields_of=None):
    return ("arg",) + k


def forwards(repo, b, main_pred, op, root=0):
    """Does every return of `b` either have the main forwarding shape (main_pred(value) → bool / (bool, why)) or return an
    algebraic identity of `op` on a path guarded by the matching operand test? → (ok, why)"""
    def mp(v):
        try:
            r = main_pred(v)
        except (IndexError, TypeError, KeyError):
            return False, "shape"
        return r if isinstance(r, tuple) else (bool(r), "")
    tb = repo.tb(b)
    whole = tb.return_value() if root == 0 else tb.final_value(root)
    ok, why = mp(whole)
    if ok:
        return True, ""
    rows = path_table(repo, b, root)
    if not rows:
        return False, why or show(whole, maxdepth=3)[:160]
    main_seen = False
    for asg, val, res in rows:
        okr, whyr = mp(val)
        facts = algebra_facts(asg)
        if okr:
            main_seen = True
            continue
        if identity_ok(op, facts, classify_value(val)):
            continue
        # a shortcut that is the main formula specialised by what the path knows about the operands (0·x = 0, −0 = 0, …)
        if facts and ("other",) not in facts:
            mains = [v2 for a2, v2, r2 in rows if mp(v2)[0]]
            fz = {f for f in facts if f[0] in ("zero", "one")}
            if mains and fz and any(specialise(repo, m_, fz) == specialise(repo, val, fz) for m_ in mains):
                continue
        return False, "on the path where %s it returns %s%s" % (sorted(facts) or "no operand test holds", show(val, maxdepth=3)[:120], ("; " + whyr) if whyr else "")
    if not main_seen:
        return False, "no path forwards to the operation"
    return True, ""
