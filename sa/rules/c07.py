"""C07 — field elements always stay canonical; == is value equality."""
from core import report
from core.sm9 import Repo
from . import shared, field, c13


def run(ctx):
    repo = Repo(ctx.dev)
    closed, prim, r_step = shared.classify_u256(repo)
    rules = [
        shared.rule_red(repo, closed),
        r_step,
        shared.rule_guard(repo),
        shared.rule_encaps(repo),
        shared.rule_eq_derived(repo, list(repo.fp_types()) + ["crate::fields::fq2::Fq2", "crate::u256::U256", "crate::Fr", "crate::Fq", "crate::Fq2"]),
        shared.rule_rng(repo),
        field.rule_inv_none("C07", repo),
        field.rule_limb_predicates("C07", repo),
        c13.rule_setbit(repo, "C07"),
    ]
    # the same rules on the release-profile MIR (cfg-dependent code would differ)
    repo_rel = Repo(ctx.rel)
    closed_r, _, _ = shared.classify_u256(repo_rel)
    rr = shared.rule_red(repo_rel, closed_r)
    rr.rid = "R-RED[rel]"
    rules.append(rr)
    return report.emit(
        "C07", ctx.tier, ctx.seed, rules, ctx.started,
        "Typestate `Reduced` over every write to the limbs of Fr/Fq in the type-checked MIR of the library (both profiles): "
        "each Fp construction, each store into / &mut of the limb field must be produced by a reduction-closed U256 operation "
        "with the type's own modulus static; reduction-closed operations are found by role (must pass through the conditional "
        "subtraction) or are four tabled methods; plus encapsulation, derived ==, RNG remainder and boundary truth tables.",
        shared.ASSUMPTIONS + ["numerical correctness of the reduction-closed primitives (carry chains, Montgomery reduction, invert)"],
        ["that the reduction-closed primitives are numerically right; termination of invert for inputs in (0,p) follows from the Reduced invariant and is not re-proved"])
