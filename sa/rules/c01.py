"""C01 — pairing bilinear, non-degenerate, trivial on the identity (structural clauses)."""
from core import report
from core.sm9 import Repo
from . import shared, norm, consts, expo, miller


def run(ctx):
    repo = Repo(ctx.dev)
    r_norm, N = norm.rule_norm("C01", repo)
    rules = [norm.rule_id_guard("C01", repo, N), r_norm, consts.rule_const("C01", repo), expo.rule_exp("C01", repo)] + miller.rules("C01", repo)
    return report.emit(
        "C01", ctx.tier, ctx.seed, rules, ctx.started,
        "Identity inputs give one at every entry point (truth table over the identity tests; G1-side operand of every affine-only Miller loop identity-guarded); loop constant = 6t+2 "
        "in both Miller loops; Miller-index abstract interpretation of both loops against the recurrence f_{2n}=f_n²·l_{T,T}, f_{n±1}=f_n·l_{T,±Q}; both final exponentiations compose to "
        "exactly (q¹²−1)/r, so every output is an r-th root of unity given the Fq12 primitive contracts.",
        shared.ASSUMPTIONS + ["contracts of the line functions and of the Fq12 primitives"],
        ["bilinearity, additivity and non-degeneracy (values of the line functions and tower arithmetic)"])
