"""Byte layouts of encoders and decoders (DESIGN §4.F): destination range → source component, read off the MIR."""
from core.report import Rule
from core.facts import FactsError
from core.terms import strip, alts, walk, show
from core.lensim import array_len
from . import shared
from .shared import loc_of, type_of_term


class Access:
    """Resolves accessor calls / field projections to a readable component path relative to a function's input."""
    def __init__(self, repo):
        self.repo = repo
        self.F = repo.F
        self._acc = {}

    def field_name(self, ty, idx):
        import re
        m = re.match(r"^([A-Za-z0-9_:]+)", ty or "")
        adt = self.F.adts.get(ty) or (self.F.adts.get(m.group(1)) if m else None)
        if adt and idx < len(adt["variants"][0]["fields"]):
            return adt["variants"][0]["fields"][idx]["name"]
        return str(idx)

    def accessor(self, d):
        """If `d` is an accessor (&Self → component, possibly re-wrapped), its component path (list of names)."""
        if d in self._acc:
            return self._acc[d]
        self._acc[d] = None
        b = self.F.bodies.get(d)
        if b is None or len(b.rec.get("inputs") or []) != 1:
            return None
        rv = self.repo.tb(b).return_value()
        p = self.path(b, rv, allow_param=True)
        if p is not None and p and p[0] == "self":
            self._acc[d] = p[1:]
        return self._acc[d]

    def path(self, body, t, allow_param=False):
        """Component path of a term: ['self', 'c1'] / ['affine(self)', 'x'] …; None if not a pure projection."""
        t = strip(t)
        if t[0] in ("param", "init"):
            l = t[1] if t[0] == "param" else t[1][1]
            return ["self"] if l == 1 else ["arg%d" % l]
        if t[0] == "field":
            base = self.path(body, t[1])
            if base is None:
                return None
            ty = type_of_term(self.F, body, t[1])
            ty = (ty or "").lstrip("&").replace("mut ", "").strip()
            nm = self.field_name(ty, t[2])
            return base if nm == "0" else base + [nm]
        if t[0] == "agg" and isinstance(t[1], str) and t[1].startswith("crate::") and len(t[3]) == 1:
            return self.path(body, t[3][0])      # re-wrapping in a newtype
        if t[0] == "call":
            fk = t[1]
            if fk.name in ("unwrap", "expect") and len(t[2]) >= 1:
                inner = strip(t[2][0])
                if inner[0] == "call" and inner[1].name == "from_jacobian":
                    base = self.path(body, inner[2][0])
                    return None if base is None else ["affine(%s)" % ".".join(base)]
                return self.path(body, inner)
            if fk.name in ("clone", "into", "from", "as_ref", "borrow", "deref") and len(t[2]) == 1 and not fk.d.startswith("crate::fields::fp::<impl core::convert::From"):
                return self.path(body, t[2][0])
            if len(t[2]) == 1:
                acc = self.accessor(fk.d)
                if acc is not None:
                    base = self.path(body, t[2][0])
                    return None if base is None else base + acc
        return None


def dest_range(t, n):
    """[a,b) denoted by the destination slice term of a copy (an index_mut over the output array)."""
    t = strip(t)
    if t[0] == "call" and t[1].name in ("index_mut", "index") and len(t[2]) == 2:
        rng = strip(t[2][1])
        if rng[0] == "agg" and isinstance(rng[1], str) and rng[1].startswith("core::ops::Range"):
            kind = rng[1].split("::")[-1]
            vals = []
            for x in rng[3]:
                x = strip(x)
                if x[0] != "const" or "int" not in x[1]:
                    return None
                vals.append(int(x[1]["int"]))
            if kind == "RangeTo":
                return (0, vals[0])
            if kind == "RangeFrom":
                return (vals[0], n)
            if kind == "Range":
                return (vals[0], vals[1])
            if kind == "RangeFull":
                return (0, n)
    return None


def encoder_layout(repo, acc, body):
    """[(a, b, source path, via)] for each copy_from_slice into the returned array; n = array length."""
    tb = repo.tb(body)
    n = array_len(body.rec.get("output"))
    out = []
    for bb, t in body.calls():
        if (t.get("fn") or {}).get("name") != "copy_from_slice":
            continue
        dst, src = tb.call_args(bb)
        rng = dest_range(dst, n)
        s = strip(src)
        via = None
        # source: X.to_slice() (possibly .as_ref()) — take X
        while s[0] == "call" and s[1].name in ("as_ref", "borrow", "deref") and len(s[2]) == 1:
            s = strip(s[2][0])
        if s[0] == "call" and s[1].name in ("to_slice", "into") and len(s[2]) == 1:
            via = s[1].d
            p = acc.path(body, s[2][0])
        else:
            p = acc.path(body, s)
        out.append((rng, p, via, bb))
    return n, out


def rule_layout(prop, repo, which):
    """which: list of (function path, expected [(a,b,path)], initial fill or None)"""
    F = repo.F
    R = Rule("R-LAYOUT", "destination byte range → source component of every encoder equals the SM9 layout table and tiles the output exactly", floor=len(which), exhaustive=True)
    acc = Access(repo)
    got_all = {}
    for path, expected, tile_from in which:
        b = F.bodies.get(path)
        R.instance()
        if b is None:
            R.fail_closed("%s:layout:%s:anchor" % (prop, path), "%s not found" % path)
            continue
        n, lay = encoder_layout(repo, acc, b)
        got = sorted(((r[0], r[1], ".".join(p) if p else None) for (r, p, via, bb) in lay if r), key=lambda x: x[0])
        got_all[path] = got
        want = sorted(expected)
        ok = got == want and len(got) == len(lay)
        # tiling
        pos = tile_from
        tiles = True
        for a, bnd, _ in got:
            if a != pos:
                tiles = False
            pos = bnd
        tiles = tiles and pos == n
        R.check(ok and tiles, "%s:layout:%s" % (prop, path), "%s writes %s (tiles output: %s); the format is %s" % (path, got, tiles, want), b.file_line(), path,
                sample={"fn": path, "bytes": n, "layout": ["[%d,%d) ← %s" % g for g in got]})
    return R.finish(), got_all


def std_tables(P):
    return [
        ("crate::fields::fq2::Fq2::to_slice", [(0, 32, "self.c1"), (32, 64, "self.c0")], 0),
        ("crate::fields::fq4::Fq4::to_slice", [(0, 64, "self.c1"), (64, 128, "self.c0")], 0),
        ("crate::fields::fq12::Fq12::to_slice", [(0, 128, "self.c2"), (128, 256, "self.c1"), (256, 384, "self.c0")], 0),
    ]


def point_tables():
    return [
        ("crate::G1::to_slice", [(0, 32, "affine(self).x"), (32, 64, "affine(self).y")], 0),
        ("crate::G2::to_slice", [(0, 64, "affine(self).x"), (64, 128, "affine(self).y")], 0),
        ("crate::G1::to_uncompressed", [(1, 65, "self")], 1),
        ("crate::G2::to_uncompressed", [(1, 129, "self")], 1),
        ("crate::G1::to_compressed", [(1, 33, "affine(self).x")], 1),
        ("crate::G2::to_compressed", [(1, 65, "affine(self).x")], 1),
    ]


def rule_wrappers(prop, repo, pairs):
    """Public wrappers forward to the inner encoder unchanged."""
    F = repo.F
    R = Rule("R-LAYOUT-WRAP", "public to_slice wrappers forward to the inner encoder of the wrapped value", floor=len(pairs))
    for w, inner in pairs:
        b = F.bodies.get(w)
        R.instance()
        if b is None:
            R.fail_closed("%s:wrap:%s" % (prop, w), "%s not found" % w)
            continue
        rv = repo.tb(b).return_value()
        ok = rv[0] == "call" and rv[1].d == inner and strip(rv[2][0]) in (("field", ("param", 1), 0), ("field", ("init", ("deref", 1)), 0))
        R.check(ok, "%s:wrap:%s" % (prop, w), "%s is not %s(self.0): %s" % (w, inner, show(rv, maxdepth=3)[:160]), b.file_line(), w, sample={"wrapper": w, "forwards_to": inner})
    return R.finish()


def rule_prefix_fill(prop, repo):
    """0x04 prefix of uncompressed encodings: the output array is filled with 4 and only bytes [1..) are overwritten."""
    F = repo.F
    R = Rule("R-PREFIX", "uncompressed encoders start from [4u8; N] and overwrite bytes 1.. only; decoders compare byte 0 with 4 (see R-ACCEPT)", floor=2)
    for path in ("crate::G1::to_uncompressed", "crate::G2::to_uncompressed"):
        b = F.bodies.get(path)
        R.instance()
        if b is None:
            R.fail_closed("%s:prefix:%s" % (prop, path), "%s not found" % path)
            continue
        rv = repo.tb(b).return_value()
        base = rv
        while base[0] == "mutcall":
            base = strip(base[2][base[3]])
        ok = base[0] == "repeat" and base[1][0] == "const" and int(base[1][1].get("int", -1)) == 4
        R.check(ok, "%s:prefix:%s" % (prop, path), "%s does not start from [4u8; N]: %s" % (path, show(base, maxdepth=2)), b.file_line(), path, sample={"fn": path, "fill": 4})
    return R.finish()


def rule_parity_encoder(prop, repo, ls):
    """Compressed encoders: byte 0 is 2 when y (real part) is even, 3 when odd — constant propagation under both parities."""
    from core import paths
    F = repo.F
    R = Rule("R-PARITY-ENC", "compressed encoders: prefix = 2 if canonical y (real part) is even else 3 — evaluated for both parities", floor=2, exhaustive=True)
    acc = Access(repo)
    for path in ("crate::G1::to_compressed", "crate::G2::to_compressed"):
        b = F.bodies.get(path)
        R.instance()
        if b is None:
            R.fail_closed("%s:parity-enc:%s" % (prop, path), "%s not found" % path)
            continue
        tb = repo.tb(b)
        rows = {}
        subject = None
        for ev in (0, 1):
            atoms = paths.collect_atoms(b, tb)
            asg = {}
            for a in atoms:
                if a[0] == "bool" and a[1][0] == "call" and a[1][1].name == "is_even":
                    asg[a] = ev
                    subject = acc.path(b, a[1][2][0])
                else:
                    asg[a] = 1
            res = paths.simulate(b, tb, paths.Evaluator(asg))
            if res.end != "return":
                rows[ev] = "path:%s" % res.end
                continue
            # find the local array that is returned and evaluate its byte 0 along the path
            rows[ev] = byte0_on_path(b, tb, res.blocks)
        ok = rows.get(1) == 2 and rows.get(0) == 3 and subject is not None and subject[-1:] == ["y"] and subject[0].startswith("affine(")
        R.check(ok, "%s:parity-enc:%s" % (prop, path), "%s: prefix is %s when y is even and %s when odd (tested value: %s); the format wants 2 / 3 on affine y" % (path, rows.get(1), rows.get(0), subject),
                b.file_line(), path, sample={"fn": path, "even→": rows.get(1), "odd→": rows.get(0), "parity_of": ".".join(subject) if subject else None})
    # is_even reads the canonical value (of the real part for Fq2)
    for w, want in (("crate::Fq::is_even", []), ("crate::Fq2::is_even", ["c0"])):
        b = F.bodies.get(w)
        R.instance()
        if b is None:
            R.fail_closed("%s:parity-enc:%s" % (prop, w), "%s not found" % w)
            continue
        rv = repo.tb(b).return_value()
        ok = False
        desc = show(rv, maxdepth=5)[:200]
        if rv[0] == "call" and rv[1].name == "is_even" and rv[1].d == "crate::u256::U256::is_even":
            x = strip(rv[2][0])
            if x[0] == "call" and x[1].name == "into_u256":
                p = acc.path(b, x[2][0])
                ok = p is not None and p[0] == "self" and p[1:] == want
                desc = "into_u256(%s)" % p
        R.check(ok, "%s:parity-enc:%s" % (prop, w), "%s does not test the canonical value of %s: %s" % (w, "the real part" if want else "the element", desc), b.file_line(), w,
                sample={"fn": w, "tests": desc})
    return R.finish()


def byte0_on_path(body, tb, blocks):
    """Constant value of byte 0 of the returned array along one block path (assign / |= const propagation)."""
    val = None
    arr = None
    for bb in blocks:
        blk = body.blocks[bb]
        for st in blk["stmts"]:
            if st["k"] != "assign":
                continue
            pl, rv = st["place"], st["rv"]
            if not pl["p"] and rv["k"] == "repeat" and array_len(body.locals[pl["l"]]["ty"]) is not None:
                op = rv["op"]
                if op.get("k") == "const" and "int" in op:
                    arr = pl["l"]
                    val = int(op["int"])
            if arr is not None and pl["l"] == arr and len(pl["p"]) == 1 and isinstance(pl["p"][0], dict) and "idx" in pl["p"][0]:
                # index local must be the constant 0
                idxl = pl["p"][0]["idx"]
                iv = tb.root_value(idxl, bb, blk["stmts"].index(st))
                if iv[0] == "const" and int(iv[1].get("int", -1)) == 0:
                    if rv["k"] == "use" and rv["op"].get("k") == "const":
                        val = int(rv["op"]["int"])
                    elif rv["k"] == "binop" and rv["op"] in ("BitOr", "BitAnd", "BitXor", "Add"):
                        c = rv["b"] if rv["b"].get("k") == "const" else rv["a"]
                        if c.get("k") == "const" and val is not None:
                            k = int(c["int"])
                            val = {"BitOr": val | k, "BitAnd": val & k, "BitXor": val ^ k, "Add": val + k}[rv["op"]]
                        else:
                            val = None
                    else:
                        val = None
    return val


def rule_decoder_layout(prop, repo, ls):
    """Decoders read each coordinate from the byte range the encoder writes it to."""
    from .convert import byte_origins
    F = repo.F
    R = Rule("R-LAYOUT-DEC", "decoders take coordinate k from the byte range the format assigns to it (and Fq2::from_slice builds {c0: low half, c1: high half})", floor=5, exhaustive=True)
    want = {
        "crate::G1::from_slice": [(0, 32), (32, 64)],
        "crate::G2::from_slice": [(0, 64), (64, 128)],
        "crate::G1::from_compressed": [(1, 33)],
        "crate::G2::from_compressed": [(1, 65)],
    }
    for path, ranges in want.items():
        b = F.bodies.get(path)
        R.instance()
        if b is None:
            R.fail_closed("%s:layout-dec:%s" % (prop, path), "%s not found" % path)
            continue
        tb = repo.tb(b)
        news = [(bb, t) for bb, t in b.calls() if (t.get("fn") or {}).get("res_def", "").startswith("crate::AffineG") and t["fn"]["name"] == "new"]
        if len(news) != 1:
            R.fail_closed("%s:layout-dec:%s:shape" % (prop, path), "expected one AffineG*::new call", b.file_line())
            continue
        args = tb.call_args(news[0][0])
        n = sorted(ls.length_domain(b))
        total = max(r[1] for r in ranges)
        got = []
        for a in args[:len(ranges)]:
            rs = set()
            for sub in walk(a):
                if sub[0] == "call" and sub[1].name == "index" and len(sub[2]) == 2 and strip(sub[2][0]) in (("param", 1), ("init", ("deref", 1))):
                    r = dest_range(sub, total)
                    if r:
                        rs.add(r)
            got.append(sorted(rs))
        ok = all(len(g) >= 1 and g[0] == w for g, w in zip(got, ranges)) and all(len(g) == 1 for g in got)
        R.check(ok, "%s:layout-dec:%s" % (prop, path), "%s reads its coordinates from %s; the format is %s" % (path, got, ranges), b.file_line(), path,
                sample={"fn": path, "coordinate_ranges": got})
    b = F.bodies.get("crate::fields::fq2::Fq2::from_slice")
    R.instance()
    if b is None:
        R.fail_closed("%s:layout-dec:Fq2" % prop, "fields::Fq2::from_slice not found")
    else:
        tb = repo.tb(b)
        rv = tb.return_value()
        found = None
        for a in alts(rv):
            for sub in walk(a):
                if sub[0] == "agg" and sub[1] == "crate::fields::fq2::Fq2":
                    comps = []
                    for c in sub[3]:
                        rs = [dest_range(s, 64) for s in walk(c) if s[0] == "call" and s[1].name == "index" and strip(s[2][0]) in (("param", 1), ("init", ("deref", 1)))]
                        comps.append(sorted(set(r for r in rs if r)))
                    found = comps
        ok = found == [[(32, 64)], [(0, 32)]]
        R.check(ok, "%s:layout-dec:crate::fields::fq2::Fq2::from_slice" % prop, "Fq2::from_slice builds {c0 ← %s, c1 ← %s}; the format is c0 ← [32,64), c1 ← [0,32)" % (found and found[0], found and found[1]),
                b.file_line(), b.rec["path"], sample={"fn": b.rec["path"], "c0": found and found[0], "c1": found and found[1]})
    return R.finish()


def rule_affine_first(prop, repo):
    """Encoders serialise only coordinates of the affine conversion of self (never self.x()/self.0.x)."""
    F = repo.F
    R = Rule("R-AFFINE-FIRST", "every coordinate an encoder serialises comes from AffineG*::from_jacobian(self); from_jacobian is to_affine", floor=6)
    acc = Access(repo)
    for path, _, _ in point_tables():
        b = F.bodies.get(path)
        R.instance()
        if b is None:
            R.fail_closed("%s:affine-first:%s" % (prop, path), "%s not found" % path)
            continue
        n, lay = encoder_layout(repo, acc, b)
        bad = [p for (r, p, via, bb) in lay if not p or not (p[0].startswith("affine(self)") or (p == ["self"] and via in ("crate::G1::to_slice", "crate::G2::to_slice")))]
        R.check(not bad and lay, "%s:affine-first:%s" % (prop, path), "%s serialises %s, which is not a coordinate of the affine form of self" % (path, bad), b.file_line(), path,
                sample={"fn": path, "sources": [".".join(p) if p else None for (_, p, _, _) in lay]})
    for w in ("crate::AffineG1::from_jacobian", "crate::AffineG2::from_jacobian"):
        b = F.bodies.get(w)
        R.instance()
        if b is None:
            R.fail_closed("%s:affine-first:%s" % (prop, w), "%s not found" % w)
            continue
        rv = repo.tb(b).return_value()
        ok = rv[0] == "call" and rv[1].name == "map" and strip(rv[2][0])[0] == "call" and strip(rv[2][0])[1].d == "crate::groups::G::<P>::to_affine" and strip(strip(rv[2][0])[2][0]) == ("field", ("param", 1), 0)
        R.check(ok, "%s:affine-first:%s" % (prop, w), "%s is not self.0.to_affine().map(wrap): %s" % (w, show(rv, maxdepth=3)[:160]), b.file_line(), w, sample={"fn": w})
    return R.finish()


def rule_conv_traits(prop, repo):
    """From<T> for [u8; N] forwards to to_slice; TryFrom<&[u8]> forwards to from_slice (no second, divergent layout)."""
    F = repo.F
    R = Rule("R-CONV-TRAITS", "byte-conversion trait impls (From<T> for [u8; N], TryFrom<&[u8]>) forward to to_slice / from_slice of the same type", floor=6)
    n = 0
    for imp in F.impls:
        tr = imp.get("trait")
        tf = imp.get("trait_full", "")
        if tr == "core::convert::From" and imp["self_ty"].startswith("[u8; ") and "crate::" in tf:
            for item in imp["items"]:
                b = F.bodies.get(item)
                if b is None or not item.endswith("::from"):
                    continue
                R.instance()
                rv = repo.tb(b).return_value()
                ok = rv[0] == "call" and rv[1].name == "to_slice" and len(rv[2]) == 1 and strip(rv[2][0]) in (("param", 1), ("init", ("deref", 1)))
                R.check(ok, "%s:conv:%s" % (prop, item), "%s is not value.to_slice(): %s" % (item, show(rv, maxdepth=3)[:140]), b.file_line(), item, sample={"impl": item, "is": "value.to_slice()"} if R.instances % 4 == 1 else None)
        if tr == "core::convert::TryFrom" and "&[u8]" in tf and imp.get("self_adt", "") and imp["self_adt"].startswith("crate::"):
            for item in imp["items"]:
                b = F.bodies.get(item)
                if b is None or not item.endswith("::try_from"):
                    continue
                R.instance()
                rv = repo.tb(b).return_value()
                inner = strip(rv[2][0]) if rv[0] == "call" and rv[1].name in ("ok_or", "ok_or_else") and rv[2] else None
                ok = inner is not None and inner[0] == "call" and inner[1].name == "from_slice" and inner[1].d.startswith(imp["self_adt"]) and strip(inner[2][0]) in (("param", 1), ("init", ("deref", 1)))
                R.check(ok, "%s:conv:%s" % (prop, item), "%s is not Self::from_slice(hex).ok_or(..): %s" % (item, show(rv, maxdepth=3)[:140]), b.file_line(), item, sample={"impl": item, "is": "Self::from_slice(hex).ok_or(err)"})
    return R.finish()
