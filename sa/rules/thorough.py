"""Additional rules of the thorough tier (compile-fail witnesses, dependency frontier)."""


def extra_rules(prop, ctx):
    out = []
    return out
