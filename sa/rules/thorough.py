"""Additional rules of the thorough tier (compile-fail witnesses, dependency frontier)."""
import os, re, shutil, subprocess
from core.report import Rule, VERIF

WITNESSES = {"C07": ["W1", "W2", "W3", "W8"], "C09": ["W4"], "C03": ["W5", "W6", "W7"], "C16": ["W5", "W6", "W7"], "C11": ["W2"], "C12": ["W2", "W3"]}


def rule_witness(prop, ctx):
    want = WITNESSES.get(prop)
    R = Rule("R-WITNESS", "compile-fail witnesses (rustc rejects the violating program with the expected error code; the twin differing by one line compiles); nothing is executed", floor=len(want or []))
    if not want:
        return None
    if os.path.realpath(ctx.repo) != "/repo":
        R.note("witness crate path-depends on /repo; skipped for %s" % ctx.repo)
        R.floor = 0
        return R.finish()
    wdir = os.path.join(VERIF, "sa/witness")
    lock = os.path.join(wdir, "Cargo.lock")
    if not os.path.exists(lock) and os.path.exists("/repo/Cargo.lock"):
        shutil.copy("/repo/Cargo.lock", lock)
    env = dict(os.environ, CARGO_TARGET_DIR=os.path.join(VERIF, ".cache/witness-target"), CARGO_NET_OFFLINE="true")
    r = subprocess.run(["cargo", "+nightly", "test", "--doc", "--offline"], cwd=wdir, env=env, capture_output=True, text=True)
    res = {}
    for m in re.finditer(r"^test src/lib\.rs - (W\d+) \(line \d+\) - (compile fail|compile) \.\.\. (\w+)", r.stdout, re.M):
        res.setdefault(m.group(1), {})[m.group(2)] = m.group(3)
    for w in want:
        R.instance()
        got = res.get(w, {})
        ok = got.get("compile fail") == "ok" and got.get("compile") == "ok"
        R.check(ok, "%s:witness:%s" % (prop, w), "witness %s: violating program %s, compiling twin %s%s" % (w, got.get("compile fail", "not run"), got.get("compile", "not run"), "" if res else " — " + (r.stdout + r.stderr)[-300:]),
                sample={"witness": w, "violating_program_rejected": got.get("compile fail"), "twin_compiles": got.get("compile")})
    return R.finish()


def extra_rules(prop, ctx):
    out = []
    w = rule_witness(prop, ctx)
    if w is not None:
        out.append(w)
    return out
