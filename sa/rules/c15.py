"""C15 — point equality, normalisation and affine conversion respect the group element (structural clauses)."""
from core import report
from core.sm9 import Repo
from . import shared, weight, grouplaw, field


def run(ctx):
    repo = Repo(ctx.dev)
    rules = grouplaw.rules_c15("C15", repo) + [field.rule_tower_consts("C15", repo), weight.rule_weight_group("C15", repo), shared.rule_eq_derived(repo, ["crate::G1", "crate::G2", "crate::AffineG1", "crate::AffineG2"]),
             shared.rule_eq_reads("C15", repo, ["crate::groups::G", "crate::groups::AffineG"])]
    return report.emit(
        "C15", ctx.tier, ctx.seed, rules, ctx.started,
        "Abstract interpretation of G::eq and to_affine over the Jacobian-weight domain with path conditions: eq's truth table (identity cases first, true only after both the x- and "
        "y-class cross-comparisons are equal, operands weight-balanced ⇒ invariant for all λ); to_affine None ⇔ z=0, weight-0 outputs, z=1 shortcut returns (x,y); to_jacobian sets "
        "z=one(); normalize only rewrites through them; wrappers' == is derived over the inner point.",
        shared.ASSUMPTIONS + ["inverse() is None exactly for zero (C06 R-INV-NONE)"],
        ["numerical correctness of x/z², y/z³"])
