"""Shortcuts of the tower operations: which operand components a fast path may ignore (C11, C12, C17).

Companion of rules/mono.py for the shortcuts whose general formula does not collapse to monomials under the guard (a guard
that zeroes only part of an operand, tests a sum, or tests the wrong operand).  The abstract value of a base-field quantity is
its *support*: 0, or the set of opaque operand components it may depend on (products with 0 are 0; sums, differences and
products unite).  No coefficient, no exponent, no expression: a set per value.

Rule: on a path that answered some guard "yes" and returned early, every operand component that the function's own general
formula still uses once the guard's zero components are set to 0 must also be used by the shortcut, unless the guard itself
fixes it (a component compared with a constant or with another value is exempt; a zero test of a sum of k components
exempts one of them).  The union over all result components is compared, so that terms cancelling inside one component of
the general formula (CH-SQR2's c2) cannot raise an alarm.  This is a necessary condition for "the shortcut equals the general
formula": a result that genuinely varies with a component cannot be reproduced by code that never reads it.
"""
from core.report import Rule
from core.facts import FactsError
from core.absexec import AbsExec, Adt, Tup, Ref, TOP, Frame, deref_value, store_through
from rules.mono import MonoDomain, TOWER, FP, OPS, _leaves


RULE_BUDGET_S = 60     # wall-clock budget of the whole rule on one tree (seconds; it needs 1-6 s on the pinned tree); functions reached after it are not judged
RULE_DEADLINE = [None]
RUN_BUDGET_S = 12      # wall-clock budget of one abstract run; beyond it the function is not judged (never a verdict)


class Sup:
    """support of a base-field value: `zero` or the set of atoms it may depend on; `pure` = exactly one atom times a non-zero literal"""
    __slots__ = ("s", "zero", "pure")

    def __init__(self, s=(), zero=False, pure=False):
        self.s = frozenset(s) if not zero else frozenset()
        self.zero = zero
        self.pure = pure and len(self.s) == 1 and not zero

    def __repr__(self):
        return "0" if self.zero else "{%s}" % ",".join(sorted(self.s))


SZERO = Sup(zero=True)
SCONST = Sup(())


def smul(a, b):
    if a.zero or b.zero:
        return SZERO
    if not a.s:
        return Sup(b.s, pure=b.pure)
    if not b.s:
        return Sup(a.s, pure=a.pure)
    return Sup(a.s | b.s)


def sadd(a, b):
    if a.zero:
        return b
    if b.zero:
        return a
    return Sup(a.s | b.s)


def shaped(ty, name, zero_leaves, atom_ty=None):
    if ty in FP or ty == atom_ty:
        return SZERO if name in zero_leaves else Sup((name,), pure=True)
    inner, n = TOWER[ty]
    return Adt(ty, ty.split("::")[-1], [shaped(inner, "%s.%d" % (name, i), zero_leaves, atom_ty) for i in range(n)])


class SupDomain(MonoDomain):
    def call(self, ex, fk, args, term, fr):
        n = fk.name
        a = [deref_value(ex, x) for x in args]
        M = lambda x: isinstance(x, Sup)
        if n == "zero" and not a:
            return SZERO if self._is_atom_ty(fk) else NotImplemented
        if n == "one" and not a:
            return SCONST if self._is_atom_ty(fk) else NotImplemented
        if n == "mul_by_nonresidue" and len(a) == 1 and M(a[0]) and self.atom_ty:
            return Sup(a[0].s, a[0].zero, a[0].pure)
        if n == "is_zero" and len(a) == 1 and (M(a[0]) or a[0] is TOP):
            x = a[0]
            if x is TOP:
                return ("cond", "iszero", None, False)
            if x.zero:
                return ("cond", "iszero", "assumed-zero", False)
            if x.pure:
                return ("cond", "iszero", next(iter(x.s)), False)
            if len(x.s) == 1:
                return ("cond", "iszero", ("pin", x.s), False)
            return ("cond", "iszero", ("rel", x.s), False)
        if n in ("is_one", "eq", "ne", "lt", "le", "gt", "ge") and a and all(M(x) or x is TOP for x in a):
            atoms = frozenset().union(*[x.s for x in a if M(x)]) if any(M(x) for x in a) else frozenset()
            return ("cond", "iszero", ("pin", atoms) if all(M(x) for x in a) else None, n == "ne")
        if len(a) >= 1 and all(M(x) for x in a):
            if n in ("mul", "mul_inplace", "mul_assign") and len(a) == 2:
                r = smul(a[0], a[1])
                if n == "mul_assign":
                    store_through(ex, args[0], r)
                    return Tup([])
                return r
            if n in ("add", "add_inplace", "add_assign", "sub", "sub_inplace", "sub_assign") and len(a) == 2:
                r = sadd(a[0], a[1])
                if n.endswith("_assign"):
                    store_through(ex, args[0], r)
                    return Tup([])
                return r
            if n in ("neg", "neg_inplace", "double", "triple", "div2") and len(a) == 1:
                return Sup(a[0].s, a[0].zero, a[0].pure)
            if n in ("squared", "square") and len(a) == 1:
                return Sup(a[0].s, a[0].zero)
            if n == "inverse" and len(a) == 1:
                if a[0].zero:
                    return Adt("core::option::Option", "None", [])
                return Adt("core::option::Option", "Some", [Sup(a[0].s)])
            if n in ("clone", "into", "from", "borrow", "deref") and len(a) == 1:
                return a[0]
        if n == "sum_of_products" and len(a) == 2 and isinstance(a[0], Tup) and isinstance(a[1], Tup) and len(a[0].items) == len(a[1].items):
            acc = SZERO
            for x, y in zip(a[0].items, a[1].items):
                if not (M(x) and M(y)):
                    return TOP
                acc = sadd(acc, smul(x, y))
            return acc
        if n in ("unwrap", "expect") and a and isinstance(a[0], Adt) and a[0].variant == "Some":
            return a[0].fields[0]
        if n == "clone" and len(a) == 1:
            return a[0]
        return NotImplemented


def run_paths(F, b, operands, atom_ty=None):
    dom = SupDomain(F, atom_ty)
    in_fields = lambda d: ((F.bodies.get(d).rec.get("span") or {}).get("file") or "").startswith("src/fields") if F.bodies.get(d) is not None else False
    ex = AbsExec(F, dom, max_steps=200000, max_paths=512, inline=in_fields)
    ex.root_path = b.rec["path"]
    args = []
    for ty, v in operands:
        if ty.strip().startswith("&"):
            hf = Frame(b, [])
            hf.env[0] = v
            args.append(Ref(hf, 0))
        else:
            args.append(v)
    from core import absexec as _ax
    import time as _t
    if RULE_DEADLINE[0] is not None and _t.time() > RULE_DEADLINE[0]:
        raise FactsError("rule wall-clock budget exceeded")
    _ax.WALL_DEADLINE = min(_t.time() + RUN_BUDGET_S, RULE_DEADLINE[0] or float("inf"))
    try:
        rs = ex.run(b, args)
    finally:
        _ax.WALL_DEADLINE = None
    return [(v, fr.env.get("__pc", ())) for v, fr in rs]


def _outer(v):
    """outer shape of a result down to the base-field leaves (variants included), None when some leaf is not a support"""
    if isinstance(v, Adt):
        inner = tuple(_outer(f) for f in v.fields)
        return None if any(i is None for i in inner) else (v.name.split("::")[-1], v.variant if isinstance(v.variant, str) else None, inner)
    if isinstance(v, Tup):
        inner = tuple(_outer(f) for f in v.items)
        return None if any(i is None for i in inner) else ("tup", inner)
    return "leaf" if isinstance(v, Sup) else None


def _support(v):
    s = set()
    for x in _leaves(v, []):
        if isinstance(x, Sup):
            s |= x.s
    return s


def _guard(pc):
    """(zero atoms, exempt atoms, relations, has an opaque yes) of the guards a path answered "yes" to"""
    zeros, exempt, rels, opaque = set(), set(), [], False
    for k, val in pc:
        if not val or k == "assumed-zero":
            continue
        if k is None:
            opaque = True
        elif isinstance(k, tuple) and k[0] == "pin":
            exempt |= set(k[1])
        elif isinstance(k, tuple) and k[0] == "rel":
            rels.append(frozenset(k[1]))
        else:
            zeros.add(k)
    return zeros, exempt, rels, opaque


def compare_supports(F, b, ty, ins, names, atom_ty):
    try:
        rows = run_paths(F, b, [(i, shaped(ty, nm, (), atom_ty)) for i, nm in zip(ins, names)], atom_ty)
    except (FactsError, RecursionError, Exception):
        return [], 0
    bad, judged, cache = [], 0, {}
    for v, pc in rows:
        zeros, exempt, rels, opaque = _guard(pc)
        if opaque or not (zeros or exempt or rels) or _outer(v) is None:
            continue
        z = frozenset(zeros)
        if z not in cache:
            try:
                rows2 = run_paths(F, b, [(i, shaped(ty, nm, set(z), atom_ty)) for i, nm in zip(ins, names)], atom_ty) if z else rows
            except (FactsError, RecursionError, Exception):
                rows2 = []
            cache[z] = [v2 for v2, pc2 in rows2 if not any(val for k, val in pc2) and _outer(v2) is not None]
        main = [m for m in cache[z] if _outer(m) == _outer(v)]
        if not main:
            continue
        judged += 1
        need = set().union(*[_support(m) for m in main]) if len(main) == 1 else set.intersection(*[_support(m) for m in main])
        missing = need - _support(v) - zeros - exempt
        for r in rels:
            hit = sorted(missing & r)
            if hit:
                missing.discard(hit[0])
        if missing:
            gtxt = ", ".join(sorted(zeros)) or "-"
            bad.append("the path taken when [%s] tested zero%s never reads %s, which the general formula of the same function uses for such operands"
                       % (gtxt, " (and %d sum test(s) held)" % len(rels) if rels else "", sorted(missing)[:4]))
    return sorted(set(bad)), judged


def rule_shortcut_supports(prop, repo, types):
    F = repo.F
    import time as _tt
    RULE_DEADLINE[0] = _tt.time() + RULE_BUDGET_S
    R = Rule("R-SHORTCUT-SUPPORT", "a fast path of a tower inverse / squaring / multiplication reads every operand component that the function's own general formula "
             "still depends on under the fast path's guard (support domain: a value is 0 or the set of components it may depend on; union over the result)",
             floor=3, exhaustive=True)
    judged = 0
    for b in F.fn_bodies():
        ty = b.rec.get("impl_self_adt")
        if ty not in types or ty not in TOWER or (b.name or "") not in OPS + ("mul_015", "scale", "mul_assign") or b.rec["kind"] not in ("Fn", "AssocFn"):
            continue
        ins = b.rec.get("inputs") or []
        if not ins or not all(ty.split("::")[-1] in i for i in ins) or len(ins) > 2:
            continue
        R.instance()
        names = ["a", "b"][:len(ins)]
        bad, j = [], 0
        for atom_ty in [None] + ([TOWER[ty][0]] if TOWER[ty][0] not in FP else []):
            bg, jg = compare_supports(F, b, ty, ins, names, atom_ty)
            bad += bg
            j += jg
        judged += j
        R.check(not bad, "%s:shortcut-support:%s" % (prop, b.rec["path"]), "%s: %s" % (b.rec["path"], "; ".join(bad[:2])), b.file_line(), b.rec["path"],
                sample={"fn": b.rec["path"], "guarded_paths_compared": j} if j else None)
    R.note("%d guarded early paths compared with the support of the general formula of their function" % judged)
    return R.finish()
